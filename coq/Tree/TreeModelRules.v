(* ========================================================================
   TreeModelRules.v - html5ever/src/tree_builder/rules.rs: `step(mode, token)`
   for the 21 insertion modes and `step_foreign`, arm by arm IN THE RUST ORDER.

   Every mode is  [arm_dispatch mode_id heads bodies]: the index of the first
   head (the heads_xxx lists of TreeTables) matching the token selects the body with the same
   index; an [EvArm] coverage marker is logged.  Comments give the Rust line of
   each arm.

   `self.step(OtherMode, token)` delegations: the in-body / in-head /
   in-template rules call each other in the Rust code.  The recursion is cut by
   writing those three modes as functions of their callees ([*_gen]) and tying
   the knot by levels (a callee of level 0 answers [OutOfFuel]); the calls that
   actually occur only need two levels (TreeInv: OutOfFuel is unreachable).
   No proofs in this file.
   ======================================================================== *)
From Coq Require Import List NArith Bool Arith String.
From HV Require Import Dom.DomSpec Tree.TreeTypes Tree.TreeTables Tree.TreeModelHelpers.
Import ListNotations.
Open Scope string_scope.
Open Scope list_scope.
Notation length := List.length (only parsing).

Definition body := tok -> M presult.

Definition arm_dispatch (mid : nat) (heads : list arm_head) (bodies : list body) (t : tok) : M presult :=
  let k := first_match heads t in
  log_arm mid k ;; nth k bodies (fun _ => panic 90) t.

Definition set_mode_m (m : imode) : M unit := modify (set_mode m).
Definition set_frameset_not_ok : M unit := modify (set_frameset_ok false).
Definition is_fragment (s : st) : bool := match context_elem s with Some _ => true | None => false end.
Definition tname (t : tok) : str := tg_name (tk_tag t).

(* bodies shared by many arms *)
Definition b_split : body := fun t => ret (SplitWhitespace (tk_text t)).
Definition b_done : body := fun _ => ret Done.
Definition b_unexpected : body := fun _ => unexpected.
Definition b_append_text : body := fun t => append_text (tk_text t).
Definition b_append_comment : body := fun t => append_comment (tk_text t).
Definition b_comment_to_doc : body := fun t => append_comment_to_doc (tk_text t).
Definition b_comment_to_html : body := fun t => append_comment_to_html (tk_text t).

(* ---------- Initial (rules.rs:101-114) ---------- *)
Definition bodies_initial : list body :=
  [ (* 0 :102 *) b_split;
    (* 1 :105 *) b_done;
    (* 2 :106 *) b_comment_to_doc;
    (* 3 :107 *) fun t =>
       s <- get ;;
       (if negb (o_iframe_srcdoc (opts s)) then parse_error ;; do_set_quirks 0%N else ret tt) ;;
       ret (Reprocess BeforeHtml t) ].
Definition step_initial : body :=
  arm_dispatch (mode_id Initial) heads_initial bodies_initial.

(* ---------- BeforeHtml (rules.rs:118-143) ---------- *)
Definition before_html_anything_else : body :=
  fun t => create_root [] ;; ret (Reprocess BeforeHead t).
Definition bodies_before_html : list body :=
  [ (* 0 :125 *) b_comment_to_doc;
    (* 1 :127 *) b_split;
    (* 2 :131 *) b_done;
    (* 3 :132 *) fun t => create_root (tg_attrs (tk_tag t)) ;; set_mode_m BeforeHead ;; ret Done;
    (* 4 :138 *) before_html_anything_else;
    (* 5 :139 *) b_unexpected;
    (* 6 :141 *) before_html_anything_else ].
Definition step_before_html : body :=
  arm_dispatch (mode_id BeforeHtml) heads_before_html bodies_before_html.

(* ---------- BeforeHead (rules.rs:147-173) ---------- *)
Definition before_head_anything_else : body :=
  fun t =>
    h <- insert_phantom (nm "head") ;;
    modify (set_head_elem (Some h)) ;;
    ret (Reprocess InHead t).
Definition bodies_before_head (in_body : body) : list body :=
  [ (* 0 :153 *) b_split;
    (* 1 :156 *) b_done;
    (* 2 :157 *) b_append_comment;
    (* 3 :159 *) in_body;
    (* 4 :161 *) fun t =>
       h <- insert_element_for (tk_tag t) ;;
       modify (set_head_elem (Some h)) ;;
       set_mode_m InHead ;; ret Done;
    (* 5 :167 *) before_head_anything_else;
    (* 6 :169 *) b_unexpected;
    (* 7 :171 *) before_head_anything_else ].
Definition step_before_head (in_body : body) : body :=
  arm_dispatch (mode_id BeforeHead) heads_before_head (bodies_before_head in_body).

(* ---------- InHead (rules.rs:177-314) ---------- *)
Definition in_head_anything_else : body :=
  fun t => _e <- pop ;; ret (Reprocess AfterHead t).

Definition in_head_template_start : body :=
  fun t =>
    let tg := tk_tag t in
    push_marker ;;
    set_frameset_not_ok ;;
    set_mode_m InTemplate ;;
    modify (fun s => set_template_modes (vpush (template_modes s) InTemplate) s) ;;
    b <- should_attach_declarative_shadow tg ;;
    (if b then
       probe 48 ;;
       s <- get ;;
       host0 <- unwrap (vlast (open_elems s)) 33 ;;
       _shadow_host <- (if is_fragment s && Nat.eqb (length (open_elems s)) 1
                        then unwrap (context_elem s) 34 else ret host0) ;;
       _template <- insert_foreign_element tg ns_html true ;;
       (* sink.attach_declarative_shadow(shadow_host, template, attrs): answer from opts *)
       if negb (o_attach_ok (opts s)) then _e <- pop ;; _e <- insert_element_for tg ;; ret tt
       else ret tt
     else _e <- insert_element_for tg ;; ret tt) ;;
    ret Done.

Definition in_head_template_end : body :=
  fun t =>
    s <- get ;;
    if negb (in_html_elem_named s (nm "template")) then unexpected
    else
      generate_implied_end_tags (in_set thorough_implied_end) ;;
      expect_to_close (nm "template") ;;
      clear_active_formatting_to_marker ;;
      modify (fun s => set_template_modes (vpop (template_modes s)) s) ;;
      m <- reset_insertion_mode ;;
      set_mode_m m ;;
      ret Done.

Definition bodies_in_head_gen (in_body : body) : list body :=
  [ (* 0 :184 *) b_split;
    (* 1 :187 *) b_append_text;
    (* 2 :188 *) b_append_comment;
    (* 3 :190 *) in_body;
    (* 4 :192 *) fun t =>
       _e <- insert_and_pop_element_for (tk_tag t) ;;
       s <- get ;;
       (* deviation 7: the charset / http-equiv inspection is not restricted to <meta> *)
       if dev_on s 7 || is_n (tname t) "meta" then meta_like_result (tk_tag t)
       else ret DoneAckSelfClosing;
    (* 5 :222 *) fun t => parse_raw_data (tk_tag t) Rcdata;
    (* 6 :224 *) fun t =>
       s <- get ;;
       if negb (o_scripting (opts s)) && is_n (tname t) "noscript" then
         _e <- insert_element_for (tk_tag t) ;; set_mode_m InHeadNoscript ;; ret Done
       else parse_raw_data (tk_tag t) Rawtext;
    (* 7 :234 *) fun t =>
       let tg := tk_tag t in
       elem <- sink_create_element (qn_elem ns_html (nm "script")) (tg_attrs tg) (tg_dup tg) ;;
       s <- get ;;
       (if is_fragment s then emit (OpMarkScriptStarted elem) else ret tt) ;;
       insert_appropriately (inl elem) None ;;
       push elem ;;
       to_raw_text_mode ScriptData;
    (* 8 :249 *) fun _ => _e <- pop ;; set_mode_m AfterHead ;; ret Done;
    (* 9 :255 *) in_head_anything_else;
    (* 10 :257 *) in_head_template_start;
    (* 11 :297 *) in_head_template_end;
    (* 12 :310 *) b_unexpected;
    (* 13 :312 *) in_head_anything_else ].
Definition step_in_head_gen (in_body : body) : body :=
  arm_dispatch (mode_id InHead) heads_in_head (bodies_in_head_gen in_body).

(* ---------- InHeadNoscript (rules.rs:318-352) ---------- *)
Definition in_head_noscript_anything_else : body :=
  fun t => parse_error ;; _e <- pop ;; ret (Reprocess InHead t).
Definition bodies_in_head_noscript (in_head in_body : body) : list body :=
  [ (* 0 :325 *) in_body;
    (* 1 :327 *) fun _ => _e <- pop ;; set_mode_m InHead ;; ret Done;
    (* 2 :333 *) b_split;
    (* 3 :336 *) in_head;
    (* 4 :340 *) in_head;
    (* 5 :342 *) in_head;
    (* 6 :346 *) in_head_noscript_anything_else;
    (* 7 :348 *) b_unexpected;
    (* 8 :350 *) in_head_noscript_anything_else ].
Definition step_in_head_noscript (in_head in_body : body) : body :=
  arm_dispatch (mode_id InHeadNoscript) heads_in_head_noscript (bodies_in_head_noscript in_head in_body).

(* ---------- AfterHead (rules.rs:356-410) ---------- *)
Definition after_head_anything_else : body :=
  fun t => _e <- insert_phantom (nm "body") ;; ret (Reprocess InBody t).
Definition bodies_after_head (in_head in_body : body) : list body :=
  [ (* 0 :363 *) b_split;
    (* 1 :366 *) b_append_text;
    (* 2 :367 *) b_append_comment;
    (* 3 :369 *) in_body;
    (* 4 :371 *) fun t =>
       _e <- insert_element_for (tk_tag t) ;; set_frameset_not_ok ;; set_mode_m InBody ;; ret Done;
    (* 5 :378 *) fun t => _e <- insert_element_for (tk_tag t) ;; set_mode_m InFrameset ;; ret Done;
    (* 6 :384 *) fun t =>
       parse_error ;;
       s <- get ;;
       head <- unwrap (head_elem s) 35 ;;
       push head ;;
       result <- in_head t ;;
       remove_from_stack head ;;
       ret result;
    (* 7 :402 *) in_head;
    (* 8 :404 *) after_head_anything_else;
    (* 9 :406 *) b_unexpected;
    (* 10 :408 *) after_head_anything_else ].
Definition step_after_head (in_head in_body : body) : body :=
  arm_dispatch (mode_id AfterHead) heads_after_head (bodies_after_head in_head in_body).

(* ---------- InBody (rules.rs:414-1003) ---------- *)
Definition ib_block_start : body :=      (* :508, :519 *)
  fun t => close_p_element_in_button_scope ;; _e <- insert_element_for (tk_tag t) ;; ret Done.

(* the <li> | <dd> | <dt> walk: name to close, if any; [l] top first *)
Fixpoint li_scan (s : st) (is_list : bool) (l : list handle) : option str :=
  match l with
  | [] => None
  | node :: r =>
    let name := ename_of s node in
    if (if is_list then in_set close_list name else in_set close_defn name) then Some (snd name)
    else if is_special s name && negb (in_set extra_special_minus name) then None
    else li_scan s is_list r
  end.

Definition ib_end_block : body :=        (* :616, also :775 without the marker part *)
  fun t =>
    s <- get ;;
    if negb (in_scope_named s default_scope (tname t)) then unexpected
    else
      generate_implied_end_tags (in_set cursory_implied_end) ;;
      expect_to_close (tname t) ;;
      ret Done.

Definition ib_form_end : body :=         (* :632 *)
  fun _ =>
    s <- get ;;
    if negb (in_html_elem_named s (nm "template")) then
      match form_elem s with
      | None => parse_error ;; ret Done
      | Some node =>
        modify (set_form_elem None) ;;
        if negb (in_scope s default_scope (fun n => same_node node n)) then parse_error ;; ret Done
        else
          generate_implied_end_tags (in_set cursory_implied_end) ;;
          current <- current_node ;;
          remove_from_stack node ;;
          when (negb (same_node current node)) parse_error ;;
          ret Done
      end
    else
      if negb (in_scope_named s default_scope (nm "form")) then parse_error ;; ret Done
      else
        generate_implied_end_tags (in_set cursory_implied_end) ;;
        b <- current_node_named (nm "form") ;;
        when (negb b) parse_error ;;
        _n <- pop_until_named (nm "form") ;;
        ret Done.

Definition ib_void : body :=             (* :808 <area> <br> <embed> <img> <keygen> <wbr> *)
  fun t =>
    reconstruct_active_formatting_elements ;;
    _e <- insert_and_pop_element_for (tk_tag t) ;;
    set_frameset_not_ok ;;
    ret DoneAckSelfClosing.

Definition ib_any_end : body :=          (* :999 *)
  fun t => process_end_tag_in_body (tname t) ;; ret Done.

Definition with_name (t : tok) (n : string) : tok :=
  let g := tk_tag t in
  KTag {| tg_kind := tg_kind g ; tg_name := nm n ; tg_self := tg_self g ; tg_attrs := tg_attrs g ; tg_dup := tg_dup g |}.

(* arm 0, rules.rs:415 *)
Definition ib_arm_0 (in_head in_template self : body) : body :=
  b_unexpected.

(* arm 1, rules.rs:417 *)
Definition ib_arm_1 (in_head in_template self : body) : body :=
  fun t =>
       reconstruct_active_formatting_elements ;;
       when (any_not_whitespace (tk_text t)) set_frameset_not_ok ;;
       append_text (tk_text t).

(* arm 2, rules.rs:425 *)
Definition ib_arm_2 (in_head in_template self : body) : body :=
  b_append_comment.

(* arm 3, rules.rs:427 <html> *)
Definition ib_arm_3 (in_head in_template self : body) : body :=
  fun t =>
       parse_error ;;
       s <- get ;;
       (if negb (in_html_elem_named s (nm "template")) then
          top <- unwrap (nth_error (open_elems s) 0) 6 ;;
          emit (OpAddAttrsIfMissing top (tg_attrs (tk_tag t)))
        else ret tt) ;;
       ret Done.

(* arm 4, rules.rs:437 *)
Definition ib_arm_4 (in_head in_template self : body) : body :=
  in_head.

(* arm 5, rules.rs:442 <body> *)
Definition ib_arm_5 (in_head in_template self : body) : body :=
  fun t =>
       parse_error ;;
       s <- get ;;
       b <- body_elem s ;;
       match b with
       | Some node =>
         if negb (Nat.eqb (length (open_elems s)) 1) && negb (in_html_elem_named s (nm "template")) then
           set_frameset_not_ok ;;
           emit (OpAddAttrsIfMissing node (tg_attrs (tk_tag t))) ;;
           ret Done
         else ret Done
       | None => ret Done
       end.

(* arm 6, rules.rs:458 <frameset> *)
Definition ib_arm_6 (in_head in_template self : body) : body :=
  fun t =>
       parse_error ;;
       s <- get ;;
       if negb (frameset_ok s) then ret Done
       else
         b <- body_elem s ;;
         match b with
         | None => ret Done
         | Some body =>
           emit (OpRemoveFromParent body) ;;
           modify (fun s => set_open_elems (vtruncate 1 (open_elems s)) s) ;;
           _e <- insert_element_for (tk_tag t) ;;
           set_mode_m InFrameset ;;
           ret Done
         end.

(* arm 7, rules.rs:477 Eof *)
Definition ib_arm_7 (in_head in_template self : body) : body :=
  fun t =>
       s <- get ;;
       match template_modes s with
       | _ :: _ => in_template t
       | [] => check_body_end ;; ret Done
       end.

(* arm 8, rules.rs:486 </body> *)
Definition ib_arm_8 (in_head in_template self : body) : body :=
  fun _ =>
       s <- get ;;
       if in_scope_named s default_scope (nm "body") then
         check_body_end ;; set_mode_m AfterBody ;; ret Done
       else parse_error ;; ret Done.

(* arm 9, rules.rs:497 </html> *)
Definition ib_arm_9 (in_head in_template self : body) : body :=
  fun t =>
       s <- get ;;
       if in_scope_named s default_scope (nm "body") then
         check_body_end ;; ret (Reprocess AfterBody t)
       else parse_error ;; ret Done.

(* arm 10, rules.rs:508 *)
Definition ib_arm_10 (in_head in_template self : body) : body :=
  ib_block_start.

(* arm 11, rules.rs:519 <menu> *)
Definition ib_arm_11 (in_head in_template self : body) : body :=
  ib_block_start.

(* arm 12, rules.rs:525 <h1>..<h6> *)
Definition ib_arm_12 (in_head in_template self : body) : body :=
  fun t =>
       close_p_element_in_button_scope ;;
       b <- current_node_in (in_set heading_tag) ;;
       (if b then parse_error ;; _e <- pop ;; ret tt else ret tt) ;;
       _e <- insert_element_for (tk_tag t) ;;
       ret Done.

(* arm 13, rules.rs:535 <pre> <listing> *)
Definition ib_arm_13 (in_head in_template self : body) : body :=
  fun t =>
       close_p_element_in_button_scope ;;
       _e <- insert_element_for (tk_tag t) ;;
       modify (set_ignore_lf true) ;;
       set_frameset_not_ok ;;
       ret Done.

(* arm 14, rules.rs:543 <form> *)
Definition ib_arm_14 (in_head in_template self : body) : body :=
  fun t =>
       s <- get ;;
       if (match form_elem s with Some _ => true | None => false end) &&
          negb (in_html_elem_named s (nm "template")) then
         parse_error ;; ret Done
       else
         close_p_element_in_button_scope ;;
         elem <- insert_element_for (tk_tag t) ;;
         s <- get ;;
         (if negb (in_html_elem_named s (nm "template")) then modify (set_form_elem (Some elem)) else ret tt) ;;
         ret Done.

(* arm 15, rules.rs:558 <li> <dd> <dt> *)
Definition ib_arm_15 (in_head in_template self : body) : body :=
  fun t =>
       is_list <- (if is_n (tname t) "li" then ret true
                   else if is_n (tname t) "dd" || is_n (tname t) "dt" then ret false
                   else panic 36) ;;
       set_frameset_not_ok ;;
       s <- get ;;
       (match li_scan s is_list (rev (open_elems s)) with
        | Some name => generate_implied_end_except name ;; expect_to_close name
        | None => ret tt
        end) ;;
       close_p_element_in_button_scope ;;
       _e <- insert_element_for (tk_tag t) ;;
       ret Done.

(* arm 16, rules.rs:598 <plaintext> *)
Definition ib_arm_16 (in_head in_template self : body) : body :=
  fun t =>
       close_p_element_in_button_scope ;;
       _e <- insert_element_for (tk_tag t) ;;
       ret ToPlaintext.

(* arm 17, rules.rs:604 <button> *)
Definition ib_arm_17 (in_head in_template self : body) : body :=
  fun t =>
       s <- get ;;
       (if in_scope_named s default_scope (nm "button") then
          parse_error ;;
          generate_implied_end_tags (in_set cursory_implied_end) ;;
          _n <- pop_until_named (nm "button") ;; ret tt
        else ret tt) ;;
       reconstruct_active_formatting_elements ;;
       _e <- insert_element_for (tk_tag t) ;;
       set_frameset_not_ok ;;
       ret Done.

(* arm 18, rules.rs:616 *)
Definition ib_arm_18 (in_head in_template self : body) : body :=
  ib_end_block.

(* arm 19, rules.rs:632 </form> *)
Definition ib_arm_19 (in_head in_template self : body) : body :=
  ib_form_end.

(* arm 20, rules.rs:668 </option> *)
Definition ib_arm_20 (in_head in_template self : body) : body :=
  fun t =>
       s <- get ;;
       let option_in_stack := find (fun h => named s h "option") (open_elems s) in
       process_end_tag_in_body (tname t) ;;
       (match option_in_stack with
        | Some option =>
          s <- get ;;
          if negb (existsb (fun e => same_node e option) (open_elems s)) then probe 51 ;; emit (OpCloneOption option)
          else ret tt
        | None => ret tt
        end) ;;
       ret Done.

(* arm 21, rules.rs:693 </p> *)
Definition ib_arm_21 (in_head in_template self : body) : body :=
  fun _ =>
       s <- get ;;
       (if negb (in_scope_named s button_scope (nm "p")) then
          parse_error ;; _e <- insert_phantom (nm "p") ;; ret tt
        else ret tt) ;;
       close_p_element ;;
       ret Done.

(* arm 22, rules.rs:702 </li> </dd> </dt> *)
Definition ib_arm_22 (in_head in_template self : body) : body :=
  fun t =>
       s <- get ;;
       let in_sc := if is_n (tname t) "li" then in_scope_named s list_item_scope (tname t)
                    else in_scope_named s default_scope (tname t) in
       if in_sc then generate_implied_end_except (tname t) ;; expect_to_close (tname t) ;; ret Done
       else parse_error ;; ret Done.

(* arm 23, rules.rs:717 </h1>..</h6> *)
Definition ib_arm_23 (in_head in_template self : body) : body :=
  fun t =>
       s <- get ;;
       if in_scope s default_scope (fun n => in_set heading_tag (ename_of s n)) then
         generate_implied_end_tags (in_set cursory_implied_end) ;;
         b <- current_node_named (tname t) ;;
         when (negb b) parse_error ;;
         _n <- pop_until (in_set heading_tag) ;;
         ret Done
       else parse_error ;; ret Done.

(* arm 24, rules.rs:730 <a> *)
Definition ib_arm_24 (in_head in_template self : body) : body :=
  fun t =>
       handle_misnested_a_tags ;;
       reconstruct_active_formatting_elements ;;
       _e <- create_formatting_element_for (tk_tag t) ;;
       ret Done.

(* arm 25, rules.rs:737 <b> <big> ... *)
Definition ib_arm_25 (in_head in_template self : body) : body :=
  fun t =>
       reconstruct_active_formatting_elements ;;
       _e <- create_formatting_element_for (tk_tag t) ;;
       ret Done.

(* arm 26, rules.rs:746 <nobr> *)
Definition ib_arm_26 (in_head in_template self : body) : body :=
  fun t =>
       reconstruct_active_formatting_elements ;;
       s <- get ;;
       (if in_scope_named s default_scope (nm "nobr") then
          parse_error ;;
          adoption_agency (nm "nobr") ;;
          reconstruct_active_formatting_elements
        else ret tt) ;;
       _e <- create_formatting_element_for (tk_tag t) ;;
       ret Done.

(* arm 27, rules.rs:757 </a> </b> ... *)
Definition ib_arm_27 (in_head in_template self : body) : body :=
  fun t => adoption_agency (tname t) ;; ret Done.

(* arm 28, rules.rs:765 <applet> <marquee> <object> *)
Definition ib_arm_28 (in_head in_template self : body) : body :=
  fun t =>
       reconstruct_active_formatting_elements ;;
       _e <- insert_element_for (tk_tag t) ;;
       push_marker ;;
       set_frameset_not_ok ;;
       ret Done.

(* arm 29, rules.rs:775 </applet> </marquee> </object> *)
Definition ib_arm_29 (in_head in_template self : body) : body :=
  fun t =>
       s <- get ;;
       if negb (in_scope_named s default_scope (tname t)) then unexpected
       else
         generate_implied_end_tags (in_set cursory_implied_end) ;;
         expect_to_close (tname t) ;;
         clear_active_formatting_to_marker ;;
         ret Done.

(* arm 30, rules.rs:786 <table> *)
Definition ib_arm_30 (in_head in_template self : body) : body :=
  fun t =>
       s <- get ;;
       (if negb (N.eqb (quirks_mode s) 0) then close_p_element_in_button_scope else ret tt) ;;
       _e <- insert_element_for (tk_tag t) ;;
       set_frameset_not_ok ;;
       set_mode_m InTable ;;
       ret Done.

(* arm 31, rules.rs:796 </br> *)
Definition ib_arm_31 (in_head in_template self : body) : body :=
  fun t =>
       parse_error ;;
       let g := tk_tag t in
       self (KTag {| tg_kind := StartTag ; tg_name := tg_name g ; tg_self := tg_self g ; tg_attrs := [] ;
                     tg_dup := tg_dup g |}).

(* arm 32, rules.rs:808 *)
Definition ib_arm_32 (in_head in_template self : body) : body :=
  ib_void.

(* arm 33, rules.rs:815 <input> *)
Definition ib_arm_33 (in_head in_template self : body) : body :=
  fun t =>
       s <- get ;;
       (if is_fragment s then
          ctx <- unwrap (context_elem s) 37 ;;
          when (named s ctx "select") parse_error
        else ret tt) ;;
       (if in_scope_named s default_scope (nm "select") then
          parse_error ;; _n <- pop_until_named (nm "select") ;; ret tt
        else ret tt) ;;
       let hidden := is_type_hidden (tk_tag t) in
       reconstruct_active_formatting_elements ;;
       _e <- insert_and_pop_element_for (tk_tag t) ;;
       when (negb hidden) set_frameset_not_ok ;;
       ret DoneAckSelfClosing.

(* arm 34, rules.rs:842 <param> <source> <track> *)
Definition ib_arm_34 (in_head in_template self : body) : body :=
  fun t =>
       _e <- insert_and_pop_element_for (tk_tag t) ;; ret DoneAckSelfClosing.

(* arm 35, rules.rs:847 <hr> *)
Definition ib_arm_35 (in_head in_template self : body) : body :=
  fun t =>
       close_p_element_in_button_scope ;;
       s <- get ;;
       (if in_scope_named s default_scope (nm "select") then
          generate_implied_end_tags (in_set cursory_implied_end) ;;
          s <- get ;;
          when (in_scope_named s default_scope (nm "option") || in_scope_named s default_scope (nm "optgroup"))
               parse_error
        else ret tt) ;;
       _e <- insert_and_pop_element_for (tk_tag t) ;;
       set_frameset_not_ok ;;
       ret DoneAckSelfClosing.

(* arm 36, rules.rs:863 <image> *)
Definition ib_arm_36 (in_head in_template self : body) : body :=
  fun t => parse_error ;; self (with_name t "img").

(* arm 37, rules.rs:874 <textarea> *)
Definition ib_arm_37 (in_head in_template self : body) : body :=
  fun t =>
       modify (set_ignore_lf true) ;;
       set_frameset_not_ok ;;
       parse_raw_data (tk_tag t) Rcdata.

(* arm 38, rules.rs:880 <xmp> *)
Definition ib_arm_38 (in_head in_template self : body) : body :=
  fun t =>
       close_p_element_in_button_scope ;;
       reconstruct_active_formatting_elements ;;
       set_frameset_not_ok ;;
       parse_raw_data (tk_tag t) Rawtext.

(* arm 39, rules.rs:887 <iframe> *)
Definition ib_arm_39 (in_head in_template self : body) : body :=
  fun t => set_frameset_not_ok ;; parse_raw_data (tk_tag t) Rawtext.

(* arm 40, rules.rs:892 <noembed> *)
Definition ib_arm_40 (in_head in_template self : body) : body :=
  fun t => parse_raw_data (tk_tag t) Rawtext.

(* arm 41, rules.rs:895 <select> *)
Definition ib_arm_41 (in_head in_template self : body) : body :=
  fun t =>
       s <- get ;;
       ctx_is_select <- (if is_fragment s then ctx <- unwrap (context_elem s) 38 ;; ret (named s ctx "select")
                         else ret false) ;;
       if ctx_is_select then parse_error ;; ret Done
       else if in_scope_named s default_scope (nm "select") then
         parse_error ;; _n <- pop_until_named (nm "select") ;; ret Done
       else
         reconstruct_active_formatting_elements ;;
         _e <- insert_element_for (tk_tag t) ;;
         set_frameset_not_ok ;;
         ret Done.

(* arm 42, rules.rs:915 <option> *)
Definition ib_arm_42 (in_head in_template self : body) : body :=
  fun t =>
       s <- get ;;
       (if in_scope_named s default_scope (nm "select") then
          generate_implied_end_except (nm "optgroup") ;;
          s <- get ;;
          when (in_scope_named s default_scope (nm "option")) parse_error
        else
          b <- current_node_named (nm "option") ;;
          if b then _e <- pop ;; ret tt else ret tt) ;;
       reconstruct_active_formatting_elements ;;
       _e <- insert_element_for (tk_tag t) ;;
       ret Done.

(* arm 43, rules.rs:930 <optgroup> *)
Definition ib_arm_43 (in_head in_template self : body) : body :=
  fun t =>
       s <- get ;;
       (if in_scope_named s default_scope (nm "select") then
          generate_implied_end_tags (in_set cursory_implied_end) ;;
          s <- get ;;
          when (in_scope_named s default_scope (nm "option") || in_scope_named s default_scope (nm "optgroup"))
               parse_error
        else
          b <- current_node_named (nm "option") ;;
          if b then _e <- pop ;; ret tt else ret tt) ;;
       reconstruct_active_formatting_elements ;;
       _e <- insert_element_for (tk_tag t) ;;
       ret Done.

(* arm 44, rules.rs:947 <rb> <rtc> *)
Definition ib_arm_44 (in_head in_template self : body) : body :=
  fun t =>
       s <- get ;;
       (if in_scope_named s default_scope (nm "ruby") then
          generate_implied_end_tags (in_set cursory_implied_end) else ret tt) ;;
       b <- current_node_named (nm "ruby") ;;
       when (negb b) parse_error ;;
       _e <- insert_element_for (tk_tag t) ;;
       ret Done.

(* arm 45, rules.rs:958 <rp> <rt> *)
Definition ib_arm_45 (in_head in_template self : body) : body :=
  fun t =>
       s <- get ;;
       (if in_scope_named s default_scope (nm "ruby") then generate_implied_end_except (nm "rtc") else ret tt) ;;
       b1 <- current_node_named (nm "rtc") ;;
       b2 <- current_node_named (nm "ruby") ;;
       when (negb b1 && negb b2) parse_error ;;
       _e <- insert_element_for (tk_tag t) ;;
       ret Done.

(* arm 46, rules.rs:971 <math> *)
Definition ib_arm_46 (in_head in_template self : body) : body :=
  fun t => reconstruct_active_formatting_elements ;; enter_foreign (tk_tag t) ns_mathml.

(* arm 47, rules.rs:976 <svg> *)
Definition ib_arm_47 (in_head in_template self : body) : body :=
  fun t => reconstruct_active_formatting_elements ;; enter_foreign (tk_tag t) ns_svg.

(* arm 48, rules.rs:981 *)
Definition ib_arm_48 (in_head in_template self : body) : body :=
  b_unexpected.

(* arm 49, rules.rs:989 any other start tag *)
Definition ib_arm_49 (in_head in_template self : body) : body :=
  fun t =>
       s <- get ;;
       if o_scripting (opts s) && is_n (tname t) "noscript" then parse_raw_data (tk_tag t) Rawtext
       else
         reconstruct_active_formatting_elements ;;
         _e <- insert_element_for (tk_tag t) ;;
         ret Done.

(* arm 50, rules.rs:999 any other end tag *)
Definition ib_arm_50 (in_head in_template self : body) : body :=
  ib_any_end.

Definition bodies_in_body_gen (in_head in_template self : body) : list body :=
  [ ib_arm_0 in_head in_template self;
    ib_arm_1 in_head in_template self;
    ib_arm_2 in_head in_template self;
    ib_arm_3 in_head in_template self;
    ib_arm_4 in_head in_template self;
    ib_arm_5 in_head in_template self;
    ib_arm_6 in_head in_template self;
    ib_arm_7 in_head in_template self;
    ib_arm_8 in_head in_template self;
    ib_arm_9 in_head in_template self;
    ib_arm_10 in_head in_template self;
    ib_arm_11 in_head in_template self;
    ib_arm_12 in_head in_template self;
    ib_arm_13 in_head in_template self;
    ib_arm_14 in_head in_template self;
    ib_arm_15 in_head in_template self;
    ib_arm_16 in_head in_template self;
    ib_arm_17 in_head in_template self;
    ib_arm_18 in_head in_template self;
    ib_arm_19 in_head in_template self;
    ib_arm_20 in_head in_template self;
    ib_arm_21 in_head in_template self;
    ib_arm_22 in_head in_template self;
    ib_arm_23 in_head in_template self;
    ib_arm_24 in_head in_template self;
    ib_arm_25 in_head in_template self;
    ib_arm_26 in_head in_template self;
    ib_arm_27 in_head in_template self;
    ib_arm_28 in_head in_template self;
    ib_arm_29 in_head in_template self;
    ib_arm_30 in_head in_template self;
    ib_arm_31 in_head in_template self;
    ib_arm_32 in_head in_template self;
    ib_arm_33 in_head in_template self;
    ib_arm_34 in_head in_template self;
    ib_arm_35 in_head in_template self;
    ib_arm_36 in_head in_template self;
    ib_arm_37 in_head in_template self;
    ib_arm_38 in_head in_template self;
    ib_arm_39 in_head in_template self;
    ib_arm_40 in_head in_template self;
    ib_arm_41 in_head in_template self;
    ib_arm_42 in_head in_template self;
    ib_arm_43 in_head in_template self;
    ib_arm_44 in_head in_template self;
    ib_arm_45 in_head in_template self;
    ib_arm_46 in_head in_template self;
    ib_arm_47 in_head in_template self;
    ib_arm_48 in_head in_template self;
    ib_arm_49 in_head in_template self;
    ib_arm_50 in_head in_template self ].
Definition step_in_body_gen (in_head in_template self : body) : body :=
  arm_dispatch (mode_id InBody) heads_in_body (bodies_in_body_gen in_head in_template self).

(* ---------- InTemplate (rules.rs:1403-1462) ---------- *)
Definition switch_template_mode (m : imode) : body :=
  fun t =>
    modify (fun s => set_template_modes (vpush (vpop (template_modes s)) m) s) ;;
    ret (Reprocess m t).

Definition bodies_in_template_gen (in_head in_body : body) : list body :=
  [ (* 0 :1404 *) in_body;
    (* 1 :1405 *) in_body;
    (* 2 :1407 *) in_head;
    (* 3 :1412 *) switch_template_mode InTable;
    (* 4 :1420 *) switch_template_mode InColumnGroup;
    (* 5 :1428 *) switch_template_mode InTableBody;
    (* 6 :1436 *) switch_template_mode InRow;
    (* 7 :1442 Eof *) fun t =>
       s <- get ;;
       if negb (in_html_elem_named s (nm "template")) then ret Done
       else
         parse_error ;;
         _n <- pop_until_named (nm "template") ;;
         clear_active_formatting_to_marker ;;
         modify (fun s => set_template_modes (vpop (template_modes s)) s) ;;
         m <- reset_insertion_mode ;;
         set_mode_m m ;;
         m2 <- reset_insertion_mode ;;
         ret (Reprocess m2 t);
    (* 8 :1455 *) switch_template_mode InBody;
    (* 9 :1461 *) b_unexpected ].
Definition step_in_template_gen (in_head in_body : body) : body :=
  arm_dispatch (mode_id InTemplate) heads_in_template (bodies_in_template_gen in_head in_body).

(* ---------- tying the knot for in-body / in-head / in-template ---------- *)
Definition no_callee : body := fun _ => out_of_fuel.
(* level 0: enough for <html> in body (arm 3) and EOF in template (arm 7) *)
Definition step_in_body_0 : body := step_in_body_gen no_callee no_callee no_callee.
Definition step_in_head : body := step_in_head_gen step_in_body_0.
Definition step_in_template_0 : body := step_in_template_gen no_callee no_callee.
Definition step_in_body_1 : body := step_in_body_gen step_in_head step_in_template_0 no_callee.
Definition step_in_body : body := step_in_body_gen step_in_head step_in_template_0 step_in_body_1.
Definition step_in_template : body := step_in_template_gen step_in_head step_in_body.

(* ---------- Text (rules.rs:1007-1033) ---------- *)
Definition bodies_text : list body :=
  [ (* 0 :1008 *) b_append_text;
    (* 1 :1010 Eof *) fun t =>
       parse_error ;;
       b <- current_node_named (nm "script") ;;
       (if b then
          s <- get ;;
          cur <- unwrap (vlast (open_elems s)) 32 ;;
          emit (OpMarkScriptStarted cur)
        else ret tt) ;;
       _e <- pop ;;
       s <- get ;;
       om <- unwrap (orig_mode s) 39 ;;
       modify (set_orig_mode None) ;;
       ret (Reprocess om t);
    (* 2 :1021 end tag *) fun t =>
       node <- pop ;;
       s <- get ;;
       om <- unwrap (orig_mode s) 40 ;;
       modify (set_orig_mode None) ;;
       set_mode_m om ;;
       if is_n (tname t) "script" then ret (PScript node) else ret Done;
    (* 3 :1032 *) fun _ => panic 42 ].
Definition step_text : body :=
  arm_dispatch (mode_id Text) heads_text bodies_text.

(* ---------- InTable (rules.rs:1037-1133) and its helpers (mod.rs:1236-1262) ---------- *)
Definition foster_parent_in_body (t : tok) : M presult :=
  modify (set_foster_parenting true) ;;
  r <- step_in_body t ;;
  modify (set_foster_parenting false) ;;
  ret r.

Definition process_chars_in_table (t : tok) : M presult :=
  s0 <- get ;;
  (* deviation 9 *)
  b <- current_node_in (fun n => in_set table_outer_chars n ||
                                 (negb (dev_on s0 9) && ename_eqb n (ns_html, nm "template"))) ;;
  if b then
    s <- get ;;
    assert (match pending_table_text s with [] => true | _ => false end) 27 ;;
    modify (fun s => set_orig_mode (Some (mode s)) s) ;;
    ret (Reprocess InTableText t)
  else
    parse_error ;;
    foster_parent_in_body t.

Definition bodies_in_table : list body :=
  [ (* 0 :1038 *) process_chars_in_table;
    (* 1 :1040 *) b_append_comment;
    (* 2 :1042 <caption> *) fun t =>
       pop_until_current table_scope ;;
       push_marker ;;
       _e <- insert_element_for (tk_tag t) ;;
       set_mode_m InCaption ;; ret Done;
    (* 3 :1052 <colgroup> *) fun t =>
       pop_until_current table_scope ;;
       _e <- insert_element_for (tk_tag t) ;;
       set_mode_m InColumnGroup ;; ret Done;
    (* 4 :1059 <col> *) fun t =>
       pop_until_current table_scope ;;
       _e <- insert_phantom (nm "colgroup") ;;
       ret (Reprocess InColumnGroup t);
    (* 5 :1065 <tbody> <tfoot> <thead> *) fun t =>
       pop_until_current table_scope ;;
       _e <- insert_element_for (tk_tag t) ;;
       set_mode_m InTableBody ;; ret Done;
    (* 6 :1072 <td> <th> <tr> *) fun t =>
       pop_until_current table_scope ;;
       _e <- insert_phantom (nm "tbody") ;;
       ret (Reprocess InTableBody t);
    (* 7 :1078 <table> *) fun t =>
       parse_error ;;
       s <- get ;;
       if in_scope_named s table_scope (nm "table") then
         _n <- pop_until_named (nm "table") ;;
         m <- reset_insertion_mode ;;
         ret (Reprocess m t)
       else ret Done;
    (* 8 :1088 </table> *) fun _ =>
       s <- get ;;
       if in_scope_named s table_scope (nm "table") then
         _n <- pop_until_named (nm "table") ;;
         m <- reset_insertion_mode ;;
         set_mode_m m ;; ret Done
       else parse_error ;; ret Done;
    (* 9 :1098 *) b_unexpected;
    (* 10 :1103 *) step_in_head;
    (* 11 :1107 <input> *) fun t =>
       parse_error ;;
       if is_type_hidden (tk_tag t) then
         _e <- insert_and_pop_element_for (tk_tag t) ;; ret DoneAckSelfClosing
       else foster_parent_in_body t;
    (* 12 :1117 <form> *) fun t =>
       parse_error ;;
       s <- get ;;
       (if negb (in_html_elem_named s (nm "template")) &&
           (match form_elem s with None => true | Some _ => false end) then
          e <- insert_and_pop_element_for (tk_tag t) ;;
          modify (set_form_elem (Some e))
        else ret tt) ;;
       ret Done;
    (* 13 :1127 Eof *) step_in_body;
    (* 14 :1129 *) fun t => parse_error ;; foster_parent_in_body t ].
Definition step_in_table : body :=
  arm_dispatch (mode_id InTable) heads_in_table bodies_in_table.

(* ---------- InTableText (rules.rs:1137-1169) ---------- *)
Definition pending_contains_nonspace (p : list (split * str)) : bool :=
  existsb (fun x => match fst x with
                    | Whitespace => false
                    | NotWhitespace => true
                    | NotSplit => any_not_whitespace (snd x)
                    end) p.

Definition bodies_in_table_text : list body :=
  [ (* 0 :1138 *) b_unexpected;
    (* 1 :1140 *) fun t =>
       modify (fun s => set_pending_table_text (vpush (pending_table_text s) (tk_split t, tk_text t)) s) ;;
       ret Done;
    (* 2 :1145 *) fun t =>
       s <- get ;;
       let pending := pending_table_text s in
       modify (set_pending_table_text []) ;;
       (if pending_contains_nonspace pending then
          probe 52 ;;
          parse_error ;;
          mapM_ (fun x => r <- foster_parent_in_body (KChars (fst x) (snd x)) ;;
                          match r with Done => ret tt | _ => panic 43 end) pending
        else probe 53 ;; mapM_ (fun x => _r <- append_text (snd x) ;; ret tt) pending) ;;
       s <- get ;;
       om <- unwrap (orig_mode s) 41 ;;
       modify (set_orig_mode None) ;;
       ret (Reprocess om t) ].
Definition step_in_table_text : body :=
  arm_dispatch (mode_id InTableText) heads_in_table_text bodies_in_table_text.

(* ---------- InCaption (rules.rs:1173-1205) ---------- *)
Definition bodies_in_caption : list body :=
  [ (* 0 :1174 *) fun t =>
       s <- get ;;
       if in_scope_named s table_scope (nm "caption") then
         generate_implied_end_tags (in_set cursory_implied_end) ;;
         expect_to_close (nm "caption") ;;
         clear_active_formatting_to_marker ;;
         if tagkind_eqb (tg_kind (tk_tag t)) EndTag && is_n (tname t) "caption" then
           set_mode_m InTable ;; ret Done
         else ret (Reprocess InTable t)
       else unexpected;
    (* 1 :1199 *) b_unexpected;
    (* 2 :1204 *) step_in_body ].
Definition step_in_caption : body :=
  arm_dispatch (mode_id InCaption) heads_in_caption bodies_in_caption.

(* ---------- InColumnGroup (rules.rs:1209-1249) ---------- *)
Definition bodies_in_column_group : list body :=
  [ (* 0 :1210 *) b_split;
    (* 1 :1213 *) b_append_text;
    (* 2 :1214 *) b_append_comment;
    (* 3 :1216 *) step_in_body;
    (* 4 :1218 <col> *) fun t => _e <- insert_and_pop_element_for (tk_tag t) ;; ret DoneAckSelfClosing;
    (* 5 :1223 </colgroup> *) fun _ =>
       b <- current_node_named (nm "colgroup") ;;
       if b then _e <- pop ;; set_mode_m InTable ;; ret Done
       else parse_error ;; ret Done;
    (* 6 :1233 *) b_unexpected;
    (* 7 :1235 *) step_in_head;
    (* 8 :1239 *) step_in_body;
    (* 9 :1241 *) fun t =>
       b <- current_node_named (nm "colgroup") ;;
       if b then _e <- pop ;; ret (Reprocess InTable t)
       else unexpected ].
Definition step_in_column_group : body :=
  arm_dispatch (mode_id InColumnGroup) heads_in_column_group bodies_in_column_group.

(* ---------- InTableBody (rules.rs:1253-1297) ---------- *)
Definition bodies_in_table_body : list body :=
  [ (* 0 :1254 <tr> *) fun t =>
       pop_until_current table_body_context ;;
       _e <- insert_element_for (tk_tag t) ;;
       set_mode_m InRow ;; ret Done;
    (* 1 :1261 <th> <td> *) fun t =>
       parse_error ;;
       pop_until_current table_body_context ;;
       _e <- insert_phantom (nm "tr") ;;
       ret (Reprocess InRow t);
    (* 2 :1268 </tbody> </tfoot> </thead> *) fun t =>
       s <- get ;;
       if in_scope_named s table_scope (tname t) then
         pop_until_current table_body_context ;;
         _e <- pop ;;
         set_mode_m InTable ;; ret Done
       else unexpected;
    (* 3 :1279 *) fun t =>
       s <- get ;;
       (* deviation 11 *)
       if in_scope s table_scope (fun e => in_set (if dev_on s 11 then table_outer_body
                                                   else html_names ["tbody"; "thead"; "tfoot"]%string) (ename_of s e)) then
         pop_until_current table_body_context ;;
         _e <- pop ;;
         ret (Reprocess InTable t)
       else unexpected;
    (* 4 :1292 *) b_unexpected;
    (* 5 :1296 *) step_in_table ].
Definition step_in_table_body : body :=
  arm_dispatch (mode_id InTableBody) heads_in_table_body bodies_in_table_body.

(* ---------- InRow (rules.rs:1301-1357) ---------- *)
Definition close_row : M unit :=
  pop_until_current table_row_context ;;
  node <- pop ;;
  s <- get ;;
  assert (named s node "tr") 8.

Definition bodies_in_row : list body :=
  [ (* 0 :1302 <th> <td> *) fun t =>
       pop_until_current table_row_context ;;
       _e <- insert_element_for (tk_tag t) ;;
       set_mode_m InCell ;;
       push_marker ;;
       ret Done;
    (* 1 :1312 </tr> *) fun _ =>
       s <- get ;;
       if in_scope_named s table_scope (nm "tr") then close_row ;; set_mode_m InTableBody ;; ret Done
       else parse_error ;; ret Done;
    (* 2 :1324 *) fun t =>
       s <- get ;;
       if in_scope_named s table_scope (nm "tr") then close_row ;; ret (Reprocess InTableBody t)
       else unexpected;
    (* 3 :1337 </tbody> </tfoot> </thead> *) fun t =>
       s <- get ;;
       if in_scope_named s table_scope (tname t) then
         if in_scope_named s table_scope (nm "tr") then close_row ;; ret (Reprocess InTableBody t)
         else ret Done
       else unexpected;
    (* 4 :1352 *) b_unexpected;
    (* 5 :1356 *) step_in_table ].
Definition step_in_row : body :=
  arm_dispatch (mode_id InRow) heads_in_row bodies_in_row.

(* ---------- InCell (rules.rs:1361-1399) ---------- *)
Definition bodies_in_cell : list body :=
  [ (* 0 :1362 </td> </th> *) fun t =>
       s <- get ;;
       if in_scope_named s table_scope (tname t) then
         generate_implied_end_tags (in_set cursory_implied_end) ;;
         expect_to_close (tname t) ;;
         clear_active_formatting_to_marker ;;
         set_mode_m InRow ;; ret Done
       else unexpected;
    (* 1 :1374 *) fun t =>
       s <- get ;;
       if in_scope s table_scope (fun n => in_set td_th (ename_of s n)) then
         close_the_cell ;; ret (Reprocess InRow t)
       else unexpected;
    (* 2 :1385 *) b_unexpected;
    (* 3 :1389 *) fun t =>
       s <- get ;;
       if in_scope_named s table_scope (tname t) then close_the_cell ;; ret (Reprocess InRow t)
       else unexpected;
    (* 4 :1398 *) step_in_body ].
Definition step_in_cell : body :=
  arm_dispatch (mode_id InCell) heads_in_cell bodies_in_cell.

(* ---------- AfterBody (rules.rs:1466-1492) ---------- *)
Definition bodies_after_body : list body :=
  [ (* 0 :1467 *) b_split;
    (* 1 :1470 *) step_in_body;
    (* 2 :1473 *) b_comment_to_html;
    (* 3 :1475 *) step_in_body;
    (* 4 :1477 </html> *) fun _ =>
       s <- get ;;
       (if is_fragment s then parse_error else set_mode_m AfterAfterBody) ;;
       ret Done;
    (* 5 :1486 *) b_done;
    (* 6 :1488 *) fun t => parse_error ;; ret (Reprocess InBody t) ].
Definition step_after_body : body :=
  arm_dispatch (mode_id AfterBody) heads_after_body bodies_after_body.

(* ---------- InFrameset (rules.rs:1496-1538) ---------- *)
Definition bodies_in_frameset : list body :=
  [ (* 0 :1497 *) b_split;
    (* 1 :1500 *) b_append_text;
    (* 2 :1501 *) b_append_comment;
    (* 3 :1503 *) step_in_body;
    (* 4 :1505 <frameset> *) fun t => _e <- insert_element_for (tk_tag t) ;; ret Done;
    (* 5 :1510 </frameset> *) fun _ =>
       s <- get ;;
       (if Nat.eqb (length (open_elems s)) 1 then parse_error
        else
          _e <- pop ;;
          s <- get ;;
          if is_fragment s then ret tt
          else
            b <- current_node_named (nm "frameset") ;;
            if negb b then set_mode_m AfterFrameset else ret tt) ;;
       ret Done;
    (* 6 :1523 <frame> *) fun t => _e <- insert_and_pop_element_for (tk_tag t) ;; ret DoneAckSelfClosing;
    (* 7 :1528 <noframes> *) step_in_head;
    (* 8 :1530 Eof *) fun _ =>
       s <- get ;;
       when (negb (Nat.eqb (length (open_elems s)) 1)) parse_error ;;
       ret Done;
    (* 9 :1537 *) b_unexpected ].
Definition step_in_frameset : body :=
  arm_dispatch (mode_id InFrameset) heads_in_frameset bodies_in_frameset.

(* ---------- AfterFrameset (rules.rs:1542-1561) ---------- *)
Definition bodies_after_frameset : list body :=
  [ (* 0 :1543 *) b_split;
    (* 1 :1546 *) b_append_text;
    (* 2 :1547 *) b_append_comment;
    (* 3 :1549 *) step_in_body;
    (* 4 :1551 </html> *) fun _ => set_mode_m AfterAfterFrameset ;; ret Done;
    (* 5 :1556 *) step_in_head;
    (* 6 :1558 *) b_done;
    (* 7 :1560 *) b_unexpected ].
Definition step_after_frameset : body :=
  arm_dispatch (mode_id AfterFrameset) heads_after_frameset bodies_after_frameset.

(* ---------- AfterAfterBody (rules.rs:1565-1582) ---------- *)
Definition bodies_after_after_body : list body :=
  [ (* 0 :1566 *) b_split;
    (* 1 :1569 *) step_in_body;
    (* 2 :1572 *) b_comment_to_doc;
    (* 3 :1574 *) step_in_body;
    (* 4 :1576 *) b_done;
    (* 5 :1578 *) fun t => parse_error ;; ret (Reprocess InBody t) ].
Definition step_after_after_body : body :=
  arm_dispatch (mode_id AfterAfterBody) heads_after_after_body bodies_after_after_body.

(* ---------- AfterAfterFrameset (rules.rs:1586-1602) ---------- *)
Definition bodies_after_after_frameset : list body :=
  [ (* 0 :1587 *) b_split;
    (* 1 :1590 *) step_in_body;
    (* 2 :1593 *) b_comment_to_doc;
    (* 3 :1595 *) step_in_body;
    (* 4 :1597 *) b_done;
    (* 5 :1599 *) step_in_head;
    (* 6 :1601 *) b_unexpected ].
Definition step_after_after_frameset : body :=
  arm_dispatch (mode_id AfterAfterFrameset) heads_after_after_frameset bodies_after_after_frameset.

(* ---------- fn step ---------- *)
Definition step (m : imode) : body :=
  match m with
  | Initial => step_initial
  | BeforeHtml => step_before_html
  | BeforeHead => step_before_head step_in_body
  | InHead => step_in_head_gen step_in_body
  | InHeadNoscript => step_in_head_noscript step_in_head step_in_body
  | AfterHead => step_after_head step_in_head step_in_body
  | InBody => step_in_body
  | Text => step_text
  | InTable => step_in_table
  | InTableText => step_in_table_text
  | InCaption => step_in_caption
  | InColumnGroup => step_in_column_group
  | InTableBody => step_in_table_body
  | InRow => step_in_row
  | InCell => step_in_cell
  | InTemplate => step_in_template
  | AfterBody => step_after_body
  | InFrameset => step_in_frameset
  | AfterFrameset => step_after_frameset
  | AfterAfterBody => step_after_after_body
  | AfterAfterFrameset => step_after_after_frameset
  end.

(* ---------- THE SHAPE ASSUMPTION (ghost assertion, Panic site 99) ----------
   Four facts relating the insertion mode to the stack of open elements that the no-panic proof
   (TreeInvMain.tree_no_panic_partial) does not derive, because they need a full grammar of the stack per mode:
     - in the modes "in head", "in head noscript" and "text" the stack holds at least two elements;
     - in the mode "text" the current node is an HTML element;
     - in the mode "in cell" a td or th element is open;
     - in the mode "in table body", when the (html5ever) test of the <caption>/<col>/.../</table> arm succeeds,
       a tbody / tfoot / thead / template element is open.
   [shape_check] is NOT part of html5ever: it is a ghost assertion evaluated at the two places where the rules of
   the current insertion mode are entered (every iteration of process_to_completion, and after the pops of
   unexpected_start_tag_in_foreign_content).  The theorem says that site 99 is the only Panic site the model can
   reach; every correspondence run doubles as a test that it is not reached either (the model would print
   PANIC 99 where the implementation does not panic). *)
Definition is_mode (m m' : imode) : bool := mode_eqb m m'.
Definition hshape_b (s : st) : bool :=
  (if is_mode (mode s) InHead || is_mode (mode s) InHeadNoscript || is_mode (mode s) Text
   then Nat.leb 2 (length (open_elems s)) else true) &&
  (if is_mode (mode s) Text
   then match vlast (open_elems s) with Some h => str_eqb (fst (ename_of s h)) ns_html | None => false end else true) &&
  (if is_mode (mode s) InCell
   then existsb (fun x => in_set td_th (ename_of s x)) (open_elems s) else true) &&
  (if is_mode (mode s) InTableBody && dev_on s 11 &&
      in_scope s table_scope (fun e => in_set table_outer_body (ename_of s e))
   then existsb (fun x => in_set (html_names ["tbody"; "tfoot"; "thead"; "template"]%string) (ename_of s x)) (open_elems s)
   else true).
Definition shape_check : M unit :=
  s <- get ;; if hshape_b s then ret tt else panic 99.

(* ---------- step_foreign (rules.rs:1608-1689) ---------- *)
(* fn unexpected_start_tag_in_foreign_content *)
Definition unexpected_start_tag_in_foreign_content : body :=
  fun t =>
    parse_error ;;
    pop_to_html_or_integration_point ;;
    shape_check ;;
    s <- get ;;
    step (mode s) t.

(* the loop of the end-tag arm; structurally recursive on stack_idx *)
Fixpoint foreign_end_loop (stack_idx : nat) (first : bool) (t : tok) : M presult :=
  match stack_idx with
  | 0 => probe 42 ;; ret Done
  | S i =>
    s <- get ;;
    node <- unwrap (nth_error (open_elems s) stack_idx) 31 ;;
    let name := ename_of s node in
    let html := str_eqb (fst name) ns_html in
    let eq := eq_ignore_ascii_case (snd name) (tname t) in
    if negb first && html then probe 40 ;; step (mode s) t
    else if eq then
      probe 41 ;;
      modify (fun s => set_open_elems (vtruncate stack_idx (open_elems s)) s) ;; ret Done
    else
      (if first then parse_error else ret tt) ;;
      foreign_end_loop i false t
  end.

Definition bodies_foreign : list body :=
  [ (* 0 :1610 *) fun _ => parse_error ;; append_text [0xFFFD%N];
    (* 1 :1615 *) fun t =>
       when (any_not_whitespace (tk_text t)) set_frameset_not_ok ;;
       append_text (tk_text t);
    (* 2 :1622 *) b_append_comment;
    (* 3 :1624 *) unexpected_start_tag_in_foreign_content;
    (* 4 :1633 <font> *) fun t =>
       if existsb (fun a => attr_is (nm "color") a || attr_is (nm "face") a || attr_is (nm "size") a)
                  (tg_attrs (tk_tag t))
       then unexpected_start_tag_in_foreign_content t
       else foreign_start_tag (tk_tag t);
    (* 5 :1649 *) fun t => foreign_start_tag (tk_tag t);
    (* 6 :1652 *) fun t =>
       s <- get ;;
       match open_elems s with
       | [] => panic 31
       | _ :: _ => foreign_end_loop (length (open_elems s) - 1) true t
       end;
    (* 7 :1687 *) fun _ => panic 44 ].
Definition step_foreign : body :=
  arm_dispatch foreign_id heads_foreign bodies_foreign.
