(* ========================================================================
   TreeTableTies.v - the tables of the tree-builder model (TreeTables.v) ARE
   the tables regenerated from the Rust source (coq/Gen/Gen*.v, produced by
   lib/treetables.py), converted to the model's representation: the two
   halves of C02 (table facts of coq/Inst/InstTreeTables.v, behaviour of
   coq/Tree) talk about the same data.
   ======================================================================== *)
From Coq Require Import List NArith Bool Arith String.
From HV Require Import Tree.TreeTypes Tree.TreeTables.
From HV Require Gen.GenTagSets Gen.GenDispatch Gen.GenAdjust Gen.GenQuirks.
Import ListNotations.

Lemma tag_sets_are_generated :
  special_tag = conv_set GenTagSets.ts_special_tag /\
  default_scope = conv_set GenTagSets.ts_default_scope /\
  list_item_scope = conv_set GenTagSets.ts_list_item_scope /\
  button_scope = conv_set GenTagSets.ts_button_scope /\
  table_scope = conv_set GenTagSets.ts_table_scope /\
  html_default_scope = conv_set GenTagSets.ts_html_default_scope /\
  table_body_context = conv_set GenTagSets.ts_table_body_context /\
  table_row_context = conv_set GenTagSets.ts_table_row_context /\
  td_th = conv_set GenTagSets.ts_td_th /\
  cursory_implied_end = conv_set GenTagSets.ts_cursory_implied_end /\
  thorough_implied_end = conv_set GenTagSets.ts_thorough_implied_end /\
  heading_tag = conv_set GenTagSets.ts_heading_tag /\
  mathml_text_integration_point = conv_set GenTagSets.ts_mathml_text_integration_point /\
  svg_html_integration_point = conv_set GenTagSets.ts_svg_html_integration_point /\
  foster_target = conv_set GenTagSets.ts_appropriate_place_for_insertion__foster_target /\
  body_end_ok = conv_set GenTagSets.ts_check_body_end__body_end_ok /\
  form_associatable = conv_set GenTagSets.ts_insert_element__form_associatable /\
  listed = conv_set GenTagSets.ts_insert_element__listed /\
  close_list = conv_set GenTagSets.ts_step_InBody__close_list /\
  close_defn = conv_set GenTagSets.ts_step_InBody__close_defn /\
  table_outer_chars = conv_set GenTagSets.ts_process_chars_in_table__table_outer /\
  table_outer_body = conv_set GenTagSets.ts_step_InTableBody__table_outer.
Proof. vm_compute. repeat split; reflexivity. Qed.

Lemma dispatch_heads_are_generated :
  heads_initial = conv_arms GenDispatch.arms_Initial /\
  heads_before_html = conv_arms GenDispatch.arms_BeforeHtml /\
  heads_before_head = conv_arms GenDispatch.arms_BeforeHead /\
  heads_in_head = conv_arms GenDispatch.arms_InHead /\
  heads_in_head_noscript = conv_arms GenDispatch.arms_InHeadNoscript /\
  heads_after_head = conv_arms GenDispatch.arms_AfterHead /\
  heads_in_body = conv_arms GenDispatch.arms_InBody /\
  heads_text = conv_arms GenDispatch.arms_Text /\
  heads_in_table = conv_arms GenDispatch.arms_InTable /\
  heads_in_table_text = conv_arms GenDispatch.arms_InTableText /\
  heads_in_caption = conv_arms GenDispatch.arms_InCaption /\
  heads_in_column_group = conv_arms GenDispatch.arms_InColumnGroup /\
  heads_in_table_body = conv_arms GenDispatch.arms_InTableBody /\
  heads_in_row = conv_arms GenDispatch.arms_InRow /\
  heads_in_cell = conv_arms GenDispatch.arms_InCell /\
  heads_in_template = conv_arms GenDispatch.arms_InTemplate /\
  heads_after_body = conv_arms GenDispatch.arms_AfterBody /\
  heads_in_frameset = conv_arms GenDispatch.arms_InFrameset /\
  heads_after_frameset = conv_arms GenDispatch.arms_AfterFrameset /\
  heads_after_after_body = conv_arms GenDispatch.arms_AfterAfterBody /\
  heads_after_after_frameset = conv_arms GenDispatch.arms_AfterAfterFrameset /\
  heads_foreign = conv_arms GenDispatch.arms_Foreign.
Proof. vm_compute. repeat split; reflexivity. Qed.

Lemma adjust_and_quirks_tables_are_generated :
  svg_attr_names = conv_qmap GenAdjust.svg_attr_adjust /\
  mathml_attr_names = conv_qmap GenAdjust.mathml_attr_adjust /\
  foreign_attr_names = conv_qmap GenAdjust.foreign_attr_adjust /\
  quirky_public_prefixes = map nm GenQuirks.quirky_public_prefixes /\
  quirky_public_matches = map nm GenQuirks.quirky_public_matches /\
  quirky_system_matches = map nm GenQuirks.quirky_system_matches /\
  limited_quirky_public_prefixes = map nm GenQuirks.limited_quirky_public_prefixes /\
  html4_public_prefixes = map nm GenQuirks.html4_public_prefixes.
Proof. vm_compute. repeat split; reflexivity. Qed.
