(* ========================================================================
   TreeFuel.v - the fuel of the model, as far as it is settled.

   PROVED
   * [ptc_iter_never_out_of_fuel]: one iteration of the Reprocess loop never runs out of fuel (the only fuel inside an
     iteration is that of the level-0 callees of the in-body / in-head / in-template knot and of extract_encoding; all
     of it is shown sufficient by the wp-lemmas of the chain).  Hence OutOfFuel can only come from [ptc_loop]'s counter.
   * [loop_never_out_of_fuel_given_measure]: if some measure on loop configurations decreases at every iteration that
     continues the loop, any fuel above the measure of the initial configuration suffices.
   NOT PROVED: that such a measure exists, i.e. that the loop of html5ever's process_to_completion terminates.

   NOTES ON THE MISSING MEASURE (what was worked out; where it breaks)
   The loop continues in three ways: (1) Done with a non-empty queue, (2) SplitWhitespace, (3) Reprocess.
   (1)+(2) only concern character tokens: with w (KChars NotSplit b) = 2|b|+1 and w (other) = 1 the sum of w over
   current token + queue drops at every (1) and (2), PROVIDED a SplitWhitespace result comes from a NotSplit character
   token with exactly its text (true in every arm - b_split returns tk_text t and is only reached through an
   AChars (Some NotSplit) head - but not recorded in step_post; it would go into [same_tok] like the Reprocess token).
   (3) is the real problem: the 25 `Reprocess` sites of TreeModelRules.v.  No rank on insertion modes alone works:
     - "in table" -> "in table body" -> "in row" (<td> <th> <tr>) and "in row" -> "in table body" -> "in table"
       (<caption> <col> ... </table>) are both present; "in body" -> "after body" (</html>) and "after body" -> "in body"
       (anything else) too.  The edges a FIXED token can take are acyclic, so the rank must depend on the token class
       (cell tags / tr / section tags / </table>-like end tags / </html> / characters+NULL / <table> / EOF / rest).
     - three sites have a state-dependent target and need a second component: <table> in "in table" (pop to the table
       element, reset the insertion mode, reprocess: the number of HTML table elements on the stack drops), EOF in
       "in template" (the stack of template modes drops), and "text" / "in table text" -> the saved mode (static rank:
       the two saving modes on top, except that for characters/NULL "in table" must be above "in table text").
     - candidate: Phi m t s = rank (class t) m + 32 * (#table elements on the stack + |template_modes|), rank < 32.
       The stack LENGTH cannot be used: flushing the pending table text re-creates active formatting elements
       (reconstruct), and the phantom html/head/body/tbody/tr/colgroup insertions push elements on Reprocess edges.
     - where it breaks in this development: step_post only sees the state AFTER the step.  The two state-dependent
       sites need the state before it, i.e. step_post must be indexed by the pre-state (or by its measure) in all
       ~60 lemma statements; "in table" is run by delegation from "in table body" / "in row" (and "in body" from ten
       modes), so their specifications need the hypotheses that exclude the edges which are unreachable from those
       callers (e.g. <td> never reaches the <td>/<th>/<tr> arm of "in table" from "in row"); and the lemmas for pops,
       insertions and reconstruct only speak of [keeps] / [shrunk], not of the number of table elements.
   The bound that would come out is linear in |text| + #tables + |template_modes| with a factor around 32, i.e.
   TreeModel.ptc_fuel (64 + 4|text| + 4|stack| + 4|template_modes|) would have to be enlarged (it is a model artefact:
   the Rust loop has no counter; no generated case ever came near it).

   NOTES ON THE GHOST ASSERTION (Panic site 99, TreeModelRules.hshape_b)
   - the "in table body" fact only matters with deviation 11 on (repaired in /repo, fix commits of dev:11): with the
     switch off the arm's own scope test yields the witness, the clause of hshape_b is vacuous.
   - the other facts ("in head"/"in head noscript"/"text": two open elements; "text": current node is HTML; "in cell": a
     td/th is open) are used for the PRESERVATION of TInv (a pop that must not empty the stack, close_the_cell), not at
     a Rust panic site directly.  They are not inductive as they stand (after the pop of "in head noscript" the stack
     needs two elements again for "in head"): the inductive versions are the stack grammars "in head: current node is the
     head element", "in head noscript: noscript on head", "text: pushed on a non-empty stack", "in cell: td/th in table
     scope".  Setting the modes establishes them (explicit switches follow the insertion of the element;
     reset_insertion_mode returns "in cell" / "in head" only for a td/th / head that is not the bottom entry; a saved
     mode must carry its facts through "text", like head_ok does).  What blocks the proof is (a) TInv is asserted at
     intermediate states inside an arm (keeps), where the facts are false between a pop and the mode switch - they
     would have to live in step_post, not in TInv; and (b) "in cell" must be preserved by all 51 arms of "in body" (and
     the adoption agency, end-tag scans, ...), each needing the argument that td/th is a scope barrier / special
     element that the arm cannot pop - a second pass over TreeInvBody.v with scope reasoning in every popping arm.
   ======================================================================== *)
From Coq Require Import List NArith Bool Arith Lia String.
From HV Require Import Dom.DomSpec Tree.TreeTypes Tree.TreeTables Tree.TreeModelHelpers Tree.TreeModelRules
  Tree.TreeModel Tree.TreeHoare Tree.TreeInvDefs Tree.TreeInvRules Tree.TreeInvMain.
Import ListNotations.
Open Scope list_scope.

(* one iteration: an answer, a Panic at the ghost site, never OutOfFuel; the loop invariant is kept *)
Theorem ptc_iter_never_out_of_fuel t0 s t more : LI t0 s t more ->
  match ptc_iter t more s with
  | Ok r s' => iter_post t0 r s'
  | Panic n => n = shape_site
  | OutOfFuel => False
  end.
Proof. intro H. exact (ptc_iter_ok False t0 s t more H). Qed.

(* a measure on the configurations of the loop that drops whenever the loop goes on *)
Definition decreasing (t0 : tok) (Meas : st -> tok -> list tok -> nat) : Prop :=
  forall s t more, LI t0 s t more ->
    match ptc_iter t more s with
    | Ok (inr (t', m')) s' => Meas s' t' m' < Meas s t more
    | _ => True
    end.

Theorem loop_never_out_of_fuel_given_measure t0 Meas : decreasing t0 Meas ->
  forall fuel s t more, LI t0 s t more -> Meas s t more < fuel ->
    match ptc_loop fuel t more s with
    | Ok res s' => res_post t0 res s'
    | Panic n => n = shape_site
    | OutOfFuel => False
    end.
Proof.
  intro D. induction fuel as [|f IH]; intros s t more H Lt; [lia|].
  cbn [ptc_loop]. unfold bind.
  pose proof (ptc_iter_never_out_of_fuel t0 s t more H) as It. pose proof (D s t more H) as Dd.
  destruct (ptc_iter t more s) as [[res | [t' m']] s' | n |]; [exact It | | exact It | contradiction].
  apply IH; [exact It | lia].
Qed.

(* non-vacuity of the first theorem is the example run of TreeInvMain (every iteration of it is an instance);
   of the second: the constant-zero measure is NOT decreasing as soon as one iteration continues, e.g. a Reprocess *)
Example zero_measure_not_decreasing :
  ~ decreasing KEof (fun _ _ _ => 0).
Proof.
  intro D. specialize (D (init_state ex_opts) KEof []).
  assert (H : LI KEof (init_state ex_opts) KEof []).
  { split; [apply TInv_init | split; [intro X; discriminate X | split; [exact Logic.I | split; [left; reflexivity | left; reflexivity]]]]. }
  specialize (D H). vm_compute in D. lia.
Qed.
