(* ========================================================================
   TreeInvHead.v - the "in head" rules (rules.rs:177-314) preserve [TInv].
   The rules are used both as the rules of the mode "in head" and by
   delegation from other modes, hence a statement that does not fix the
   current mode: the arms that pop the head element / switch to "in head
   noscript" carry their requirement as a precondition ([ih_pre]).
   ======================================================================== *)
From Coq Require Import List NArith Bool Arith Lia String.
From HV Require Import Dom.DomSpec Tree.TreeTypes Tree.TreeTables Tree.TreeModelHelpers Tree.TreeModelRules
  Tree.TreeModel Tree.TreeHoare Tree.TreeInvBasic Tree.TreeInvDefs Tree.TreeInvSetters Tree.TreeInvPrims
  Tree.TreeInvHelpers Tree.TreeInvAAA Tree.TreeInvDispatch Tree.TreeInvRules.
Import ListNotations.
Open Scope string_scope.
Open Scope list_scope.
Notation length := List.length (only parsing).

Definition ih_pre (s : st) (t : tok) : Prop :=
  let k := first_match heads_in_head t in
  (In k [8; 9; 13] -> 2 <= length (open_elems s) /\ head_elem s <> None) /\
  (k = 6 -> is_n (tname t) "noscript" = true -> head_elem s <> None).

Definition ih_post (t : tok) (r : presult) (s' : st) : Prop :=
  step_post t r s' /\ (is_reprocess r = true -> In (first_match heads_in_head t) [9; 13]).

(* pushing a template element once its template mode has been pushed *)
Lemma TInv_push_template s h :
  TInv s -> late s -> known s h -> ename_of s h = (ns_html, nm "template") ->
  tcount s + 1 <= length (template_modes s) ->
  TInv (set_open_elems (vpush (open_elems s) h) s).
Proof.
  intros I L K N T. pose proof I as [I1 I2 I3 I4 I5 I6 I7 I8 I9 I10 I11].
  destruct (TInv_stack_nonempty _ I L) as (r & rest & Er & Nr).
  apply TInv_set_stack; try assumption.
  - rewrite Er. unfold vpush. simpl. eauto.
  - destruct I2 as [A _]. unfold state_handles in A. pose proof A as A1.
    apply Forall_app in A1. destruct A1 as [A1 _]. unfold vpush. apply Forall_app. split; [exact A1 | constructor; [exact K | constructor]].
  - unfold tcount in T. unfold tcount_of, vpush. rewrite filter_length_app. cbn [filter].
    destruct (is_template s h); simpl; lia.
  - intros (x & A & B). unfold vpush in A. apply in_app_or in A. destruct A as [A|[<-|[]]].
    + apply I9. exists x. split; assumption.
    + rewrite N in B. discriminate.
Qed.

Lemma TInv_push_template_mode s m :
  TInv s -> template_mode m = true -> TInv (set_template_modes (vpush (template_modes s) m) s).
Proof.
  intros [I1 I2 I3 I4 I5 I6 I7 I8 I9 I10 I11] T. constructor; try assumption.
  - unfold tm_ok, tcount in *. cbn [open_elems context_elem template_modes set_template_modes].
    change (is_template (set_template_modes (vpush (template_modes s) m) s)) with (is_template s).
    unfold vpush. rewrite app_length. simpl. lia.
  - unfold tmodes_ok in *. cbn [template_modes set_template_modes]. unfold vpush. apply Forall_app. split; [exact I11 | constructor; [exact T | constructor]].
Qed.

Lemma tcount_stable s s' : TInv s -> stable s s' -> open_elems s' = open_elems s -> tcount s' = tcount s.
Proof.
  intros I S E. unfold tcount. rewrite E, (st_ctx _ _ S).
  assert (X : forall h, known s h -> is_template s' h = is_template s h).
  { intros h K. unfold is_template, html_elem_named_b. rewrite (stable_ename _ _ _ S K). reflexivity. }
  f_equal.
  - f_equal. apply filter_ext_in. intros a Ha. apply X. eapply TInv_stack_known; eassumption.
  - destruct (context_elem s) as [c|] eqn:Ec; [|reflexivity]. rewrite X; [reflexivity|].
    eapply known_handles_in; [apply inv_known; exact I | apply in_handles_ctx; exact Ec].
Qed.

Lemma wp_should_attach s0 s tg (Q : bool -> st -> Prop) :
  keeps s0 s -> late s -> (forall b s', keeps s0 s' -> same_lists s s' -> Q b s') ->
  wp (should_attach_declarative_shadow tg) Q s.
Proof.
  intros K L H. unfold should_attach_declarative_shadow. rewrite wp_bind.
  eapply wp_appropriate_place; [exact K | exact L | discriminate |]. intros ip s1 K1 SL _. rewrite wp_bind, wp_get, wp_ret. apply H; assumption.
Qed.

(* insert an HTML template element (after its template mode was pushed) *)
Lemma wp_insert_template s tg (Q : handle -> st -> Prop) :
  TInv s -> late s -> tg_name tg = nm "template" -> tcount s + 1 <= length (template_modes s) ->
  (forall h s', keeps s s' -> Q h s') ->
  wp (insert_element_for tg) Q s.
Proof.
  intros I L N T H. unfold insert_element_for.
  eapply (wp_insert_element s); [apply keeps_refl; exact I | exact L |].
  intros h s1 K1 [E1 E2] Kn En. apply H. apply keeps_stack_change; [exact K1|].
  pose proof K1 as [I1 S1].
  apply TInv_push_template; [exact I1 | eapply keeps_late; eassumption | exact Kn | rewrite En, N; reflexivity |].
  rewrite (tcount_stable s s1 I S1 E1), (st_tm _ _ S1). exact T.
Qed.

Lemma wp_in_head_template_start_strong s t :
  TInv s -> late s -> saving_mode (mode s) = false -> tname t = nm "template" ->
  wp (in_head_template_start t) (fun r s' => (TInv s' /\ r = Done) /\ head_elem s' = head_elem s /\ late s') s.
Proof.
  intros I L NS N. unfold tname in N. unfold in_head_template_start. rewrite wp_bind.
  eapply (wp_push_marker s); [apply keeps_refl; exact I|]. intros s1 K1 E1.
  unfold set_frameset_not_ok, set_mode_m. rewrite wp_bind, wp_modify, wp_bind, wp_modify, wp_bind, wp_modify.
  pose proof K1 as [I1 S1].
  set (s2 := set_mode InTemplate (set_frameset_ok false s1)).
  assert (I2 : TInv s2).
  { unfold s2. apply (keeps_set_mode s); [apply keeps_set_frameset_ok; exact K1 | | | reflexivity | reflexivity | discriminate].
    - unfold late in *. cbn. rewrite (st_mode _ _ S1). exact L.
    - cbn. rewrite (st_mode _ _ S1). exact NS. }
  set (s3 := set_template_modes _ s2).
  assert (I3 : TInv s3) by (apply TInv_push_template_mode; [exact I2 | reflexivity]).
  assert (L3 : late s3) by reflexivity.
  assert (T3 : tcount s3 + 1 <= length (template_modes s3)).
  { pose proof (inv_tm _ I2) as T2. unfold tm_ok in T2. unfold s3.
    assert (X : tcount (set_template_modes (vpush (template_modes s2) InTemplate) s2) = tcount s2) by reflexivity.
    rewrite X. cbn [template_modes set_template_modes]. unfold vpush. rewrite app_length. cbn [List.length]. lia. }
  rewrite wp_bind.
  eapply (wp_should_attach s3); [apply keeps_refl; exact I3 | exact L3 |]. intros b s4 K4 [E4 _].
  pose proof K4 as [I4 S4]. assert (L4 : late s4) by (eapply keeps_late; eassumption).
  assert (T4 : tcount s4 + 1 <= length (template_modes s4)).
  { rewrite (tcount_stable s3 s4 I3 S4 E4), (st_tm _ _ S4). exact T3. }
  rewrite wp_bind.
  assert (H4 : head_elem s4 = head_elem s).
  { rewrite (st_head _ _ S4). unfold s3, s2. cbn [head_elem set_template_modes set_mode set_frameset_ok]. apply (st_head _ _ S1). }
  assert (Plain : forall s5, TInv s5 -> late s5 -> tcount s5 + 1 <= length (template_modes s5) -> head_elem s5 = head_elem s ->
            wp (_e <- insert_element_for (tk_tag t) ;; ret tt)
               (fun _ s' => wp (ret Done) (fun r s'' => (TInv s'' /\ r = Done) /\ head_elem s'' = head_elem s /\ late s'') s') s5).
  { intros s5 I5 L5 T5 H5. rewrite wp_bind. apply wp_insert_template; [exact I5 | exact L5 | exact N | exact T5 |].
    intros h s6 K6. rewrite wp_ret, wp_ret. pose proof K6 as [_ S6].
    split; [split; [exact (keeps_TInv _ _ K6) | reflexivity] | split; [rewrite (st_head _ _ S6); exact H5 | eapply keeps_late; eassumption]]. }
  destruct b; [|apply Plain; assumption].
  rewrite wp_bind. apply wp_probe. rewrite wp_bind, wp_get, wp_bind, wp_unwrap.
  set (s5 := set_out _ s4).
  assert (I5 : TInv s5) by (eapply TInv_core_eq; [(apply core_eq_set_out; reflexivity) | exact I4]).
  destruct (TInv_vlast _ I5 L4) as [host0 V]. exists host0. split; [exact V|].
  rewrite wp_bind.
  assert (Host : forall sx (Q : handle -> st -> Prop), (forall x, Q x sx) ->
            wp (if is_fragment sx && Nat.eqb (length (open_elems sx)) 1 then unwrap (context_elem sx) 34 else ret host0) Q sx).
  { intros sx Q HQ. unfold is_fragment. destruct (context_elem sx) as [c|]; cbn [andb].
    - destruct (Nat.eqb _ 1); [rewrite wp_unwrap; exists c; split; [reflexivity | apply HQ] | rewrite wp_ret; apply HQ].
    - rewrite wp_ret. apply HQ. }
  apply Host. intros _sh. rewrite wp_bind.
  (* insert_foreign_element tg ns_html true *)
  unfold insert_foreign_element. rewrite wp_bind.
  eapply (wp_appropriate_place s5); [apply keeps_refl; exact I5 | exact L4 | discriminate |]. intros ip s6 K6 [E6 _] _.
  rewrite wp_bind. unfold wp at 1. rewrite sink_create_element_eq.
  set (h := next_handle s6). set (s7 := new_elem_state _ _ _ s6).
  assert (K7 : keeps s5 s7) by (apply new_elem_keeps; exact K6).
  rewrite wp_bind, wp_ret, wp_bind. unfold push. rewrite wp_modify, wp_ret.
  set (s8 := set_open_elems _ s7).
  pose proof K7 as [I7 S7].
  assert (I8 : TInv s8).
  { unfold s8. apply TInv_push_template; [exact I7 | eapply keeps_late; eassumption | apply new_elem_known | |].
    - unfold s7, h. rewrite new_elem_name. cbn [q_ns q_local qn_elem]. rewrite N. reflexivity.
    - assert (E7 : open_elems s7 = open_elems s5) by (cbn; exact E6).
      rewrite (tcount_stable s5 s7 I5 S7 E7), (st_tm _ _ S7). exact T4. }
  assert (L7 : late s7) by (eapply keeps_late; [exact K7 | exact L4]).
  assert (L8 : late s8) by exact L7.
  destruct (negb (o_attach_ok (opts s5))).
  - rewrite wp_bind.
    eapply (wp_pop s8); [apply keeps_refl; exact I8 | exact L8 | |].
    + unfold s8. cbn [open_elems set_open_elems]. unfold vpush. rewrite app_length. cbn [List.length].
      destruct (TInv_stack_nonempty _ I7 L7) as (r & rest & Er & _). rewrite Er. cbn [List.length]. lia.
    + intros e s9 K9 _ E9 _. pose proof K9 as [I9 S9].
      apply Plain; [exact I9 | eapply keeps_late; [exact K9 | exact L8] | |].
      2:{ rewrite (st_head _ _ S9). unfold s8. cbn [head_elem set_open_elems]. rewrite (st_head _ _ S7). exact H4. }
      (* the stack is back to that of s7 *)
      assert (E9' : open_elems s9 = open_elems s7).
      { rewrite E9. unfold s8. cbn [open_elems set_open_elems]. unfold vpush. rewrite app_length. cbn [List.length].
        replace (length (open_elems s7) + 1 - 1) with (length (open_elems s7)) by lia.
        rewrite firstn_app, firstn_all, Nat.sub_diag. cbn [firstn]. apply app_nil_r. }
      assert (S79 : stable s7 s9).
      { eapply stable_trans; [|exact S9]. apply stable_eqs; reflexivity. }
      rewrite (tcount_stable s7 s9 I7 S79 E9'), (st_tm _ _ S79).
      assert (E7 : open_elems s7 = open_elems s5) by (cbn; exact E6).
      rewrite (tcount_stable s5 s7 I5 S7 E7), (st_tm _ _ S7). exact T4.
  - rewrite wp_ret, wp_ret. split; [split; [exact I8 | reflexivity] | split; [|exact L8]].
    unfold s8. cbn [head_elem set_open_elems]. rewrite (st_head _ _ S7). exact H4.
Qed.

Lemma wp_in_head_template_start s t :
  TInv s -> late s -> saving_mode (mode s) = false -> tname t = nm "template" ->
  wp (in_head_template_start t) (fun r s' => TInv s' /\ r = Done) s.
Proof. intros. eapply wp_mono; [apply wp_in_head_template_start_strong; assumption | intros r s' [A _]; exact A]. Qed.


Lemma tcount_as_of s s' : TInv s -> stable s s' -> Forall (known s) (open_elems s') -> tcount s' = tcount_of s (open_elems s').
Proof.
  intros I S F. unfold tcount, tcount_of. rewrite (st_ctx _ _ S).
  assert (X : forall h, known s h -> is_template s' h = is_template s h).
  { intros h K. unfold is_template, html_elem_named_b. rewrite (stable_ename _ _ _ S K). reflexivity. }
  f_equal.
  - f_equal. apply filter_ext_in. intros a Ha. apply X. rewrite Forall_forall in F. apply F. exact Ha.
  - destruct (context_elem s) as [c|] eqn:Ec; [|reflexivity]. rewrite X; [reflexivity|].
    eapply known_handles_in; [apply inv_known; exact I | apply in_handles_ctx; exact Ec].
Qed.

Lemma template_not_html : nm "template" <> nm "html". Proof. discriminate. Qed.

Lemma wp_in_head_template_end s t :
  TInv s -> late s -> saving_mode (mode s) = false ->
  wp (in_head_template_end t) (fun r s' => TInv s' /\ r = Done) s.
Proof.
  intros I L NS. unfold in_head_template_end. rewrite wp_bind, wp_get.
  destruct (negb (in_html_elem_named s (nm "template"))) eqn:Neg.
  { apply wp_unexpected. split; [eapply TInv_core_eq; [(apply core_eq_set_out; reflexivity) | exact I] | reflexivity]. }
  apply negb_false_iff in Neg. unfold in_html_elem_named in Neg. apply existsb_exists in Neg. destruct Neg as (x & Hin & Hx).
  apply ename_eqb_eq in Hx.
  rewrite wp_bind.
  eapply (wp_generate_implied_end_tags s); [apply keeps_refl; exact I | exact L | apply thorough_html |].
  intros s1 K1 Sh1 Keep. pose proof K1 as [I1 S1]. assert (L1 : late s1) by (eapply keeps_late; eassumption).
  assert (Hin1 : In x (open_elems s1)) by (apply Keep; [exact Hin | rewrite Hx; reflexivity]).
  assert (Kx : known s x) by (eapply TInv_stack_known; eassumption).
  assert (Hx1 : ename_of s1 x = (ns_html, nm "template")) by (rewrite (keeps_name _ _ _ K1 Kx); exact Hx).
  rewrite wp_bind. unfold expect_to_close. rewrite wp_bind. unfold pop_until_named.
  eapply (wp_pop_until_strong s1); [apply keeps_refl; exact I1 | exact L1 | reflexivity | |].
  { exists x. split; [exact Hin1|]. rewrite Hx1. apply ename_eqb_refl. }
  intros n s2 K2 _ (k & e & Lk & E2 & Ee & Pe). pose proof K2 as [I2 S2].
  (* one template less on the stack *)
  assert (T2 : tcount s2 + 1 <= length (template_modes s2)).
  { assert (F2 : Forall (known s1) (open_elems s2)).
    { rewrite E2. apply Forall_forall. intros h Hh. eapply TInv_stack_known; [exact I1 | eapply In_firstn; exact Hh]. }
    rewrite (tcount_as_of s1 s2 I1 S2 F2), (st_tm _ _ S2). unfold tcount_of. rewrite E2.
    pose proof (inv_tm _ I1) as T1. unfold tm_ok, tcount in T1.
    assert (Te : is_template s1 e = true) by exact Pe.
    pose proof (filter_length_firstn_lt (is_template s1) (open_elems s1) k e Ee Te). lia. }
  assert (After : forall s3, keeps s2 s3 -> open_elems s3 = open_elems s2 ->
     wp (clear_active_formatting_to_marker ;;
         modify (fun s => set_template_modes (vpop (template_modes s)) s) ;;
         m <- reset_insertion_mode ;; set_mode_m m ;; ret Done) (fun r s' => TInv s' /\ r = Done) s3).
  { intros s3 K3 E3. rewrite wp_bind.
    eapply (wp_clear_active_formatting_to_marker s2); [exact K3|]. intros s4 K4 E4. pose proof K4 as [I4 S4].
    rewrite wp_bind, wp_modify.
    assert (T4 : tcount s4 + 1 <= length (template_modes s4)).
    { rewrite (tcount_stable s2 s4 I2 S4 (eq_trans E4 E3)), (st_tm _ _ S4). exact T2. }
    pose proof (TInv_pop_template_mode s4 I4 T4) as I5. set (s5 := set_template_modes _ s4) in *.
    assert (L5 : late s5).
    { unfold late. cbn. rewrite (st_mode _ _ S4), (st_mode _ _ S2). exact L1. }
    rewrite wp_bind.
    eapply (wp_reset_insertion_mode s5); [apply keeps_refl; exact I5 | exact L5 |].
    intros m s6 K6 _ Em Sm Hm. unfold set_mode_m. rewrite wp_bind, wp_modify, wp_ret. split; [|reflexivity].
    pose proof K6 as [I6 S6].
    apply (keeps_set_mode s5); [exact K6 | eapply keeps_late; eassumption | | exact Em | exact Sm |].
    - rewrite (st_mode _ _ S6). cbn. rewrite (st_mode _ _ S4), (st_mode _ _ S2), (st_mode _ _ S1). exact NS.
    - intro Hn. rewrite (st_head _ _ S6). apply Hm. exact Hn. }
  rewrite wp_when. destruct (negb (Nat.eqb n 1)).
  - rewrite wp_parse_error. apply After; [(apply keeps_set_out; [|reflexivity]); apply keeps_refl; exact I2 | reflexivity].
  - apply After; [apply keeps_refl; exact I2 | reflexivity].
Qed.

(* ---------- the dispatcher ---------- *)
Lemma step_post_done t s' : TInv s' -> step_post t Done s'.
Proof. intro I. split; [exact I | apply res_ok_done]. Qed.

Lemma in_head_arm_facts :
  forallb atom_is_tag (nth 3 heads_in_head []) = true /\
  forallb (atom_names safe_name false) (nth 4 heads_in_head []) = true /\
  forallb (atom_names safe_name false) (nth 5 heads_in_head []) = true /\
  forallb (atom_names safe_name false) (nth 6 heads_in_head []) = true /\
  forallb atom_is_tag (nth 7 heads_in_head []) = true /\
  forallb atom_is_tag (nth 8 heads_in_head []) = true /\
  forallb atom_is_tag (nth 9 heads_in_head []) = true /\
  forallb (atom_names (fun n => is_n n "template") false) (nth 10 heads_in_head []) = true /\
  forallb atom_is_tag (nth 11 heads_in_head []) = true /\
  forallb atom_is_tag (nth 12 heads_in_head []) = true /\
  forallb atom_is_chars (nth 0 heads_in_head []) = true /\
  forallb atom_is_chars (nth 1 heads_in_head []) = true /\
  forallb atom_not_chars (nth 2 heads_in_head []) = true.
Proof. repeat split; reflexivity. Qed.

Lemma ih_post_done t r s' : is_done r s' -> ih_post t r s'.
Proof. intros [I ->]. split; [apply step_post_done; exact I | discriminate]. Qed.

Lemma ih_post_nonrep t r s' : TInv s' -> is_chars t = false ->
  (r = Done \/ r = DoneAckSelfClosing \/ (exists k, r = ToRawData k)) -> ih_post t r s'.
Proof.
  intros I C R. split.
  - destruct R as [->|[->|[k ->]]]; (split; [exact I | apply res_ok_nonchars; [exact C | exact Logic.I]]).
  - destruct R as [->|[->|[k ->]]]; discriminate.
Qed.

Lemma in_head_arm4_start : forallb atom_is_start (nth 4 heads_in_head []) = true.
Proof. reflexivity. Qed.

Lemma step_in_head_gen_ok (in_body : body) :
  (forall s t, TInv s -> late s -> head_matches t (nth 3 heads_in_head []) = true ->
               wp (in_body t) (fun r s' => step_post t r s' /\ is_reprocess r = false) s) ->
  forall s t, TInv s -> late s -> saving_mode (mode s) = false -> scalar_tok t -> ih_pre s t ->
  wp (step_in_head_gen in_body t) (ih_post t) s.
Proof.
  intros HB s t I L NS Sc [P1 P2]. unfold step_in_head_gen.
  apply wp_arm_dispatch; [apply total_in_head | apply (aligned_all in_body b_done b_done) |].
  intros k b Ek Eb Hm Hn. rewrite Ek in P1, P2.
  pose proof (TInv_arm s (mode_id InHead) k I) as I1. set (s1 := set_out _ s) in *.
  assert (L1 : late s1) by exact L. assert (NS1 : saving_mode (mode s1) = false) by exact NS.
  assert (K1 : keeps s1 s1) by (apply keeps_refl; exact I1).
  destruct in_head_arm_facts as (F3 & F4 & F5 & F6 & F7 & F8 & F9 & F10 & F11 & F12 & F0 & F1 & F2).
  unfold ih_post. rewrite Ek.
  assert (AE : In k [9; 13] -> wp (in_head_anything_else t) (fun r s' => step_post t r s' /\ (is_reprocess r = true -> In k [9; 13])) s1).
  { intro Hk. unfold in_head_anything_else. rewrite wp_bind.
    destruct P1 as [Len Hd]; [destruct Hk as [<-|[<-|[]]]; simpl; auto|].
    eapply (wp_pop s1); [exact K1 | exact L1 | exact Len |].
    intros e s2 K2 _ _ _. rewrite wp_ret. split; [|intros _; exact Hk]. split.
    - split; [|discriminate]. pose proof K2 as [I2 S2].
      apply (keeps_set_mode s1); [exact K2 | eapply keeps_late; eassumption | rewrite (st_mode _ _ S2); exact NS1 | reflexivity | reflexivity |].
      intros _. rewrite (st_head _ _ S2). exact Hd.
    - apply res_ok_reprocess. }
  assert (Fin : forall r s', is_done r s' -> step_post t r s' /\ (is_reprocess r = true -> In k [9; 13])).
  { intros r s' [Is ->]. split; [apply step_post_done; exact Is | discriminate]. }
  assert (Fin2 : forall r s', TInv s' -> is_chars t = false ->
            (r = Done \/ r = DoneAckSelfClosing \/ (exists k, r = ToRawData k)) ->
            step_post t r s' /\ (is_reprocess r = true -> In k [9; 13])).
  { intros r s' Is C R. destruct (ih_post_nonrep t r s' Is C R) as [A B]. split; [exact A|]. intro X.
    destruct R as [->|[->|[kk ->]]]; discriminate. }
  arm_cases k Eb.
  - (* 0 *) apply wp_b_split. split; [split; [exact I1 | apply res_ok_split] | discriminate].
  - (* 1 *) eapply wp_mono; [apply armd_append_text; assumption | exact Fin].
  - (* 2 *) eapply wp_mono; [apply armd_append_comment; assumption | exact Fin].
  - (* 3 <html> *) eapply wp_mono; [apply HB; assumption|]. intros r s' [A B]. split; [exact A | rewrite B; discriminate].
  - (* 4 *)
    destruct (head_safe _ _ F4 Hm) as (g & -> & N0 & N1 & N2). cbn [tk_tag]. rewrite wp_bind. unfold insert_and_pop_element_for.
    pose proof (head_all_start _ _ in_head_arm4_start Hm) as St.
    eapply (wp_insert_element_gen s1); [exact K1 | exact L1 |].
    intros h s2 K2 _ _ _ CI. cbv iota. rewrite wp_bind, wp_get.
    destruct (dev_on s2 7 || is_n (tname (KTag g)) "meta") eqn:Dm.
    + eapply (wp_meta_like_result_out s1); [exact K2 | exact Sc |]. intros r s3 K3 [(-> & _)|(l & kk & -> & Ml & Kk & O3)].
      * apply Fin2; [exact (keeps_TInv _ _ K3) | reflexivity | right; left; reflexivity].
      * (* the EncodingIndicator *)
        split; [|discriminate]. split.
        -- split; [exact (keeps_TInv _ _ K3)|].
           destruct CI as (ins & mid & tm & ip & dup & older & O2 & Ins).
           exists [], kk, h, (qn_elem ns_html (tg_name g)), (tg_attrs g).
           split; [reflexivity | split; [reflexivity|]].
           split; [exists (out s2); split; [exact O3 | exists ins, mid, tm, ip, dup, older; split; [exact O2 | exact Ins]] |].
           split; [reflexivity | split; [exact Kk|]].
           intro D7. pose proof K3 as [_ S3]. pose proof K2 as [_ S2].
           assert (D2 : dev_on s2 7 = false).
           { unfold dev_on in *. rewrite (st_opts _ _ S2). rewrite (st_opts _ _ S3) in D7. exact D7. }
           rewrite D2 in Dm. cbn [orb] in Dm. apply is_n_eq in Dm. exact Dm.
        -- split; [|intro C; discriminate C].
           exists g. split; [reflexivity | split; [|split; [exact Hm | exact Ml]]].
           simpl in St. destruct (tg_kind g); [reflexivity | discriminate St].
    + rewrite wp_ret. apply Fin2; [exact (keeps_TInv _ _ K2) | reflexivity | right; left; reflexivity].
  - (* 5 <title> *)
    destruct (head_safe _ _ F5 Hm) as (g & -> & N0 & N1 & N2). cbn [tk_tag].
    eapply (wp_parse_raw_data s1); [exact K1 | exact L1 | exact NS1 | exact N1 | exact N2 |].
    intros s' I' _. apply Fin2; [exact I' | reflexivity | right; right; eauto].
  - (* 6 <noframes> <style> <noscript> *)
    destruct (head_safe _ _ F6 Hm) as (g & -> & N0 & N1 & N2). cbn [tk_tag]. rewrite wp_bind, wp_get.
    destruct (negb (o_scripting (opts s1)) && is_n (tname (KTag g)) "noscript") eqn:C.
    + apply andb_true_iff in C. destruct C as [_ Cn].
      rewrite wp_bind. unfold insert_element_for.
      eapply (wp_insert_element_std s1); [exact K1 | exact L1 | exact N1 | exact N2 |].
      intros h s2 K2 _ _ _ _. unfold set_mode_m. rewrite wp_bind, wp_modify, wp_ret.
      apply Fin2; [| reflexivity | left; reflexivity]. pose proof K2 as [I2 S2].
      apply (keeps_set_mode s1); [exact K2 | eapply keeps_late; eassumption | rewrite (st_mode _ _ S2); exact NS1 | reflexivity | reflexivity |].
      intros _. rewrite (st_head _ _ S2). apply P2; [reflexivity | exact Cn].
    + eapply (wp_parse_raw_data s1); [exact K1 | exact L1 | exact NS1 | exact N1 | exact N2 |].
      intros s' I' _. apply Fin2; [exact I' | reflexivity | right; right; eauto].
  - (* 7 <script> *)
    destruct (head_all_tag _ _ F7 Hm) as [g ->]. cbn [tk_tag]. rewrite wp_bind. unfold wp at 1. rewrite sink_create_element_eq.
    set (h := next_handle s1). set (s2 := new_elem_state _ _ _ s1).
    assert (K2 : keeps s1 s2) by (apply new_elem_keeps; exact K1).
    assert (Kn : known s2 h) by apply new_elem_known.
    assert (En : ename_of s2 h = (ns_html, nm "script")) by apply new_elem_name.
    rewrite wp_bind, wp_get, wp_bind.
    assert (Rest : forall s3, keeps s2 s3 -> wp (insert_appropriately (inl h) None ;; push h ;; to_raw_text_mode ScriptData)
                    (fun r s' => step_post (KTag g) r s' /\ (is_reprocess r = true -> In 7 [9; 13])) s3).
    { intros s3 K3. rewrite wp_bind.
      eapply (wp_insert_appropriately s2); [exact K3 | eapply keeps_late; [exact K3 | exact L1]
                                            | apply known_child_ok; [exact (proj1 K3) | eapply stable_known; [exact (proj2 K3) | exact Kn]]
                                            | discriminate |].
      intros s4 K4 _. rewrite wp_bind. unfold push. rewrite wp_modify.
      pose proof K4 as [I4 S4].
      assert (K5 : keeps s2 (set_open_elems (vpush (open_elems s4) h) s4)).
      { apply keeps_push; [exact K4 | eapply keeps_late; [exact K4 | exact L1] | eapply stable_known; eassumption | |];
          rewrite (stable_ename _ _ _ S4 Kn), En; discriminate. }
      pose proof K5 as [I5 S5].
      apply wp_to_raw_text_mode; [exact I5 | eapply keeps_late; [exact K5 | exact L1] | rewrite (st_mode _ _ S5); exact NS1 |].
      intros s' I' _. apply Fin2; [exact I' | reflexivity | right; right; eauto]. }
    destruct (is_fragment s2).
    + rewrite wp_emit. apply Rest.
      apply keeps_emit; [apply keeps_refl; exact (keeps_TInv _ _ K2) | reflexivity | reflexivity |]. cbn [op_okb].
      rewrite (v_named_ename s2 h _ Kn), En. reflexivity.
    + rewrite wp_ret. apply Rest. apply keeps_refl. exact (keeps_TInv _ _ K2).
  - (* 8 </head> *)
    destruct P1 as [Len Hd]; [simpl; auto|]. rewrite wp_bind.
    eapply (wp_pop s1); [exact K1 | exact L1 | exact Len |].
    intros e s2 K2 _ _ _. unfold set_mode_m. rewrite wp_bind, wp_modify, wp_ret.
    apply Fin2; [| exact (head_tag_not_chars _ _ F8 Hm) | left; reflexivity]. pose proof K2 as [I2 S2].
    apply (keeps_set_mode s1); [exact K2 | eapply keeps_late; eassumption | rewrite (st_mode _ _ S2); exact NS1 | reflexivity | reflexivity |].
    intros _. rewrite (st_head _ _ S2). exact Hd.
  - (* 9 *) apply AE. simpl; auto.
  - (* 10 <template> *)
    destruct (head_named_prop _ _ _ F10 Hm) as (g & -> & Nt). apply is_n_eq in Nt.
    eapply wp_mono; [apply wp_in_head_template_start; [exact I1 | exact L1 | exact NS1 | exact Nt]|].
    intros r s' [Is ->]. apply Fin2; [exact Is | reflexivity | left; reflexivity].
  - (* 11 </template> *)
    eapply wp_mono; [apply wp_in_head_template_end; [exact I1 | exact L1 | exact NS1]|].
    intros r s' [Is ->]. apply Fin2; [exact Is | exact (head_tag_not_chars _ _ F11 Hm) | left; reflexivity].
  - (* 12 *) eapply wp_mono; [apply armd_unexpected; assumption | exact Fin].
  - (* 13 *) apply AE. simpl; auto.
Qed.

(* the arms that other modes reach with the head element pushed back on the stack (AfterHead) leave the head
   pointer alone and end in a late mode *)
Lemma step_in_head_gen_head_kept (in_body : body) s t :
  TInv s -> late s -> saving_mode (mode s) = false -> scalar_tok t ->
  In (first_match heads_in_head t) [4; 5; 6; 7; 10] ->
  wp (step_in_head_gen in_body t) (fun _ s' => head_elem s' = head_elem s /\ late s') s.
Proof.
  intros I L NS Sc Hk. unfold step_in_head_gen.
  apply wp_arm_dispatch; [apply total_in_head | apply (aligned_all in_body b_done b_done) |].
  intros k b Ek Eb Hm Hn. rewrite Ek in Hk.
  pose proof (TInv_arm s (mode_id InHead) k I) as I1. set (s1 := set_out _ s) in *.
  assert (L1 : late s1) by exact L. assert (NS1 : saving_mode (mode s1) = false) by exact NS.
  assert (K1 : keeps s1 s1) by (apply keeps_refl; exact I1).
  assert (H1 : head_elem s1 = head_elem s) by reflexivity.
  destruct in_head_arm_facts as (F3 & F4 & F5 & F6 & F7 & F8 & F9 & F10 & F11 & F12 & F0 & F1 & F2).
  assert (Kp : forall s', keeps s1 s' -> head_elem s' = head_elem s /\ late s').
  { intros s' K'. pose proof K' as [_ S']. split; [rewrite (st_head _ _ S'); exact H1 | eapply keeps_late; eassumption]. }
  assert (Tx : forall s', text_entered s1 s' -> head_elem s' = head_elem s /\ late s').
  { intros s' (Em & _ & _ & Eh & _). split; [rewrite Eh; exact H1 | unfold late; rewrite Em; reflexivity]. }
  arm_cases k Eb; try (exfalso; simpl in Hk; intuition discriminate).
  - (* 4 *)
    destruct (head_safe _ _ F4 Hm) as (g & -> & N0 & N1 & N2). cbn [tk_tag]. rewrite wp_bind. unfold insert_and_pop_element_for.
    eapply (wp_insert_element_std s1); [exact K1 | exact L1 | exact N1 | exact N2 |].
    intros h s2 K2 _ _ _ _. rewrite wp_bind, wp_get.
    destruct (dev_on s2 7 || is_n (tname (KTag g)) "meta").
    + eapply (wp_meta_like_result s1); [exact K2 | exact Sc |]. intros r s3 K3 _. apply Kp. exact K3.
    + rewrite wp_ret. apply Kp. exact K2.
  - (* 5 *)
    destruct (head_safe _ _ F5 Hm) as (g & -> & N0 & N1 & N2). cbn [tk_tag].
    eapply (wp_parse_raw_data s1); [exact K1 | exact L1 | exact NS1 | exact N1 | exact N2 |].
    intros s' _ T'. apply Tx. exact T'.
  - (* 6 *)
    destruct (head_safe _ _ F6 Hm) as (g & -> & N0 & N1 & N2). cbn [tk_tag]. rewrite wp_bind, wp_get.
    destruct (negb (o_scripting (opts s1)) && is_n (tname (KTag g)) "noscript").
    + rewrite wp_bind. unfold insert_element_for.
      eapply (wp_insert_element_std s1); [exact K1 | exact L1 | exact N1 | exact N2 |].
      intros h s2 K2 _ _ _ _. unfold set_mode_m. rewrite wp_bind, wp_modify, wp_ret.
      destruct (Kp _ K2) as [A _]. split; [exact A | reflexivity].
    + eapply (wp_parse_raw_data s1); [exact K1 | exact L1 | exact NS1 | exact N1 | exact N2 |].
      intros s' _ T'. apply Tx. exact T'.
  - (* 7 *)
    destruct (head_all_tag _ _ F7 Hm) as [g ->]. cbn [tk_tag]. rewrite wp_bind. unfold wp at 1. rewrite sink_create_element_eq.
    set (h := next_handle s1). set (s2 := new_elem_state _ _ _ s1).
    assert (K2 : keeps s1 s2) by (apply new_elem_keeps; exact K1).
    assert (Kn : known s2 h) by apply new_elem_known.
    assert (En : ename_of s2 h = (ns_html, nm "script")) by apply new_elem_name.
    rewrite wp_bind, wp_get, wp_bind.
    assert (Rest : forall s3, keeps s2 s3 -> wp (insert_appropriately (inl h) None ;; push h ;; to_raw_text_mode ScriptData)
                    (fun _ s' => head_elem s' = head_elem s /\ late s') s3).
    { intros s3 K3. rewrite wp_bind.
      eapply (wp_insert_appropriately s2); [exact K3 | eapply keeps_late; [exact K3 | exact L1]
                                            | apply known_child_ok; [exact (proj1 K3) | eapply stable_known; [exact (proj2 K3) | exact Kn]]
                                            | discriminate |].
      intros s4 K4 _. rewrite wp_bind. unfold push. rewrite wp_modify.
      pose proof K4 as [I4 S4].
      assert (K5 : keeps s2 (set_open_elems (vpush (open_elems s4) h) s4)).
      { apply keeps_push; [exact K4 | eapply keeps_late; [exact K4 | exact L1] | eapply stable_known; eassumption | |];
          rewrite (stable_ename _ _ _ S4 Kn), En; discriminate. }
      pose proof K5 as [I5 S5].
      apply wp_to_raw_text_mode; [exact I5 | eapply keeps_late; [exact K5 | exact L1] | rewrite (st_mode _ _ S5); exact NS1 |].
      intros s' _ (Em & _ & _ & Eh & _). split; [|unfold late; rewrite Em; reflexivity].
      rewrite Eh, (st_head _ _ S5). pose proof K2 as [_ S2]. rewrite (st_head _ _ S2). exact H1. }
    destruct (is_fragment s2).
    + rewrite wp_emit. apply Rest.
      apply keeps_emit; [apply keeps_refl; exact (keeps_TInv _ _ K2) | reflexivity | reflexivity |]. cbn [op_okb].
      rewrite (v_named_ename s2 h _ Kn), En. reflexivity.
    + rewrite wp_ret. apply Rest. apply keeps_refl. exact (keeps_TInv _ _ K2).
  - (* 10 *)
    destruct (head_named_prop _ _ _ F10 Hm) as (g & -> & Nt). apply is_n_eq in Nt.
    eapply wp_mono; [apply wp_in_head_template_start_strong; [exact I1 | exact L1 | exact NS1 | exact Nt]|].
    intros r s' [_ [A B]]. split; [rewrite A; exact H1 | exact B].
Qed.
