(* ========================================================================
   TreeModelHelpers.v - the helper methods of html5ever/src/tree_builder/mod.rs
   as Gallina functions in the monad of TreeTypes.v.  Every function names the
   Rust method it mirrors; the order of sink calls is the Rust order.

   PANIC-SITE CENSUS (site number -> Rust location).  A site is the [N] carried
   by [Panic]:
     1  mod.rs:233   expect("no context element")        tokenizer_state_for_context_elem
     2  mod.rs:393   assert!(more_tokens.is_empty())     ProcessResult::Script
     3  mod.rs:397   assert!(more_tokens.is_empty())     ProcessResult::ToPlaintext
     4  mod.rs:401   assert!(more_tokens.is_empty())     ProcessResult::ToRawData
     5  mod.rs:446   iter.peek().unwrap()                foster parenting: <table> at the bottom of the stack
     6  mod.rs:559   &open_elems[0]                      html_elem (free fn): append_comment_to_html, InBody <html>
     7  mod.rs:1039  &elems[0]                           html_elem (method): foster parenting fallback
     8  mod.rs:635   assert!(html_elem_named(..))        assert_named (InRow)
     9  mod.rs:685   expect("no current element")        current_node
    10  mod.rs:787   open_elems[fmt_elem_stack_index-1]  adoption agency, common ancestor
    11  mod.rs:804-5 node_index -= 1; open_elems[node_index]   adoption agency inner loop
    12  mod.rs:827   active_formatting[node_formatting_index]
    13  mod.rs:829   assert!(same_node(h, &node))
    14  mod.rs:832   panic!("Found marker during adoption agency")
    15  mod.rs:842   open_elems[node_index] = ..
    16  mod.rs:843   active_formatting[node_formatting_index] = ..
    17  mod.rs:891   expect("bookmark not found ..")     Bookmark::Replace  (+ :892 index assignment)
    18  mod.rs:897   expect("bookmark not found ..")     Bookmark::InsertAfter
    19  mod.rs:902   expect("formatting element not found ..")
    20  mod.rs:899   Vec::insert(index, ..) with index > len
    21  mod.rs:914   expect("furthest block missing ..") (+ :917 Vec::insert)
    22  mod.rs:932   expect("no current element")        pop
    23  mod.rs:998   active_formatting[entry_index]      reconstruct, rewind
    24  mod.rs:1007  active_formatting[entry_index]      reconstruct, create
    25  mod.rs:1010  panic!("Found marker during formatting element reconstruction")
    26  mod.rs:1292  template_modes.last().unwrap()      reset_insertion_mode
    27  mod.rs:1248  assert!(pending_table_text.is_empty())
    28  mod.rs:1399  form_elem.as_ref().unwrap()
    29  mod.rs:1530  first_match.expect("matches with no index")
    30  mod.rs:1025  active_formatting[entry_index] = ..
    31  rules.rs:1654/1664  open_elems.len() - 1 ; open_elems[stack_idx]   foreign end tag
    32  rules.rs:34  expect("no current element")        current_node (free fn): Text / EOF
    33  rules.rs:271 open_elems.last().unwrap()          <template>, shadow host
    34  rules.rs:273 context_elem.clone().unwrap()
    35  rules.rs:394 expect("no head element")           AfterHead
    36  rules.rs:565 unreachable!()                      <li> | <dd> | <dt>
    37  rules.rs:818 context_elem.as_ref().unwrap()      InBody <input>
    38  rules.rs:898 context_elem.as_ref().unwrap()      InBody <select>
    39  rules.rs:1018 orig_mode.take().unwrap()          Text / EOF
    40  rules.rs:1023 orig_mode.take().unwrap()          Text / end tag
    41  rules.rs:1167 orig_mode.take().unwrap()          InTableText
    42  rules.rs:1032 unreachable!("impossible case in Text mode")
    43  rules.rs:1158 panic!("not prepared to handle this!")
    44  rules.rs:1687 panic!("impossible case in foreign content")
    45  mod.rs:1048  &elems[1]                           body_elem (guarded by len <= 1)
    46  mod.rs:752,782,816,822,903  Vec::remove(i) with i >= len (indices come from position / enumerate)
    47  encoding.rs  slice / subtendril panics of extract_a_character_encoding_from_a_meta_element
                     (MetaModel.extract_impl = XPanic)
    48  sink         get_template_contents on something that is not a template element (RcDom panics)
    90  model artefact: a dispatch index without an arm body (heads / bodies length mismatch)
    99  GHOST assertion, not in html5ever: the shape assumption of the no-panic proof
        (TreeModelRules.shape_check / hshape_b)
   Not modelled: mod.rs:302,314 (dump_state, dead code); RefCell double borrows
   (no sink call re-enters the tree builder); `len() - 1` at mod.rs:983,1030
   (the vector was just seen non-empty) and mod.rs:1580 (wraps silently in
   release builds, the comparison is then simply false).
   Sites whose index is produced by the immediately preceding position() /
   enumerate() and used before any mutation (mod.rs:752, 782, 1025, 1664) are
   kept explicit all the same.
   No proofs in this file.
   ======================================================================== *)
From Coq Require Import List NArith Bool Arith String.
From HV Require Base.Utf8 Meta.MetaModel.
From HV Require Import Dom.DomSpec Tree.TreeTypes Tree.TreeTables.
Import ListNotations.
Open Scope string_scope.
Open Scope list_scope.
Notation length := List.length (only parsing).

(* ---------- queries on the sink view ---------- *)
Definition is_n (name : str) (s : string) : bool := str_eqb name (nm s).
Definition html_elem_named_b (s : st) (h : handle) (name : str) : bool :=
  ename_eqb (ename_of s h) (ns_html, name).
Definition named (s : st) (h : handle) (n : string) : bool := html_elem_named_b s h (nm n).
Definition same_node (a b : handle) : bool := Nat.eqb a b.
(* TreeSink::is_mathml_annotation_xml_integration_point *)
Definition is_mathml_ip (s : st) (h : handle) : bool :=
  match einfo_of s h with Some e => e_ip e | None => false end.

(* ---------- sink calls ---------- *)
(* markup5ever create_element_with_flags + TreeSink::create_element *)
Definition sink_create_element (name : qualname) (attrs : list dattr) (dup : bool) : M handle :=
  s <- get ;;
  let h := next_handle s in
  let en := (q_ns name, q_local name) in
  let is_t := ename_eqb en (ns_html, nm "template") in
  let ip := ename_eqb en (ns_mathml, nm "annotation-xml") &&
            existsb (fun a => attr_is (nm "encoding") a &&
                              (eq_ignore_ascii_case (d_value a) (nm "text/html") ||
                               eq_ignore_ascii_case (d_value a) (nm "application/xhtml+xml"))) attrs in
  emit (OpCreateElement h name attrs is_t ip dup) ;;
  modify (fun s => set_sv (sv_push (Some {| e_ns := q_ns name ; e_local := q_local name ; e_ip := ip ; e_tmpl := is_t |})
                                   (sv s)) s) ;;
  ret h.

Definition sink_create_comment (text : str) : M handle :=
  s <- get ;;
  let h := next_handle s in
  emit (OpCreateComment h text) ;;
  modify (fun s => set_sv (sv_push None (sv s)) s) ;;
  ret h.

Definition sink_get_template_contents (t : handle) : M handle :=
  s <- get ;;
  match einfo_of s t with
  | Some e =>
    if e_tmpl e then
      match find (fun p => Nat.eqb (fst p) t) (sv_tmpl (sv s)) with
      | Some p => emit (OpGetTemplateContents t (snd p)) ;; ret (snd p)
      | None =>
        let r := next_handle s in
        emit (OpGetTemplateContents t r) ;;
        modify (fun s => set_sv {| sv_elems := sv_elems (sv s) ++ [None] ; sv_tmpl := (t, r) :: sv_tmpl (sv s) |} s) ;;
        ret r
      end
    else panic 48
  | None => panic 48
  end.

(* coverage probes inside helpers: logged as arm [k] of pseudo-mode 30 *)
Definition probe (k : nat) : M unit := log_arm 30 k.

(* ---------- small pieces of mod.rs ---------- *)
(* fn unexpected: one parse error, ProcessResult::Done *)
Definition unexpected : M presult := parse_error ;; ret Done.

(* fn set_quirks_mode *)
Definition do_set_quirks (q : N) : M unit :=
  modify (set_quirks_mode q) ;; emit (OpSetQuirks q).

(* fn current_node *)
Definition current_node : M handle := s <- get ;; unwrap (vlast (open_elems s)) 9.

(* fn adjusted_current_node *)
Definition adjusted_current_node : M handle :=
  s <- get ;;
  match open_elems s, context_elem s with
  | [_], Some ctx => ret ctx
  | _, _ => current_node
  end.

Definition current_node_in (set : ename -> bool) : M bool :=
  h <- current_node ;; s <- get ;; ret (set (ename_of s h)).
Definition current_node_named (n : str) : M bool :=
  h <- current_node ;; s <- get ;; ret (html_elem_named_b s h n).

(* fn in_html_elem_named *)
Definition in_html_elem_named (s : st) (name : str) : bool :=
  existsb (fun h => html_elem_named_b s h name) (open_elems s).

(* fn push / pop / remove_from_stack *)
Definition push (h : handle) : M unit := modify (fun s => set_open_elems (vpush (open_elems s) h) s).
Definition pop : M handle :=
  s <- get ;;
  e <- unwrap (vlast (open_elems s)) 22 ;;
  modify (fun s => set_open_elems (vpop (open_elems s)) s) ;;
  emit (OpPop e) ;;
  ret e.
Definition remove_from_stack (elem : handle) : M unit :=
  s <- get ;;
  match rposition (same_node elem) (open_elems s) with
  | Some p => modify (fun s => set_open_elems (vremove p (open_elems s)) s) ;; emit (OpPop elem)
  | None => ret tt
  end.

(* ---------- appropriate place for inserting a node (mod.rs:417-467) ---------- *)
(* the foster-parenting walk over the stack from the top; [l] = open elements, top first *)
Fixpoint foster_search (s : st) (l : list handle) : M ipoint :=
  match l with
  | [] => probe 5 ;; h <- unwrap (nth_error (open_elems s) 0) 7 ;; ret (LastChild h)
  | e :: rest =>
    if named s e "template" then probe 3 ;; c <- sink_get_template_contents e ;; ret (LastChild c)
    else if named s e "table" then
      match rest with
      | p :: _ => probe 4 ;; ret (TableFoster e p)
      | [] => panic 5
      end
    else foster_search s rest
  end.

Definition appropriate_place (override : option handle) : M ipoint :=
  target <- match override with Some t => probe 0 ;; ret t | None => current_node end ;;
  s <- get ;;
  if negb (foster_parenting s && in_set foster_target (ename_of s target)) then
    if named s target "template" then probe 1 ;; c <- sink_get_template_contents target ;; ret (LastChild c)
    else probe 2 ;; ret (LastChild target)
  else foster_search s (rev (open_elems s)).

Definition insert_at (ip : ipoint) (c : child) : M unit :=
  match ip with
  | LastChild p => emit (OpAppend p c)
  | BeforeSibling sb => emit (OpAppendBeforeSibling sb c)
  | TableFoster e p => emit (OpAppendBasedOnParent e p c)
  end.

Definition insert_appropriately (c : child) (override : option handle) : M unit :=
  ip <- appropriate_place override ;; insert_at ip c.

(* ---------- scopes (mod.rs:1084-1131) ---------- *)
Fixpoint in_scope_l (s : st) (scope : ename -> bool) (pred : handle -> bool) (l : list handle) : bool :=
  match l with
  | [] => false
  | n :: r => if pred n then true else if scope (ename_of s n) then false else in_scope_l s scope pred r
  end.
(* deviation 2: default_scope and the lists built on it (recognised by containing MathML mi)
   lack MathML annotation-xml *)
Definition scope_for (s : st) (scope : list ename) : list ename :=
  if negb (dev_on s 2) && in_set scope (ns_mathml, nm "mi") then (ns_mathml, nm "annotation-xml") :: scope
  else scope.
Definition in_scope (s : st) (scope : list ename) (pred : handle -> bool) : bool :=
  in_scope_l s (in_set (scope_for s scope)) pred (rev (open_elems s)).
Definition in_scope_named (s : st) (scope : list ename) (name : str) : bool :=
  in_scope s scope (fun h => html_elem_named_b s h name).

(* ---------- implied end tags, popping (mod.rs:1133-1222) ---------- *)
(* generate_implied_end_tags: `self.pop()` while the current node is in the set.
   [l] = open elements, top first; result = (popped, remaining), both top first.
   (pop()'s expect is dominated by the `last()` test of the same iteration) *)
Fixpoint implied_split (s : st) (set : ename -> bool) (l : list handle) : list handle * list handle :=
  match l with
  | [] => ([], [])
  | e :: r => if set (ename_of s e) then let '(p, q) := implied_split s set r in (e :: p, q) else ([], l)
  end.
Definition generate_implied_end_tags (set : ename -> bool) : M unit :=
  s <- get ;;
  let '(popped, rest) := implied_split s set (rev (open_elems s)) in
  modify (set_open_elems (rev rest)) ;;
  mapM_ (fun e => emit (OpPop e)) popped.

Definition implied_except (except : str) (n : ename) : bool :=
  if ename_eqb n (ns_html, except) then false else in_set cursory_implied_end n.
Definition generate_implied_end_except (except : str) : M unit :=
  generate_implied_end_tags (implied_except except).

(* pop_until_current: `while !current_node_in(set) { open_elems.pop(); }` (no sink.pop) *)
Fixpoint drop_until_in (s : st) (set : ename -> bool) (l : list handle) : option (list handle) :=
  match l with
  | [] => None
  | e :: r => if set (ename_of s e) then Some l else drop_until_in s set r
  end.
Definition pop_until_current (set : list ename) : M unit :=
  s <- get ;;
  match drop_until_in s (in_set set) (rev (open_elems s)) with
  | Some l => modify (set_open_elems (rev l))
  | None => panic 9
  end.

(* pop_until: pops (no sink.pop) until an element satisfying pred was popped or the
   stack is empty; returns the number of loop iterations *)
Fixpoint pop_until_l (s : st) (pred : ename -> bool) (l : list handle) (n : nat) : nat * list handle :=
  match l with
  | [] => (S n, [])
  | e :: r => if pred (ename_of s e) then (S n, r) else pop_until_l s pred r (S n)
  end.
Definition pop_until (pred : ename -> bool) : M nat :=
  s <- get ;;
  let '(n, rest) := pop_until_l s pred (rev (open_elems s)) 0 in
  modify (set_open_elems (rev rest)) ;;
  ret n.
Definition pop_until_named (name : str) : M nat := pop_until (fun n => ename_eqb n (ns_html, name)).

(* expect_to_close *)
Definition expect_to_close (name : str) : M unit :=
  n <- pop_until_named name ;;
  when (negb (Nat.eqb n 1)) parse_error.

Definition close_p_element : M unit :=
  generate_implied_end_tags implied_minus_p ;;
  expect_to_close (nm "p").
Definition close_p_element_in_button_scope : M unit :=
  s <- get ;;
  when (in_scope_named s button_scope (nm "p")) close_p_element.

(* fn is_type_hidden *)
Definition is_type_hidden (t : tag) : bool :=
  match find (attr_is (nm "type")) (tg_attrs t) with
  | None => false
  | Some a => eq_ignore_ascii_case (d_value a) (nm "hidden")
  end.

(* fn check_body_end: one parse error if some open element is not in body_end_ok *)
Definition check_body_end : M unit :=
  s <- get ;;
  when (existsb (fun h => negb (in_set body_end_ok (ename_of s h))) (open_elems s)) parse_error.

(* ---------- active formatting list ---------- *)
(* fn position_in_active_formatting *)
Definition position_in_af (s : st) (elem : handle) : option nat :=
  position (fun e => match e with FMarker => false | FElem h _ => same_node h elem end) (active_formatting s).

(* ActiveFormattingIter: (index, handle, tag) from the end of the list down to the last marker *)
Fixpoint af_to_marker (l : list (nat * fentry)) : list (nat * handle * tag) :=
  match l with
  | [] => []
  | (_, FMarker) :: _ => []
  | (i, FElem h t) :: r => (i, h, t) :: af_to_marker r
  end.
Definition af_end_to_marker (s : st) : list (nat * handle * tag) :=
  let af := active_formatting s in
  af_to_marker (rev (combine (seq 0 (length af)) af)).

(* fn clear_active_formatting_to_marker *)
Fixpoint clear_to_marker_l (l : list fentry) : list fentry :=
  match l with
  | [] => []
  | FMarker :: r => r
  | FElem _ _ :: r => clear_to_marker_l r
  end.
Definition clear_active_formatting_to_marker : M unit :=
  modify (fun s => set_active_formatting (rev (clear_to_marker_l (rev (active_formatting s)))) s).

Definition push_marker : M unit :=
  modify (fun s => set_active_formatting (vpush (active_formatting s) FMarker) s).

(* fn is_marker_or_open *)
Definition is_marker_or_open (s : st) (e : fentry) : bool :=
  match e with
  | FMarker => true
  | FElem h _ => existsb (same_node h) (open_elems s)
  end.

(* ---------- creating and inserting elements (mod.rs:1346-1457) ---------- *)
Definition create_root (attrs : list dattr) : M unit :=
  elem <- sink_create_element (qn_elem ns_html (nm "html")) attrs false ;;
  push elem ;;
  emit (OpAppend 0 (inl elem)).

Definition ip_nodes (ip : ipoint) : handle * option handle :=
  match ip with
  | LastChild p | BeforeSibling p => (p, None)
  | TableFoster e p => (e, Some p)
  end.

(* fn insert_element; [do_push] = PushFlag::Push *)
Definition insert_element (do_push : bool) (ns name : str) (attrs : list dattr) (dup : bool) : M handle :=
  ip <- appropriate_place None ;;
  let '(node1, node2) := ip_nodes ip in
  s <- get ;;
  let en := (ns, name) in
  let form_is_associatable :=
    in_set form_associatable en &&
    (match form_elem s with Some _ => true | None => false end) &&
    negb (in_html_elem_named s (nm "template")) &&
    negb (in_set listed en && existsb (attr_is (nm "form")) attrs) in
  elem <- sink_create_element (qn_elem ns name) attrs dup ;;
  (if form_is_associatable then
     probe 6 ;;
     form <- unwrap (form_elem s) 28 ;;
     emit (OpAssociateForm elem form node1 node2)
   else ret tt) ;;
  insert_at ip (inl elem) ;;
  (if do_push then push elem else ret tt) ;;
  ret elem.

Definition insert_element_for (t : tag) : M handle :=
  insert_element true ns_html (tg_name t) (tg_attrs t) (tg_dup t).
Definition insert_and_pop_element_for (t : tag) : M handle :=
  insert_element false ns_html (tg_name t) (tg_attrs t) (tg_dup t).
Definition insert_phantom (name : str) : M handle :=
  insert_element true ns_html name [] false.

(* fn insert_foreign_element *)
Definition insert_foreign_element (t : tag) (ns : str) (only_add_to_element_stack : bool) : M handle :=
  ip <- appropriate_place None ;;
  elem <- sink_create_element (qn_elem ns (tg_name t)) (tg_attrs t) (tg_dup t) ;;
  (if only_add_to_element_stack then ret tt else insert_at ip (inl elem)) ;;
  push elem ;;
  ret elem.

(* fn should_attach_declarative_shadow *)
Definition should_attach_declarative_shadow (t : tag) : M bool :=
  _ip <- appropriate_place None ;;
  s <- get ;;
  let is_shadow_root_mode :=
    existsb (fun a => str_eqb (q_local (d_name a)) (nm "shadowrootmode") &&
                      (str_eqb (d_value a) (nm "open") || str_eqb (d_value a) (nm "closed"))) (tg_attrs t) in
  let allow := o_allow_dsr (opts s) in
  let not_topmost :=
    match open_elems s with
    | [] => true
    | _ :: _ =>
      Nat.ltb 1 (length (open_elems s)) ||
      (* deviation 12: in the fragment case with a one-element stack the adjusted current node is the
         context element, which is not on the stack at all *)
      (negb (dev_on s 12) && (match context_elem s with Some _ => true | None => false end))
    end in
  ret (is_shadow_root_mode && allow && not_topmost).

(* append_text / append_comment* *)
Definition append_text (text : str) : M presult :=
  insert_appropriately (inr text) None ;; ret Done.
Definition append_comment (text : str) : M presult :=
  c <- sink_create_comment text ;; insert_appropriately (inl c) None ;; ret Done.
Definition append_comment_to_doc (text : str) : M presult :=
  c <- sink_create_comment text ;; emit (OpAppend 0 (inl c)) ;; ret Done.
Definition append_comment_to_html (text : str) : M presult :=
  s <- get ;;
  target <- unwrap (nth_error (open_elems s) 0) 6 ;;
  c <- sink_create_comment text ;; emit (OpAppend target (inl c)) ;; ret Done.

(* ---------- raw text ---------- *)
Definition to_raw_text_mode (k : rawkind) : M presult :=
  modify (fun s => set_mode Text (set_orig_mode (Some (mode s)) s)) ;;
  ret (ToRawData k).
Definition parse_raw_data (t : tag) (k : rawkind) : M presult :=
  _e <- insert_element_for t ;; to_raw_text_mode k.

(* ---------- Noah's ark (mod.rs:1516-1544) ---------- *)
Definition dattr_eqb (a b : dattr) : bool := qn_eqb (d_name a) (d_name b) && str_eqb (d_value a) (d_value b).
Fixpoint remove_first (a : dattr) (l : list dattr) : option (list dattr) :=
  match l with
  | [] => None
  | b :: t => if dattr_eqb a b then Some t else option_map (cons b) (remove_first a t)
  end.
(* sorted attribute vectors are equal <-> the vectors are equal as multisets *)
Fixpoint attrs_perm_eqb (l1 l2 : list dattr) : bool :=
  match l1 with
  | [] => match l2 with [] => true | _ => false end
  | a :: r => match remove_first a l2 with Some l2' => attrs_perm_eqb r l2' | None => false end
  end.
(* Tag::equiv_modulo_attr_order *)
Definition equiv_modulo_attr_order (a b : tag) : bool :=
  tagkind_eqb (tg_kind a) (tg_kind b) && str_eqb (tg_name a) (tg_name b) &&
  attrs_perm_eqb (tg_attrs a) (tg_attrs b).

Definition noah_scan (t : tag) (l : list (nat * handle * tag)) : option nat * nat :=
  fold_left (fun (acc : option nat * nat) (x : nat * handle * tag) =>
               if equiv_modulo_attr_order t (snd x) then (Some (fst (fst x)), S (snd acc)) else acc)
            l (None, 0).

Definition create_formatting_element_for (t : tag) : M handle :=
  s <- get ;;
  let '(first_match, matches) := noah_scan t (af_end_to_marker s) in
  (if Nat.leb 3 matches then
     probe 7 ;;
     i <- unwrap first_match 29 ;;
     assert (Nat.ltb i (length (active_formatting s))) 46 ;;
     modify (fun s => set_active_formatting (vremove i (active_formatting s)) s)
   else ret tt) ;;
  elem <- insert_element true ns_html (tg_name t) (tg_attrs t) (tg_dup t) ;;
  modify (fun s => set_active_formatting (vpush (active_formatting s) (FElem elem t)) s) ;;
  ret elem.

(* ---------- reconstruct the active formatting elements (mod.rs:963-1035) ---------- *)
(* steps 4-7: walk back from [idx]; None = index out of range (site 23) *)
Fixpoint recon_rewind (s : st) (idx : nat) : option nat :=
  match idx with
  | 0 => Some 0
  | S i =>
    match nth_error (active_formatting s) i with
    | None => None
    | Some e => if is_marker_or_open s e then Some (S i) else recon_rewind s i
    end
  end.
(* steps 8-10, entry_index .. len-1; fuel = number of entries still to visit *)
Fixpoint recon_create (fuel : nat) (idx : nat) : M unit :=
  match fuel with
  | 0 => out_of_fuel
  | S f =>
    s <- get ;;
    e <- unwrap (nth_error (active_formatting s) idx) 24 ;;
    match e with
    | FMarker => panic 25
    | FElem _ t =>
      new <- insert_element true ns_html (tg_name t) (tg_attrs t) (tg_dup t) ;;
      s <- get ;;
      assert (Nat.ltb idx (length (active_formatting s))) 30 ;;
      modify (fun s => set_active_formatting (vset idx (FElem new t) (active_formatting s)) s) ;;
      if Nat.eqb idx (length (active_formatting s) - 1) then ret tt else recon_create f (S idx)
    end
  end.
Definition reconstruct_active_formatting_elements : M unit :=
  s <- get ;;
  match vlast (active_formatting s) with
  | None => ret tt
  | Some last =>
    if is_marker_or_open s last then probe 8
    else
      probe 9 ;;
      idx <- unwrap (recon_rewind s (length (active_formatting s) - 1)) 23 ;;
      recon_create (S (length (active_formatting s))) idx
  end.

(* ---------- any other end tag (mod.rs:1555-1585) ---------- *)
(* special_tag with deviations 3, 4, 5 *)
Definition is_special (s : st) (n : ename) : bool :=
  (in_set special_tag n && (dev_on s 4 || negb (ename_eqb n (ns_html, nm "isindex")))) ||
  (negb (dev_on s 3) && ename_eqb n (ns_html, nm "search")) ||
  (negb (dev_on s 5) && (in_set mathml_text_integration_point n || in_set svg_html_integration_point n ||
                         ename_eqb n (ns_mathml, nm "annotation-xml"))).

Inductive end_scan := EsMatch (i : nat) | EsSpecial | EsNone.
(* [l] = (index, handle) pairs, top first *)
Fixpoint end_tag_scan (s : st) (name : str) (l : list (nat * handle)) : end_scan :=
  match l with
  | [] => EsNone
  | (i, e) :: r =>
    if html_elem_named_b s e name then EsMatch i
    else if is_special s (ename_of s e) then EsSpecial
    else end_tag_scan s name r
  end.
Definition indexed_rev {A} (l : list A) : list (nat * A) := rev (combine (seq 0 (length l)) l).

Definition process_end_tag_in_body (name : str) : M unit :=
  s <- get ;;
  match end_tag_scan s name (indexed_rev (open_elems s)) with
  | EsSpecial => probe 10 ;; parse_error
  | EsNone => probe 11 ;; parse_error           (* self.unexpected(&tag) *)
  | EsMatch match_idx =>
    generate_implied_end_except name ;;
    s <- get ;;
    when (negb (Nat.eqb match_idx (length (open_elems s) - 1))) (probe 12 ;; parse_error) ;;
    modify (fun s => set_open_elems (vtruncate match_idx (open_elems s)) s)
  end.

(* ---------- the adoption agency algorithm (mod.rs:713-921) ---------- *)
Inductive bookmark := BmReplace (h : handle) | BmInsertAfter (h : handle).

(* steps 13.2-13.11; structurally recursive on node_index (it strictly decreases) *)
Fixpoint aaa_inner (node_index counter : nat) (fmt_elem fb last_node : handle) (bm : bookmark)
  : M (handle * bookmark) :=
  match node_index with
  | 0 => panic 11
  | S ni =>
    let counter := S counter in
    s <- get ;;
    node <- unwrap (nth_error (open_elems s) ni) 11 ;;
    if same_node node fmt_elem then ret (last_node, bm)
    else if Nat.ltb 3 counter then
      probe 19 ;;
      (match position_in_af s node with
       | Some p => modify (fun s => set_active_formatting (vremove p (active_formatting s)) s)
       | None => ret tt
       end) ;;
      modify (fun s => set_open_elems (vremove ni (open_elems s)) s) ;;
      aaa_inner ni counter fmt_elem fb last_node bm
    else
      match position_in_af s node with
      | None =>
        probe 20 ;;
        modify (fun s => set_open_elems (vremove ni (open_elems s)) s) ;;
        aaa_inner ni counter fmt_elem fb last_node bm
      | Some nfi =>
        e <- unwrap (nth_error (active_formatting s) nfi) 12 ;;
        match e with
        | FMarker => panic 14
        | FElem h t =>
          assert (same_node h node) 13 ;;
          probe 21 ;;
          new <- sink_create_element (qn_elem ns_html (tg_name t)) (tg_attrs t) (tg_dup t) ;;
          s <- get ;;
          assert (Nat.ltb ni (length (open_elems s))) 15 ;;
          assert (Nat.ltb nfi (length (active_formatting s))) 16 ;;
          modify (fun s => set_active_formatting (vset nfi (FElem new t) (active_formatting s))
                             (set_open_elems (vset ni new (open_elems s)) s)) ;;
          let bm := if same_node last_node fb then BmInsertAfter new else bm in
          emit (OpRemoveFromParent last_node) ;;
          emit (OpAppend new (inl last_node)) ;;
          aaa_inner ni counter fmt_elem fb new bm
        end
      end
  end.

(* first (index, handle) at or after [from] whose element is special *)
Fixpoint find_special_from (s : st) (l : list (nat * handle)) : option (nat * handle) :=
  match l with
  | [] => None
  | (i, h) :: r => if is_special s (ename_of s h) then Some (i, h) else find_special_from s r
  end.

(* one iteration of the outer loop; returns true when the algorithm returns *)
Definition aaa_iteration (subject : str) : M bool :=
  s <- get ;;
  (* 5 *)
  match find (fun x => str_eqb (tg_name (snd x)) subject) (af_end_to_marker s) with
  | None => probe 14 ;; process_end_tag_in_body subject ;; ret true
  | Some (fmt_elem_index, fmt_elem, fmt_elem_tag) =>
    match rposition (fun n => same_node n fmt_elem) (open_elems s) with
    | None =>
      probe 15 ;;
      parse_error ;;
      assert (Nat.ltb fmt_elem_index (length (active_formatting s))) 46 ;;
      modify (fun s => set_active_formatting (vremove fmt_elem_index (active_formatting s)) s) ;;
      ret true
    | Some fmt_elem_stack_index =>
      (* 7 *)
      if negb (in_scope s default_scope (fun n => same_node n fmt_elem)) then probe 16 ;; parse_error ;; ret true
      else
        (* 8 *)
        cur <- current_node ;;
        when (negb (same_node cur fmt_elem)) (probe 17 ;; parse_error) ;;
        (* 9 *)
        match find_special_from s (skipn fmt_elem_stack_index
                                         (combine (seq 0 (length (open_elems s))) (open_elems s))) with
        | None =>
          (* 10 *)
          probe 18 ;;
          assert (Nat.ltb fmt_elem_index (length (active_formatting s))) 46 ;;
          modify (fun s => set_active_formatting (vremove fmt_elem_index (active_formatting s))
                             (set_open_elems (vtruncate fmt_elem_stack_index (open_elems s)) s)) ;;
          ret true
        | Some (furthest_block_index, furthest_block) =>
          (* 11 *)
          common_ancestor <-
            match fmt_elem_stack_index with
            | 0 => panic 10
            | S i => unwrap (nth_error (open_elems s) i) 10
            end ;;
          (* 12, 13 *)
          r <- aaa_inner furthest_block_index 0 fmt_elem furthest_block furthest_block (BmReplace fmt_elem) ;;
          let '(last_node, bm) := r in
          (* 14 *)
          emit (OpRemoveFromParent last_node) ;;
          insert_appropriately (inl last_node) (Some common_ancestor) ;;
          (* 15 *)
          new_element <- sink_create_element (qn_elem ns_html (tg_name fmt_elem_tag))
                                             (tg_attrs fmt_elem_tag) (tg_dup fmt_elem_tag) ;;
          let new_entry := FElem new_element fmt_elem_tag in
          (* 16, 17 *)
          emit (OpReparentChildren furthest_block new_element) ;;
          emit (OpAppend furthest_block (inl new_element)) ;;
          (* 18 *)
          (match bm with
           | BmReplace to_replace =>
             probe 22 ;;
             s <- get ;;
             index <- unwrap (position_in_af s to_replace) 17 ;;
             modify (fun s => set_active_formatting (vset index new_entry (active_formatting s)) s)
           | BmInsertAfter previous =>
             probe 23 ;;
             s <- get ;;
             p <- unwrap (position_in_af s previous) 18 ;;
             let index := S p in
             assert (Nat.leb index (length (active_formatting s))) 20 ;;
             modify (fun s => set_active_formatting (vinsert index new_entry (active_formatting s)) s) ;;
             s <- get ;;
             old_index <- unwrap (position_in_af s fmt_elem) 19 ;;
             modify (fun s => set_active_formatting (vremove old_index (active_formatting s)) s)
           end) ;;
          (* 19 *)
          remove_from_stack fmt_elem ;;
          s <- get ;;
          nfb <- unwrap (position (fun n => same_node n furthest_block) (open_elems s)) 21 ;;
          modify (fun s => set_open_elems (vinsert (S nfb) new_element (open_elems s)) s) ;;
          ret false
        end
    end
  end.

Fixpoint aaa_outer (n : nat) (subject : str) : M unit :=
  match n with
  | 0 => probe 24
  | S n' => stop <- aaa_iteration subject ;; if stop then ret tt else aaa_outer n' subject
  end.

Definition adoption_agency (subject : str) : M unit :=
  (* 1 *)
  cur <- current_node ;;
  s <- get ;;
  if html_elem_named_b s cur subject && (match position_in_af s cur with None => true | Some _ => false end)
  then probe 13 ;; _e <- pop ;; ret tt
  else aaa_outer 8 subject.

(* fn handle_misnested_a_tags *)
Definition handle_misnested_a_tags : M unit :=
  s <- get ;;
  match find (fun x => named s (snd (fst x)) "a") (af_end_to_marker s) with
  | None => ret tt
  | Some (_, node, _) =>
    probe 25 ;;
    parse_error ;;
    adoption_agency (nm "a") ;;
    s <- get ;;
    (match position_in_af s node with
     | Some i => modify (fun s => set_active_formatting (vremove i (active_formatting s)) s)
     | None => ret tt
     end) ;;
    remove_from_stack node
  end.

(* ---------- reset the insertion mode appropriately (mod.rs:1265-1309) ---------- *)
(* [l] = open elements, top first; the last entry (index 0 of the Vec) is replaced by
   the context element when there is one *)
Fixpoint reset_loop (s : st) (l : list handle) : M imode :=
  match l with
  | [] => probe 38 ;; ret InBody
  | node0 :: r =>
    let last := match r with [] => true | _ :: _ => false end in
    let node := match last, context_elem s with true, Some ctx => ctx | _, _ => node0 end in
    let '(ns, name) := ename_of s node in
    if negb (str_eqb ns ns_html) then reset_loop s r
    else if (is_n name "td" || is_n name "th") && negb last then probe 26 ;; ret InCell
    else if is_n name "tr" then probe 27 ;; ret InRow
    else if is_n name "tbody" || is_n name "thead" || is_n name "tfoot" then probe 28 ;; ret InTableBody
    else if is_n name "caption" then probe 29 ;; ret InCaption
    else if is_n name "colgroup" then probe 30 ;; ret InColumnGroup
    else if is_n name "table" then probe 31 ;; ret InTable
    else if is_n name "template" then probe 32 ;; unwrap (vlast (template_modes s)) 26
    else if is_n name "head" then (if negb last then probe 33 ;; ret InHead else reset_loop s r)
    else if is_n name "body" then probe 34 ;; ret InBody
    else if is_n name "frameset" then probe 35 ;; ret InFrameset
    else if is_n name "html" then
      match head_elem s with None => probe 36 ;; ret BeforeHead | Some _ => probe 37 ;; ret AfterHead end
    else reset_loop s r
  end.
Definition reset_insertion_mode : M imode := s <- get ;; reset_loop s (rev (open_elems s)).

(* fn close_the_cell *)
Definition close_the_cell : M unit :=
  generate_implied_end_tags (in_set cursory_implied_end) ;;
  n <- pop_until (in_set td_th) ;;
  when (negb (Nat.eqb n 1)) parse_error ;;
  clear_active_formatting_to_marker.

(* fn body_elem *)
Definition body_elem (s : st) : M (option handle) :=
  if Nat.leb (length (open_elems s)) 1 then ret None
  else
    node <- unwrap (nth_error (open_elems s) 1) 45 ;;
    if named s node "body" then ret (Some node) else ret None.

(* ---------- foreign content (mod.rs:1605-1882) ---------- *)
Definition is_chars_or_null (t : tok) : bool :=
  match t with KChars _ _ | KNull => true | _ => false end.
Definition is_start_tag (t : tok) : bool :=
  match t with KTag g => tagkind_eqb (tg_kind g) StartTag | _ => false end.

(* fn is_foreign *)
Definition is_foreign (t : tok) : M bool :=
  match t with
  | KEof => ret false
  | _ =>
    s <- get ;;
    match open_elems s with
    | [] => ret false
    | _ :: _ =>
      cur <- adjusted_current_node ;;
      let name := ename_of s cur in
      if str_eqb (fst name) ns_html then ret false
      else if in_set mathml_text_integration_point name &&
              (is_chars_or_null t ||
               (is_start_tag t && negb (is_n (tg_name (tk_tag t)) "mglyph" || is_n (tg_name (tk_tag t)) "malignmark")))
      then ret false
      else if in_set svg_html_integration_point name && (is_chars_or_null t || is_start_tag t)
      then ret false
      else if ename_eqb name (ns_mathml, nm "annotation-xml") then
        if is_start_tag t && is_n (tg_name (tk_tag t)) "svg" then ret false
        else if is_chars_or_null t || is_start_tag t then ret (negb (is_mathml_ip s cur))
        else ret true
      else ret true
    end
  end.

(* fn adjust_attributes and its instances *)
Definition adjust_attrs (map : str -> option qualname) (attrs : list dattr) : list dattr :=
  List.map (fun a => match map (q_local (d_name a)) with
                     | Some q => {| d_name := q ; d_value := d_value a |}
                     | None => a
                     end) attrs.
Definition adjust_svg_attributes (attrs : list dattr) : list dattr :=
  adjust_attrs (fun k => assoc_q k svg_attr_names) attrs.
Definition adjust_mathml_attributes (attrs : list dattr) : list dattr :=
  adjust_attrs (fun k => assoc_q k mathml_attr_names) attrs.
(* deviation 10: `xmlns` is adjusted to prefix Some(""), WHATWG: no prefix *)
Definition adjust_foreign_attributes (whatwg_xmlns : bool) (attrs : list dattr) : list dattr :=
  adjust_attrs (fun k => match assoc_q k foreign_attr_names with
                         | Some q => if whatwg_xmlns && str_eqb k (nm "xmlns")
                                     then Some {| q_prefix := None ; q_ns := q_ns q ; q_local := q_local q |}
                                     else Some q
                         | None => None
                         end) attrs.
Definition adjust_svg_tag_name (name : str) : str :=
  match assoc name svg_tag_names with Some n => n | None => name end.

(* fn enter_foreign *)
Definition enter_foreign (t : tag) (ns : str) : M presult :=
  s <- get ;;
  let attrs := tg_attrs t in
  let attrs := if str_eqb ns ns_mathml then adjust_mathml_attributes attrs
               else if str_eqb ns ns_svg then adjust_svg_attributes attrs else attrs in
  let attrs := adjust_foreign_attributes (negb (dev_on s 10)) attrs in
  if tg_self t then _e <- insert_element false ns (tg_name t) attrs (tg_dup t) ;; ret DoneAckSelfClosing
  else _e <- insert_element true ns (tg_name t) attrs (tg_dup t) ;; ret Done.

(* fn foreign_start_tag *)
Definition foreign_start_tag (t : tag) : M presult :=
  cur <- adjusted_current_node ;;
  s <- get ;;
  let current_ns := fst (ename_of s cur) in
  let name := if str_eqb current_ns ns_svg then adjust_svg_tag_name (tg_name t) else tg_name t in
  let attrs := tg_attrs t in
  let attrs := if str_eqb current_ns ns_mathml then adjust_mathml_attributes attrs
               else if str_eqb current_ns ns_svg then adjust_svg_attributes attrs else attrs in
  let attrs := adjust_foreign_attributes (negb (dev_on s 10)) attrs in
  if tg_self t then _e <- insert_element false current_ns name attrs (tg_dup t) ;; ret DoneAckSelfClosing
  else _e <- insert_element true current_ns name attrs (tg_dup t) ;; ret Done.

(* the pop loop of unexpected_start_tag_in_foreign_content: `self.pop()` until the
   current node is an HTML element or an integration point; [l] top first.
   None: the stack would run empty (current_node's expect, site 9) *)
Definition foreign_stop (s : st) (h : handle) : bool :=
  let n := ename_of s h in
  str_eqb (fst n) ns_html || in_set mathml_text_integration_point n || in_set svg_html_integration_point n ||
  (* deviation 6 *)
  (negb (dev_on s 6) && ename_eqb n (ns_mathml, nm "annotation-xml") && is_mathml_ip s h).
Fixpoint foreign_pop_split (s : st) (l : list handle) : option (list handle * list handle) :=
  match l with
  | [] => None
  | e :: r =>
    if foreign_stop s e then Some ([], l)
    else match foreign_pop_split s r with Some (p, q) => Some (e :: p, q) | None => None end
  end.
Definition pop_to_html_or_integration_point : M unit :=
  s <- get ;;
  match foreign_pop_split s (rev (open_elems s)) with
  | Some (popped, rest) =>
    when (negb (match popped with [] => true | _ => false end)) (probe 39) ;;
    modify (set_open_elems (rev rest)) ;;
    mapM_ (fun e => emit (OpPop e)) popped
  | None =>
    (* every element is popped (with its sink.pop), then current_node() panics *)
    mapM_ (fun e => emit (OpPop e)) (rev (open_elems s)) ;; panic 9
  end.

(* ---------- data.rs doctype_error_and_quirks ---------- *)
Definition ostr_is (o : option str) (x : str) : bool :=
  match o with Some y => str_eqb x y | None => false end.
Definition contains_pfx (haystack : list str) (needle : str) : bool :=
  existsb (fun x => starts_with needle x) haystack.
Definition str_mem (x : str) (l : list str) : bool := existsb (str_eqb x) l.

(* [srcdoc_first]: WHATWG order of the tests (deviation 8); [silmaril]: the public-id prefix
   "+//silmaril//dtd html pro v0r11 19970101//" of the standard's list that data.rs lacks (deviation 13) *)
Definition doctype_error_and_quirks (srcdoc_first silmaril : bool) (name pub sys : option str)
           (force_quirks iframe_srcdoc : bool) : bool * N :=
  let err := negb (existsb (fun t => ostr_eqb (fst (fst t)) name && ostr_eqb (snd (fst t)) pub &&
                                     ostr_eqb (snd t) sys) ok_doctypes) in
  let public := option_map to_ascii_lowercase pub in
  let system := option_map to_ascii_lowercase sys in
  let quirk : N :=
    if srcdoc_first && iframe_srcdoc then 2%N
    else if force_quirks then 0%N
    else if negb (ostr_is name (nm "html")) then 0%N
    else if iframe_srcdoc then 2%N
    else if match public with Some p => str_mem p quirky_public_matches | None => false end then 0%N
    else if match system with Some s => str_mem s quirky_system_matches | None => false end then 0%N
    else if match public with
            | Some p => contains_pfx quirky_public_prefixes p ||
                        (silmaril && starts_with p (nm "+//silmaril//dtd html pro v0r11 19970101//"))
            | None => false
            end then 0%N
    else if match public with Some p => contains_pfx limited_quirky_public_prefixes p | None => false end then 1%N
    else if match public with Some p => contains_pfx html4_public_prefixes p | None => false end then
      match system with None => 0%N | Some _ => 1%N end
    else 2%N in
  (err, quirk).

(* ---------- the <meta> part of the in-head arm (rules.rs:192-220) ---------- *)
Definition extract_encoding (content : str) : M (option str) :=
  match MetaModel.extract_impl (Utf8.encs content) with
  | MetaModel.XNone => ret None
  | MetaModel.XSome l =>
    match Utf8.decs l with Some x => ret (Some x) | None => panic 47 end
  | MetaModel.XPanic => panic 47
  | MetaModel.XFuel => out_of_fuel
  end.

Definition meta_like_result (t : tag) : M presult :=
  match get_attribute t (nm "charset") with
  | Some charset => probe 49 ;; ret (PEncoding charset)
  | None =>
    if match get_attribute t (nm "http-equiv") with
       | Some v => eq_ignore_ascii_case v (nm "content-type")
       | None => false
       end
    then
      match get_attribute t (nm "content") with
      | Some c =>
        r <- extract_encoding c ;;
        match r with Some e => probe 50 ;; ret (PEncoding e) | None => ret DoneAckSelfClosing end
      | None => ret DoneAckSelfClosing
      end
    else ret DoneAckSelfClosing
  end.
