(* ========================================================================
   TreeInvSetters.v - how [TInv] is transported along the elementary state
   changes of the model: new sink handles, changes of the stack of open
   elements (push, shrink to a prefix, remove / replace / insert one element),
   of the list of active formatting elements, of the modes and pointers.
   ======================================================================== *)
From Coq Require Import List NArith Bool Arith Lia String.
From HV Require Import Dom.DomSpec Tree.TreeTypes Tree.TreeTables Tree.TreeModelHelpers Tree.TreeModelRules
  Tree.TreeModel Tree.TreeHoare Tree.TreeInvDefs.
Import ListNotations.
Open Scope string_scope.
Open Scope list_scope.
Notation length := List.length (only parsing).

(* ---------- list facts ---------- *)
Lemma vlast_app {A} (l : list A) x : vlast (l ++ [x]) = Some x.
Proof. induction l as [|a t IH]; simpl; [reflexivity|]. destruct (t ++ [x]) eqn:E; [destruct t; discriminate|]. exact IH. Qed.

Lemma vlast_some_split {A} (l : list A) x : vlast l = Some x -> l = removelast l ++ [x].
Proof.
  induction l as [|a t IH]; simpl; [discriminate|]. destruct t as [|b t'].
  - intro H; injection H as ->. reflexivity.
  - intro H. specialize (IH H). simpl in IH. simpl. rewrite <- IH. reflexivity.
Qed.

Lemma vlast_none {A} (l : list A) : vlast l = None -> l = [].
Proof. induction l as [|a t IH]; simpl; [reflexivity|]. destruct t; [discriminate|]. intro H. apply IH in H. discriminate. Qed.

Lemma vlast_rev {A} (l : list A) : vlast l = hd_error (rev l).
Proof.
  destruct (vlast l) eqn:E.
  - rewrite (vlast_some_split _ _ E) at 1. rewrite rev_app_distr. reflexivity.
  - apply vlast_none in E. subst. reflexivity.
Qed.

Lemma filter_length_firstn {A} (f : A -> bool) k (l : list A) :
  length (filter f (firstn k l)) <= length (filter f l).
Proof.
  revert k. induction l as [|a t IH]; intro k; destruct k; simpl; try lia.
  destruct (f a); simpl; specialize (IH k); lia.
Qed.

Lemma filter_length_app {A} (f : A -> bool) (l1 l2 : list A) :
  length (filter f (l1 ++ l2)) = length (filter f l1) + length (filter f l2).
Proof. rewrite filter_app, app_length. reflexivity. Qed.

Lemma filter_length_skipn {A} (f : A -> bool) k (l : list A) :
  length (filter f (skipn k l)) <= length (filter f l).
Proof.
  rewrite <- (firstn_skipn k l) at 2. rewrite filter_length_app. lia.
Qed.

Lemma filter_length_vremove {A} (f : A -> bool) k (l : list A) :
  length (filter f (vremove k l)) <= length (filter f l).
Proof.
  unfold vremove. rewrite filter_length_app.
  rewrite <- (firstn_skipn k l) at 3. rewrite filter_length_app.
  assert (length (filter f (skipn (S k) l)) <= length (filter f (skipn k l))).
  { clear. revert k. induction l as [|a t IH]; intro k; destruct k; simpl; try lia.
    - destruct (f a); simpl; lia.
    - apply IH. }
  lia.
Qed.

Lemma In_firstn {A} (x : A) k l : In x (firstn k l) -> In x l.
Proof. intro H. rewrite <- (firstn_skipn k l). apply in_or_app. left; exact H. Qed.
Lemma In_skipn {A} (x : A) k l : In x (skipn k l) -> In x l.
Proof. intro H. rewrite <- (firstn_skipn k l). apply in_or_app. right; exact H. Qed.
Lemma In_vremove {A} (x : A) k l : In x (vremove k l) -> In x l.
Proof. unfold vremove. intro H. apply in_app_or in H. destruct H; [eapply In_firstn | eapply In_skipn]; eauto. Qed.

(* ---------- the sink view only grows ---------- *)
(* [sv'] extends the sink view of [s] by one handle *)
Definition sv_extends (s : st) (sv' : sview) (e : option einfo) : Prop :=
  sv_elems sv' = sv_elems (sv s) ++ [e].

Lemma einfo_ext_old s sv' e h : sv_extends s sv' e -> known s h -> einfo_of (set_sv sv' s) h = einfo_of s h.
Proof.
  intros E L. apply known_lt in L. unfold sv_extends, next_handle, einfo_of in *. simpl. rewrite E.
  rewrite app_nth1; [reflexivity | exact L].
Qed.
Lemma einfo_ext_new s sv' e : sv_extends s sv' e -> einfo_of (set_sv sv' s) (next_handle s) = e.
Proof.
  unfold sv_extends, next_handle, einfo_of. simpl. intros E. rewrite E.
  rewrite app_nth2; [|lia]. rewrite Nat.sub_diag. reflexivity.
Qed.
Lemma ename_ext_old s sv' e h : sv_extends s sv' e -> known s h -> ename_of (set_sv sv' s) h = ename_of s h.
Proof. intros E L. unfold ename_of. rewrite (einfo_ext_old _ _ _ _ E L). reflexivity. Qed.
Lemma next_ext s sv' e : sv_extends s sv' e -> next_handle (set_sv sv' s) = S (next_handle s).
Proof. unfold sv_extends, next_handle. simpl. intro E. rewrite E, app_length. simpl. lia. Qed.

Lemma einfo_known s h e : einfo_of s h = Some e -> known s h.
Proof. intro H. exists e. exact H. Qed.

Definition einfo_flag_ok (e : option einfo) : Prop :=
  forall e', e = Some e' -> e_tmpl e' = ename_eqb (e_ns e', e_local e') (ns_html, nm "template").

Lemma known_handles_in s h : known_ok s -> In h (state_handles s) -> known s h.
Proof. intros [A _] H. rewrite Forall_forall in A. apply A. exact H. Qed.

Lemma in_handles_stack s h : In h (open_elems s) -> In h (state_handles s).
Proof. intro H. unfold state_handles. apply in_or_app. left. exact H. Qed.
Lemma in_handles_af s h t : In (FElem h t) (active_formatting s) -> In h (state_handles s).
Proof.
  intro H. unfold state_handles. apply in_or_app. right. apply in_or_app. left.
  unfold af_handles. apply in_flat_map. exists (FElem h t). split; [exact H | left; reflexivity].
Qed.
Lemma in_handles_head s h : head_elem s = Some h -> In h (state_handles s).
Proof. intro H. unfold state_handles. do 2 (apply in_or_app; right). apply in_or_app. left. rewrite H. left; reflexivity. Qed.
Lemma in_handles_form s h : form_elem s = Some h -> In h (state_handles s).
Proof. intro H. unfold state_handles. do 3 (apply in_or_app; right). apply in_or_app. left. rewrite H. left; reflexivity. Qed.
Lemma in_handles_ctx s h : context_elem s = Some h -> In h (state_handles s).
Proof. intro H. unfold state_handles. do 4 (apply in_or_app; right). rewrite H. left; reflexivity. Qed.

(* a creating operation: the event and the extension of the sink view go together *)
Lemma TInv_sv_ext s sv' e op :
  TInv s -> sv_extends s sv' e -> einfo_flag_ok e ->
  significant (EvOp op) = true -> ev_sv (EvOp op) (sv s) = sv' -> op_okb (sv s) op = true ->
  TInv (set_sv sv' (set_out (EvOp op :: out s) s)).
Proof.
  intros [I1 I2 I3 I4 I5 I6 I7 I8 I9 I10 I11 I12 I13] E F Sg Esv Ok.
  set (s' := set_sv sv' (set_out (EvOp op :: out s) s)).
  assert (E' : sv_extends s (sv s') e) by exact E.
  assert (EO : forall h, known s h -> einfo_of s' h = einfo_of s h).
  { intros h K. exact (einfo_ext_old s sv' e h E K). }
  assert (EN : forall h, In h (state_handles s) -> ename_of s' h = ename_of s h).
  { intros h H. unfold ename_of. rewrite EO; [reflexivity | apply known_handles_in; assumption]. }
  assert (NX : next_handle s' = S (next_handle s)) by exact (next_ext s sv' e E).
  constructor.
  - intros h e0 H.
    destruct (Nat.lt_ge_cases h (next_handle s)) as [L|G].
    + assert (X : einfo_of s' h = einfo_of s h).
      { unfold einfo_of, s', next_handle in *. simpl. rewrite E. rewrite app_nth1; [reflexivity | exact L]. }
      rewrite X in H. apply I1 in H. exact H.
    + destruct (Nat.eq_dec h (next_handle s)) as [->|N].
      * assert (X : einfo_of s' (next_handle s) = e) by exact (einfo_ext_new s sv' e E).
        rewrite X in H. apply F. exact H.
      * assert (K : known s' h) by (exists e0; exact H). apply known_lt in K. rewrite NX in K. lia.
  - destruct I2 as [A B]. split.
    + change (state_handles s') with (state_handles s).
      eapply Forall_impl; [|exact A]. intros a [ea Ha]. exists ea. rewrite EO; [exact Ha | exists ea; exact Ha].
    + rewrite NX. lia.
  - unfold root_ok in *. change (mode s') with (mode s). change (open_elems s') with (open_elems s).
    destruct (early_mode (mode s)); [exact I3|].
    destruct I3 as (r & rest & Er & N). exists r, rest. split; [exact Er|].
    rewrite EN; [exact N|]. apply in_handles_stack. rewrite Er. left; reflexivity.
  - exact I4.
  - exact I5.
  - unfold af_ok in *. change (active_formatting s') with (active_formatting s).
    intros h t H. rewrite EN; [apply I6; exact H | eapply in_handles_af; exact H].
  - unfold tm_ok, tcount in *. change (open_elems s') with (open_elems s).
    change (context_elem s') with (context_elem s).
    change (template_modes s') with (template_modes s).
    replace (filter (is_template s') (open_elems s)) with (filter (is_template s) (open_elems s)).
    2:{ apply filter_ext_in. intros a Ha. unfold is_template, html_elem_named_b.
        rewrite EN; [reflexivity | apply in_handles_stack; exact Ha]. }
    destruct (context_elem s) as [c|] eqn:Ec; [|exact I7].
    unfold is_template at 2, html_elem_named_b. rewrite EN; [exact I7 | apply in_handles_ctx; exact Ec].
  - exact I8.
  - unfold headstack_ok in *. change (open_elems s') with (open_elems s). change (head_elem s') with (head_elem s).
    intros (h & A & B). apply I9. exists h. split; [exact A|].
    rewrite <- EN; [exact B | apply in_handles_stack; exact A].
  - destruct I10 as [A B]. split.
    + change (head_elem s') with (head_elem s). intros h H. rewrite EN; [apply A; exact H | apply in_handles_head; exact H].
    + change (form_elem s') with (form_elem s). intros f H. rewrite EN; [apply B; exact H | apply in_handles_form; exact H].
  - exact I11.
  - unfold sync_ok in *. change (out s') with (EvOp op :: out s). change (sv s') with sv'.
    rewrite (sig_cons_sig _ _ Sg). cbn [tsv]. rewrite I12. exact Esv.
  - unfold trace_ok in *. change (out s') with (EvOp op :: out s). rewrite (sig_cons_sig _ _ Sg). cbn [trace_okb ev_okb].
    unfold sync_ok in I12. rewrite I12, Ok, I13. reflexivity.
Qed.

(* ---------- changing the stack of open elements ---------- *)
Definition tcount_of (s : st) (st' : list handle) : nat :=
  length (filter (is_template s) st') +
  match context_elem s with Some c => if is_template s c then 1 else 0 | None => 0 end.

Lemma TInv_set_stack s st' :
  TInv s -> early_mode (mode s) = false ->
  (exists r rest, st' = r :: rest /\ ename_of s r = html_html) ->
  Forall (known s) st' ->
  tcount_of s st' <= length (template_modes s) ->
  ((exists h, In h st' /\ ename_of s h = (ns_html, nm "head")) -> head_elem s <> None) ->
  TInv (set_open_elems st' s).
Proof.
  intros [I1 I2 I3 I4 I5 I6 I7 I8 I9 I10 I11] Em R K T H.
  constructor; try assumption.
  - destruct I2 as [A B]. split; [|exact B].
    unfold state_handles in *. simpl. pose proof A as A1.
    apply Forall_app in A1. destruct A1 as [_ A2]. apply Forall_app. split; [exact K | exact A2].
  - unfold root_ok. simpl. rewrite Em. exact R.
Qed.

(* shrinking to a prefix that keeps the root *)
Lemma TInv_truncate s k :
  TInv s -> early_mode (mode s) = false -> 1 <= k ->
  TInv (set_open_elems (firstn k (open_elems s)) s).
Proof.
  intros I Em K. pose proof I as [I1 I2 I3 I4 I5 I6 I7 I8 I9 I10 I11].
  apply TInv_set_stack; try assumption.
  - unfold root_ok in I3. rewrite Em in I3. destruct I3 as (r & rest & E & N). rewrite E.
    destruct k; [lia|]. simpl. exists r, (firstn k rest). split; [reflexivity | exact N].
  - destruct I2 as [A _]. unfold state_handles in A. pose proof A as A1.
    apply Forall_app in A1. destruct A1 as [A1 _]. rewrite Forall_forall in *. intros h H. apply A1.
    eapply In_firstn; exact H.
  - unfold tm_ok, tcount in I7. unfold tcount_of. pose proof (filter_length_firstn (is_template s) k (open_elems s)). lia.
  - intros (h & A & B). apply I9. exists h. split; [eapply In_firstn; exact A | exact B].
Qed.

(* removing one element other than the root *)
Lemma TInv_vremove s k :
  TInv s -> early_mode (mode s) = false -> 1 <= k ->
  TInv (set_open_elems (vremove k (open_elems s)) s).
Proof.
  intros I Em K. pose proof I as [I1 I2 I3 I4 I5 I6 I7 I8 I9 I10 I11].
  apply TInv_set_stack; try assumption.
  - unfold root_ok in I3. rewrite Em in I3. destruct I3 as (r & rest & E & N). rewrite E.
    destruct k; [lia|]. unfold vremove. simpl. exists r, (firstn k rest ++ skipn (S k) rest). split; [reflexivity | exact N].
  - destruct I2 as [A _]. unfold state_handles in A. pose proof A as A1.
    apply Forall_app in A1. destruct A1 as [A1 _]. rewrite Forall_forall in *. intros h H. apply A1.
    eapply In_vremove; exact H.
  - unfold tm_ok, tcount in I7. unfold tcount_of. pose proof (filter_length_vremove (is_template s) k (open_elems s)). lia.
  - intros (h & A & B). apply I9. exists h. split; [eapply In_vremove; exact A | exact B].
Qed.

(* pushing a known element whose name is neither `head` nor `template` *)
Lemma TInv_push s h :
  TInv s -> early_mode (mode s) = false -> known s h ->
  ename_of s h <> (ns_html, nm "head") -> ename_of s h <> (ns_html, nm "template") ->
  TInv (set_open_elems (vpush (open_elems s) h) s).
Proof.
  intros I Em K NH NT. pose proof I as [I1 I2 I3 I4 I5 I6 I7 I8 I9 I10 I11].
  apply TInv_set_stack; try assumption.
  - unfold root_ok in I3. rewrite Em in I3. destruct I3 as (r & rest & E & N). rewrite E.
    unfold vpush. simpl. exists r, (rest ++ [h]). split; [reflexivity | exact N].
  - destruct I2 as [A _]. unfold state_handles in A. pose proof A as A1.
    apply Forall_app in A1. destruct A1 as [A1 _]. unfold vpush. apply Forall_app. split; [exact A1|].
    constructor; [exact K | constructor].
  - unfold tm_ok, tcount in I7. unfold tcount_of, vpush. rewrite filter_length_app. simpl.
    unfold is_template at 2, html_elem_named_b.
    destruct (ename_eqb (ename_of s h) (ns_html, nm "template")) eqn:Eq; [|simpl; lia].
    exfalso. apply NT. unfold ename_eqb in Eq. apply andb_true_iff in Eq. destruct Eq as [E1 E2].
    destruct (ename_of s h) as [a b]. simpl in *.
    assert (forall x y, str_eqb x y = true -> x = y) as SE.
    { induction x as [|c x IH]; destruct y as [|d y]; simpl; intro Hh; try discriminate; [reflexivity|].
      apply andb_true_iff in Hh. destruct Hh as [H1 H2]. apply N.eqb_eq in H1. subst. f_equal. apply IH. exact H2. }
    apply SE in E1. apply SE in E2. subst. reflexivity.
  - intros (x & A & B). unfold vpush in A. apply in_app_or in A. destruct A as [A|[<-|[]]].
    + apply I9. exists x. split; assumption.
    + contradiction.
Qed.
