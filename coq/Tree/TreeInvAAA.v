(* ========================================================================
   TreeInvAAA.v - the adoption agency algorithm (and handle_misnested_a_tags)
   preserves [TInv] and never reaches one of its Panic sites 10-21, 46: the
   index / bookmark arithmetic of mod.rs:713-921 is safe for every stack of
   open elements and list of active formatting elements allowed by TInv.
   ======================================================================== *)
From Coq Require Import List NArith Bool Arith Lia String.
From HV Require Import Dom.DomSpec Tree.TreeTypes Tree.TreeTables Tree.TreeModelHelpers Tree.TreeModelRules
  Tree.TreeModel Tree.TreeHoare Tree.TreeInvDefs Tree.TreeInvSetters Tree.TreeInvPrims Tree.TreeInvHelpers.
Import ListNotations.
Open Scope string_scope.
Open Scope list_scope.
Notation length := List.length (only parsing).

(* ---------- position / rposition ---------- *)
Lemma position_some {A} (p : A -> bool) l : forall i, position p l = Some i ->
  exists x, nth_error l i = Some x /\ p x = true.
Proof.
  induction l as [|a t IH]; intros i H; simpl in H; [discriminate|].
  destruct (p a) eqn:Pa.
  - injection H as <-. exists a. split; [reflexivity | exact Pa].
  - destruct (position p t) as [j|] eqn:E; [|discriminate]. injection H as <-.
    destruct (IH _ eq_refl) as (x & A1 & A2). exists x. split; assumption.
Qed.
Lemma position_of_In {A} (p : A -> bool) l x : In x l -> p x = true -> exists i, position p l = Some i.
Proof.
  induction l as [|a t IH]; intros H Px; [contradiction|]. simpl.
  destruct (p a) eqn:Pa; [eauto|]. destruct H as [->|H]; [congruence|].
  destruct (IH H Px) as [i E]. rewrite E. simpl. eauto.
Qed.
Lemma rposition_some {A} (p : A -> bool) l : forall i, rposition p l = Some i ->
  exists x, nth_error l i = Some x /\ p x = true.
Proof.
  induction l as [|a t IH]; intros i H; simpl in H; [discriminate|].
  destruct (rposition p t) as [j|] eqn:E.
  - injection H as <-. destruct (IH _ eq_refl) as (x & A1 & A2). exists x. split; assumption.
  - destruct (p a) eqn:Pa; [|discriminate]. injection H as <-. exists a. split; [reflexivity | exact Pa].
Qed.
Lemma rposition_of_In {A} (p : A -> bool) l x : In x l -> p x = true -> exists i, rposition p l = Some i.
Proof.
  induction l as [|a t IH]; intros H Px; [contradiction|]. simpl.
  destruct H as [->|H].
  - destruct (rposition p t); [eauto|]. rewrite Px. eauto.
  - destruct (IH H Px) as [i E]. rewrite E. eauto.
Qed.

Lemma nth_error_vremove_lt {A} (l : list A) k j : j < k -> nth_error (vremove k l) j = nth_error l j.
Proof.
  intro L. unfold vremove. destruct (Nat.lt_ge_cases j (length (firstn k l))) as [Lt|Ge].
  - rewrite nth_error_app1; [|exact Lt]. apply nth_error_firstn_lt. exact L.
  - rewrite firstn_length in Ge. (* k > length l *)
    assert (length l <= j) by lia.
    rewrite (proj2 (nth_error_None l j)); [|lia].
    apply nth_error_None. rewrite app_length, firstn_length, skipn_length. lia.
Qed.
Lemma nth_error_vremove_ge {A} (l : list A) k j : k <= j -> k < length l -> nth_error (vremove k l) j = nth_error l (S j).
Proof.
  intros L Lk. unfold vremove. rewrite nth_error_app2; [|rewrite firstn_length; lia].
  rewrite firstn_length, Nat.min_l; [|lia]. rewrite nth_error_skipn_add. f_equal. lia.
Qed.
Lemma vremove_length {A} (l : list A) k : k < length l -> length (vremove k l) = length l - 1.
Proof. intro L. unfold vremove. rewrite app_length, firstn_length, skipn_length. lia. Qed.
Lemma nth_error_vset_same {A} (l : list A) k x : k < length l -> nth_error (vset k x l) k = Some x.
Proof.
  intro L. unfold vset. rewrite nth_error_app2; [|rewrite firstn_length; lia].
  rewrite firstn_length, Nat.min_l; [|lia]. rewrite Nat.sub_diag. reflexivity.
Qed.
Lemma In_vset {A} (l : list A) k x y : In y (vset k x l) -> y = x \/ In y l.
Proof.
  unfold vset. intro H. apply in_app_or in H. destruct H as [H|[H|H]]; [right; eapply In_firstn; exact H | left; auto | right; eapply In_skipn; exact H].
Qed.
Lemma In_vinsert {A} (l : list A) k x y : In y (vinsert k x l) -> y = x \/ In y l.
Proof.
  unfold vinsert. intro H. apply in_app_or in H. destruct H as [H|[H|H]]; [right; eapply In_firstn; exact H | left; auto | right; eapply In_skipn; exact H].
Qed.
Lemma In_vinsert_old {A} (l : list A) k x y : In y l -> In y (vinsert k x l).
Proof.
  intro H. unfold vinsert. rewrite <- (firstn_skipn k l) in H. apply in_app_or in H. apply in_or_app.
  destruct H; [left; assumption | right; right; assumption].
Qed.
Lemma In_vremove_other {A} (l : list A) k x y : In x l -> nth_error l k = Some y -> x <> y -> In x (vremove k l).
Proof.
  intros H E N. unfold vremove. rewrite <- (firstn_skipn k l) in H. apply in_app_or in H. apply in_or_app.
  destruct H as [H|H]; [left; exact H|]. right.
  destruct (skipn k l) as [|z r] eqn:Es; [contradiction|].
  assert (z = y).
  { pose proof (nth_error_skipn_add l k 0) as X. rewrite Es in X. simpl in X. rewrite Nat.add_0_r in X. congruence. }
  subst z. destruct H as [H|H]; [congruence|].
  replace (skipn (S k) l) with r; [exact H|].
  clear -Es. revert k Es. induction l as [|a t IH]; intros [|k] Es; simpl in *; try discriminate; [injection Es as _ <-; reflexivity | apply IH; exact Es].
Qed.

(* ---------- stack changes in place ---------- *)
Lemma firstn_cons_root {A} (r : A) rest k : 1 <= k -> exists tl, firstn k (r :: rest) = r :: tl.
Proof. intro L. destruct k; [lia|]. simpl. eauto. Qed.

Lemma filter_length_skipn_S {A} (f : A -> bool) (l : list A) : forall k,
  length (filter f (skipn (S k) l)) <= length (filter f (skipn k l)).
Proof.
  induction l as [|a t IH]; intro k; destruct k; simpl; try lia.
  - destruct (f a); simpl; lia.
  - apply IH.
Qed.
Lemma filter_length_vset {A} (f : A -> bool) (l : list A) k x :
  f x = false -> length (filter f (vset k x l)) <= length (filter f l).
Proof.
  intro Fx. unfold vset. rewrite filter_length_app.
  change (filter f (x :: skipn (S k) l)) with (if f x then x :: filter f (skipn (S k) l) else filter f (skipn (S k) l)).
  rewrite Fx. rewrite <- (firstn_skipn k l) at 3. rewrite filter_length_app.
  pose proof (filter_length_skipn_S f l k). lia.
Qed.
Lemma filter_length_vinsert {A} (f : A -> bool) (l : list A) k x :
  f x = false -> length (filter f (vinsert k x l)) = length (filter f l).
Proof.
  intro Fx. unfold vinsert. rewrite filter_length_app.
  change (filter f (x :: skipn k l)) with (if f x then x :: filter f (skipn k l) else filter f (skipn k l)).
  rewrite Fx. rewrite <- (firstn_skipn k l) at 3. rewrite filter_length_app. reflexivity.
Qed.

Lemma TInv_vset_stack s k h :
  TInv s -> late s -> 1 <= k -> k < length (open_elems s) -> known s h ->
  ename_of s h <> (ns_html, nm "head") -> ename_of s h <> (ns_html, nm "template") ->
  TInv (set_open_elems (vset k h (open_elems s)) s).
Proof.
  intros I L K1 K2 Kn N1 N2. pose proof I as [I1 I2 I3 I4 I5 I6 I7 I8 I9 I10 I11].
  destruct (TInv_stack_nonempty _ I L) as (r & rest & Er & Nr).
  apply TInv_set_stack; try assumption.
  - unfold vset. rewrite Er. destruct (firstn_cons_root r rest k K1) as [tl Et]. rewrite Et. simpl. eauto.
  - apply Forall_vset; [|exact Kn]. destruct I2 as [A _]. unfold state_handles in A. pose proof A as A1.
    apply Forall_app in A1. destruct A1 as [A1 _]. exact A1.
  - unfold tm_ok, tcount in I7. unfold tcount_of.
    assert (Hn : is_template s h = false).
    { unfold is_template, html_elem_named_b. destruct (ename_eqb (ename_of s h) (ns_html, nm "template")) eqn:E; [|reflexivity].
      apply ename_eqb_eq in E. contradiction. }
    pose proof (filter_length_vset (is_template s) (open_elems s) k h Hn). lia.
  - intros (x & A & B). apply In_vset in A. destruct A as [->|A]; [contradiction|]. apply I9. exists x. split; assumption.
Qed.

Lemma TInv_vinsert_stack s k h :
  TInv s -> late s -> 1 <= k -> k <= length (open_elems s) -> known s h ->
  ename_of s h <> (ns_html, nm "head") -> ename_of s h <> (ns_html, nm "template") ->
  TInv (set_open_elems (vinsert k h (open_elems s)) s).
Proof.
  intros I L K1 K2 Kn N1 N2. pose proof I as [I1 I2 I3 I4 I5 I6 I7 I8 I9 I10 I11].
  destruct (TInv_stack_nonempty _ I L) as (r & rest & Er & Nr).
  apply TInv_set_stack; try assumption.
  - unfold vinsert. rewrite Er. destruct (firstn_cons_root r rest k K1) as [tl Et]. rewrite Et. simpl. eauto.
  - apply Forall_vinsert; [|exact Kn]. destruct I2 as [A _]. unfold state_handles in A. pose proof A as A1.
    apply Forall_app in A1. destruct A1 as [A1 _]. exact A1.
  - unfold tm_ok, tcount in I7. unfold tcount_of.
    assert (Hn : is_template s h = false).
    { unfold is_template, html_elem_named_b. destruct (ename_eqb (ename_of s h) (ns_html, nm "template")) eqn:E; [|reflexivity].
      apply ename_eqb_eq in E. contradiction. }
    rewrite (filter_length_vinsert (is_template s) (open_elems s) k h Hn). lia.
  - intros (x & A & B). apply In_vinsert in A. destruct A as [->|A]; [contradiction|]. apply I9. exists x. split; assumption.
Qed.

Lemma keeps_stack_change s0 s st' :
  keeps s0 s -> TInv (set_open_elems st' s) -> keeps s0 (set_open_elems st' s).
Proof.
  intros [_ S] I. split; [exact I|]. eapply stable_trans; [exact S|]. apply stable_eqs; reflexivity.
Qed.

(* ---------- formatting elements are not special ---------- *)
Lemma formatting_not_special s n : is_formatting n = true -> is_special s (ns_html, n) = false.
Proof.
  intro F. unfold is_special.
  assert (A : in_set special_tag (ns_html, n) = false).
  { unfold is_formatting in F. apply existsb_exists in F. destruct F as (m & Hm & Em). apply str_eqb_eq in Em. subst m.
    vm_compute in Hm. repeat (destruct Hm as [<-|Hm]; [reflexivity|]). contradiction. }
  rewrite A. cbn [andb orb].
  assert (B : ename_eqb (ns_html, n) (ns_html, nm "search") = false).
  { destruct (ename_eqb (ns_html, n) (ns_html, nm "search")) eqn:E; [|reflexivity]. apply ename_eqb_eq in E. injection E as ->. discriminate. }
  rewrite B, andb_false_r. cbn [orb].
  assert (C : in_set mathml_text_integration_point (ns_html, n) = false) by reflexivity.
  assert (D : in_set svg_html_integration_point (ns_html, n) = false) by reflexivity.
  assert (E : ename_eqb (ns_html, n) (ns_mathml, nm "annotation-xml") = false) by reflexivity.
  rewrite C, D, E. cbn [orb]. apply andb_false_r.
Qed.

(* ---------- position_in_af ---------- *)
Lemma position_in_af_some s node p : position_in_af s node = Some p ->
  exists t, nth_error (active_formatting s) p = Some (FElem node t).
Proof.
  unfold position_in_af. intro H. apply position_some in H. destruct H as ([|h t] & A & B); [discriminate|].
  unfold same_node in B. apply Nat.eqb_eq in B. subst h. eauto.
Qed.
Lemma position_in_af_of_entry s x p t : nth_error (active_formatting s) p = Some (FElem x t) ->
  exists q, position_in_af s x = Some q.
Proof.
  intro H. unfold position_in_af. eapply position_of_In; [eapply nth_error_In; exact H|].
  unfold same_node. apply Nat.eqb_refl.
Qed.

Definition has_af_entry (s : st) (x : handle) : Prop := exists p t, nth_error (active_formatting s) p = Some (FElem x t).

Definition bm_ok (s : st) (ni : nat) (fe : handle) (bm : bookmark) : Prop :=
  match bm with
  | BmReplace r => r = fe
  | BmInsertAfter x => has_af_entry s x /\ forall j, j < ni -> nth_error (open_elems s) j <> Some x
  end.

Lemma has_af_entry_vremove s x p h t af' :
  has_af_entry s x -> nth_error (active_formatting s) p = Some (FElem h t) -> h <> x ->
  af' = vremove p (active_formatting s) ->
  exists q t', nth_error af' q = Some (FElem x t').
Proof.
  intros (q & tx & E) Ep N ->. assert (q <> p) by (intro; subst; congruence).
  pose proof (nth_error_lt _ _ _ Ep) as Lp.
  destruct (Nat.lt_ge_cases q p) as [Lt|Ge].
  - exists q, tx. rewrite nth_error_vremove_lt; assumption.
  - exists (q - 1), tx. rewrite nth_error_vremove_ge; [|lia|exact Lp]. replace (S (q - 1)) with q by lia. exact E.
Qed.
Lemma has_af_entry_vset s x p h t e af' :
  has_af_entry s x -> nth_error (active_formatting s) p = Some (FElem h t) -> h <> x ->
  af' = vset p e (active_formatting s) ->
  exists q t', nth_error af' q = Some (FElem x t').
Proof.
  intros (q & tx & E) Ep N ->. assert (q <> p) by (intro; subst; congruence).
  exists q, tx. rewrite nth_error_vset_other; [exact E | assumption | eapply nth_error_lt; exact Ep].
Qed.

Lemma keeps_vremove_stack s0 s k : keeps s0 s -> late s -> 1 <= k -> keeps s0 (set_open_elems (vremove k (open_elems s)) s).
Proof. intros K L Hk. apply keeps_stack_change; [exact K|]. destruct K as [I _]. apply TInv_vremove; assumption. Qed.

(* ---------- the inner loop (steps 13.2 - 13.11) ---------- *)
Lemma wp_aaa_inner s0 fe fb fsi (Q : handle * bookmark -> st -> Prop) :
  1 <= fsi -> fb <> fe ->
  (forall ln bm' s', keeps s0 s' -> late s' ->
      nth_error (open_elems s') fsi = Some fe -> In fb (open_elems s') ->
      has_af_entry s' fe -> bm_ok s' 0 fe bm' -> known s' ln -> Q (ln, bm') s') ->
  forall node_index counter s last_node bm,
  keeps s0 s -> late s -> known s last_node ->
  fsi < node_index -> node_index <= length (open_elems s) ->
  nth_error (open_elems s) fsi = Some fe ->
  (exists j, node_index <= j /\ nth_error (open_elems s) j = Some fb) ->
  has_af_entry s fe ->
  bm_ok s node_index fe bm ->
  wp (aaa_inner node_index counter fe fb last_node bm) Q s.
Proof.
  intros Hfsi Nfb H. induction node_index as [|ni IH]; intros counter s last_node bm K L Kl Lo Hi Efe (jb & Ljb & Efb) Afe Bm; [lia|].
  cbn [aaa_inner]. rewrite wp_bind, wp_get, wp_bind, wp_unwrap.
  destruct (nth_error (open_elems s) ni) as [node|] eqn:En; [|apply nth_error_None in En; lia].
  exists node. split; [reflexivity|].
  assert (Bm0 : forall s', open_elems s' = open_elems s -> active_formatting s' = active_formatting s -> bm_ok s' 0 fe bm).
  { intros s' E1 E2. destruct bm as [r|x]; [exact Bm|]. destruct Bm as [(p & t & Ep) _]. split; [exists p, t; rewrite E2; exact Ep | intros j Hj; lia]. }
  destruct (same_node node fe) eqn:Snf.
  { rewrite wp_ret. apply H; try assumption; [eapply nth_error_In; exact Efb | apply Bm0; reflexivity]. }
  assert (Nnf : node <> fe) by (intro X; subst; unfold same_node in Snf; rewrite Nat.eqb_refl in Snf; discriminate).
  assert (Nif : ni <> fsi) by (intro X; subst; congruence).
  assert (Lni : fsi < ni) by lia.
  pose proof (nth_error_lt _ _ _ En) as Lnl.
  (* removing stack entry ni *)
  assert (RemoveStack : forall s1 cnt, keeps s0 s1 -> late s1 -> known s1 last_node -> open_elems s1 = open_elems s ->
            has_af_entry s1 fe -> bm_ok s1 (S ni) fe bm ->
            wp (modify (fun s => set_open_elems (vremove ni (open_elems s)) s) ;;
                aaa_inner ni cnt fe fb last_node bm) Q s1).
  { intros s1 cnt K1 L1 Kl1 E1 A1 B1. rewrite wp_bind, wp_modify.
    apply IH.
    - apply keeps_vremove_stack; [exact K1 | exact L1 | lia].
    - exact L1.
    - exact Kl1.
    - exact Lni.
    - cbn [open_elems set_open_elems]. rewrite E1, vremove_length; lia.
    - cbn [open_elems set_open_elems]. rewrite E1, nth_error_vremove_lt; assumption.
    - cbn [open_elems set_open_elems]. rewrite E1. exists (jb - 1). split; [lia|].
      rewrite nth_error_vremove_ge; [|lia|exact Lnl]. replace (S (jb - 1)) with jb by lia. exact Efb.
    - exact A1.
    - destruct bm as [r|x]; [exact B1|]. destruct B1 as [Bx By]. split; [exact Bx|].
      cbn [open_elems set_open_elems]. rewrite E1. intros j Hj. rewrite nth_error_vremove_lt; [|exact Hj].
      rewrite <- E1. apply By. lia. }
  destruct (Nat.ltb 3 (S counter)).
  - rewrite wp_bind. apply wp_probe. rewrite wp_bind.
    set (s1 := set_out _ s).
    assert (K1 : keeps s0 s1) by ((apply keeps_set_out; [|reflexivity]); exact K).
    destruct (position_in_af s node) as [p|] eqn:Ep.
    + rewrite wp_modify. destruct (position_in_af_some _ _ _ Ep) as [t Et].
      apply RemoveStack.
      * apply keeps_set_af; [exact K1|]. apply Forall_vremove. destruct K1 as [I1 _]. apply TInv_af_entries. exact I1.
      * exact L.
      * exact Kl.
      * reflexivity.
      * unfold has_af_entry. cbn [active_formatting set_active_formatting s1 set_out].
        eapply has_af_entry_vremove; [exact Afe | exact Et | exact Nnf | reflexivity].
      * destruct bm as [r|x]; [exact Bm|]. destruct Bm as [Bx By]. split; [|exact By].
        unfold has_af_entry. cbn [active_formatting set_active_formatting s1 set_out].
        eapply has_af_entry_vremove; [exact Bx | exact Et | | reflexivity].
        intro X. subst x. apply (By ni); [lia | exact En].
    + rewrite wp_ret. apply RemoveStack; [exact K1 | exact L | exact Kl | reflexivity | exact Afe | exact Bm].
  - destruct (position_in_af s node) as [nfi|] eqn:Ep.
    2:{ rewrite wp_bind. apply wp_probe. apply RemoveStack; [(apply keeps_set_out; [|reflexivity]); exact K | exact L | exact Kl | reflexivity | exact Afe | exact Bm]. }
    destruct (position_in_af_some _ _ _ Ep) as [t Et].
    rewrite wp_bind, wp_unwrap. exists (FElem node t). split; [exact Et|].
    rewrite wp_bind, wp_assert. split; [unfold same_node; apply Nat.eqb_refl|].
    rewrite wp_bind. apply wp_probe. rewrite wp_bind. unfold wp at 1. rewrite sink_create_element_eq.
    set (s1 := set_out _ s). set (new := next_handle s1). set (s2 := new_elem_state _ _ _ s1).
    assert (K2 : keeps s0 s2) by (apply new_elem_keeps; (apply keeps_set_out; [|reflexivity]); exact K).
    assert (L2 : late s2) by exact L.
    pose proof K as [I S].
    destruct (inv_af _ I _ _ (nth_error_In _ _ Et)) as [_ Ft].
    assert (Kn : known s2 new) by apply new_elem_known.
    assert (Enew : ename_of s2 new = (ns_html, tg_name t)) by apply new_elem_name.
    assert (Fresh : forall j, nth_error (open_elems s) j <> Some new).
    { intros j X. apply nth_error_In in X. pose proof (known_lt _ _ (TInv_stack_known _ _ I X)) as Kx. unfold new, s1, next_handle in *. simpl in *. lia. }
    rewrite wp_bind, wp_get, wp_bind, wp_assert. split; [apply Nat.ltb_lt; exact Lnl|].
    rewrite wp_bind, wp_assert. split; [apply Nat.ltb_lt; eapply nth_error_lt; exact Et|].
    rewrite wp_bind, wp_modify, wp_bind, wp_emit, wp_bind, wp_emit.
    cbn [open_elems active_formatting].
    change (open_elems s2) with (open_elems s). change (active_formatting s2) with (active_formatting s).
    set (s3 := set_active_formatting _ _).
    assert (K3 : keeps s0 s3).
    { unfold s3. apply keeps_set_af.
      - apply keeps_stack_change; [exact K2|]. destruct K2 as [I2 _].
        apply (TInv_vset_stack s2); [exact I2 | exact L2 | lia | exact Lnl | exact Kn | rewrite Enew; apply formatting_not_head; exact Ft | rewrite Enew; apply formatting_not_template; exact Ft].
      - apply Forall_vset; [destruct K2 as [I2 _]; exact (TInv_af_entries _ I2)|].
        simpl. repeat split; assumption. }
    assert (Kl3 : known s3 last_node).
    { change (known s2 last_node). eapply stable_known; [apply new_elem_stable | exact Kl]. }
    assert (K4 : keeps s0 (set_out (EvOp (OpRemoveFromParent last_node) :: out s3) s3)).
    { apply keeps_emit; [exact K3 | reflexivity | reflexivity | cbn [op_okb]; exact (known_v_known _ _ Kl3)]. }
    apply IH.
    + apply keeps_emit; [exact K4 | reflexivity | reflexivity |]. cbn [op_okb].
      change (sv (set_out (EvOp (OpRemoveFromParent last_node) :: out s3) s3)) with (sv s3).
      assert (Kn3 : known s3 new) by exact Kn.
      unfold v_container. rewrite (known_v_elem _ _ Kn3), orb_true_r. cbn [orb andb].
      exact (known_child_ok s3 last_node (proj1 K3) Kl3).
    + exact L.
    + exact Kn.
    + exact Lni.
    + cbn [open_elems set_out set_active_formatting set_open_elems s3]. rewrite vset_length; [lia | exact Lnl].
    + cbn [open_elems set_out set_active_formatting set_open_elems s3]. rewrite nth_error_vset_other; [exact Efe | lia | exact Lnl].
    + cbn [open_elems set_out set_active_formatting set_open_elems s3]. exists jb. split; [lia|].
      rewrite nth_error_vset_other; [exact Efb | lia | exact Lnl].
    + unfold has_af_entry. cbn [active_formatting set_out set_active_formatting s3].
      eapply has_af_entry_vset; [exact Afe | exact Et | exact Nnf | reflexivity].
    + cbn [bm_ok].
      assert (NewOk : has_af_entry (set_out (EvOp (OpAppend new (inl last_node)) :: out (set_out (EvOp (OpRemoveFromParent last_node) :: out s3) s3))
                                     (set_out (EvOp (OpRemoveFromParent last_node) :: out s3) s3)) new /\
                      forall j, j < ni -> nth_error (open_elems (set_out (EvOp (OpAppend new (inl last_node)) :: out (set_out (EvOp (OpRemoveFromParent last_node) :: out s3) s3))
                                     (set_out (EvOp (OpRemoveFromParent last_node) :: out s3) s3))) j <> Some new).
      { split.
        - exists nfi, t. cbn [active_formatting set_out set_active_formatting s3]. apply nth_error_vset_same. eapply nth_error_lt; exact Et.
        - intros j Hj. cbn [open_elems set_out set_active_formatting set_open_elems s3].
          rewrite nth_error_vset_other; [apply Fresh | lia | exact Lnl]. }
      destruct (same_node last_node fb); [exact NewOk|].
      destruct bm as [r|x]; [exact Bm|]. destruct Bm as [Bx By]. split.
      * unfold has_af_entry. cbn [active_formatting set_out set_active_formatting s3].
        eapply has_af_entry_vset; [exact Bx | exact Et | | reflexivity].
        intro X. subst x. apply (By ni); [lia | exact En].
      * intros j Hj. cbn [open_elems set_out set_active_formatting set_open_elems s3].
        rewrite nth_error_vset_other; [apply By; lia | lia | exact Lnl].
Qed.

(* ---------- one iteration of the outer loop ---------- *)
Lemma find_special_from_some s l i h : find_special_from s l = Some (i, h) -> In (i, h) l /\ is_special s (ename_of s h) = true.
Proof.
  induction l as [|[j x] r IH]; simpl; [discriminate|].
  destruct (is_special s (ename_of s x)) eqn:E.
  - intro H. injection H as <- <-. split; [left; reflexivity | exact E].
  - intro H. destruct (IH H) as [A B]. split; [right; exact A | exact B].
Qed.

Lemma In_skipn_combine_seq {A} (l : list A) k i e :
  In (i, e) (skipn k (combine (seq 0 (length l)) l)) -> k <= i /\ nth_error l i = Some e.
Proof.
  intro H.
  assert (G : forall (l : list A) a k i e, In (i, e) (skipn k (combine (seq a (length l)) l)) -> a + k <= i /\ nth_error l (i - a) = Some e).
  { clear. induction l as [|x t IH]; intros a k i e H; [destruct k; contradiction|].
    destruct k.
    - apply In_combine_seq in H. destruct H. split; [lia | assumption].
    - simpl in H. apply IH in H. destruct H as [H1 H2]. split; [lia|]. replace (i - a) with (S (i - S a)) by lia. exact H2. }
  apply G in H. rewrite Nat.sub_0_r in H. exact H.
Qed.

(* names of handles known in [s] do not change along [keeps s _] *)
Lemma keeps_name s s' h : keeps s s' -> known s h -> ename_of s' h = ename_of s h.
Proof. intros [_ S] K. apply stable_ename; assumption. Qed.
Lemma keeps_late s s' : keeps s s' -> late s -> late s'.
Proof. apply late_keeps. Qed.

Lemma wp_aaa_iteration s subject (Q : bool -> st -> Prop) :
  TInv s -> late s -> is_formatting subject = true ->
  (forall b s', keeps s s' -> Q b s') ->
  wp (aaa_iteration subject) Q s.
Proof.
  intros I L Fs H. pose proof (keeps_refl _ I) as K. unfold aaa_iteration. rewrite wp_bind, wp_get.
  assert (Nsub : subject <> nm "html") by (apply is_formatting_neq; [exact Fs | reflexivity]).
  destruct (find (fun x => str_eqb (tg_name (snd x)) subject) (af_end_to_marker s)) as [[[fei fe] fet]|] eqn:Ef.
  2:{ rewrite wp_bind. apply wp_probe. rewrite wp_bind.
      eapply wp_process_end_tag_in_body; [(apply keeps_set_out; [|reflexivity]); exact K | exact L | exact Nsub |].
      intros s' K'. rewrite wp_ret. apply H. exact K'. }
  apply find_some in Ef. destruct Ef as [Hin Hname]. cbn [snd] in Hname. apply str_eqb_eq in Hname.
  apply af_end_to_marker_nth in Hin.
  destruct (inv_af _ I _ _ (nth_error_In _ _ Hin)) as [Nfe Ffe].
  pose proof (nth_error_lt _ _ _ Hin) as Lfei.
  destruct (rposition (fun n => same_node n fe) (open_elems s)) as [fsi|] eqn:Er.
  2:{ rewrite wp_bind. apply wp_probe. rewrite wp_bind, wp_parse_error, wp_bind, wp_assert.
      split; [apply Nat.ltb_lt; exact Lfei|]. rewrite wp_bind, wp_modify, wp_ret. apply H.
      apply keeps_set_af; [(apply keeps_set_out; [|reflexivity]); (apply keeps_set_out; [|reflexivity]); exact K|]. apply Forall_vremove. exact (TInv_af_entries _ I). }
  apply rposition_some in Er. destruct Er as (x & Efe & Sx). unfold same_node in Sx. apply Nat.eqb_eq in Sx. subst x.
  assert (Kfe : known s fe) by (eapply TInv_stack_known; [exact I | eapply nth_error_In; exact Efe]).
  destruct (TInv_stack_nonempty _ I L) as (r & rest & Est & Nr).
  assert (Lfsi : 1 <= fsi).
  { eapply named_not_root; [exact Est | exact Nr | exact Efe | exact Nfe |]. rewrite Hname. exact Nsub. }
  destruct (negb (in_scope s default_scope (fun n => same_node n fe))).
  { rewrite wp_bind. apply wp_probe. rewrite wp_bind, wp_parse_error, wp_ret. apply H. (apply keeps_set_out; [|reflexivity]); (apply keeps_set_out; [|reflexivity]); exact K. }
  rewrite wp_bind. apply wp_current_node; [exact I | exact L |]. intros cur Vcur.
  rewrite wp_bind.
  match goal with |- wp (when _ _) (fun _ s' => wp ?m Q s') s =>
    assert (Cont : forall s1, keeps s s1 -> open_elems s1 = open_elems s -> active_formatting s1 = active_formatting s -> wp m Q s1)
  end.
  2:{ rewrite wp_when. destruct (negb (same_node cur fe)).
      - rewrite wp_bind. apply wp_probe. rewrite wp_parse_error.
        apply Cont; [(apply keeps_set_out; [|reflexivity]); (apply keeps_set_out; [|reflexivity]); exact K | reflexivity | reflexivity].
      - apply Cont; [exact K | reflexivity | reflexivity]. }
  intros s1 K1 E1 E2. pose proof K1 as [I1 S1].
  assert (L1 : late s1) by (eapply keeps_late; eassumption).
  destruct (find_special_from s _) as [[fbi fb]|] eqn:Efb.
  - (* a furthest block *)
    apply find_special_from_some in Efb. destruct Efb as [Hfb Spec].
    apply In_skipn_combine_seq in Hfb. destruct Hfb as [Lfbi Enfb].
    assert (Nfb : fb <> fe).
    { intro X. subst fb. rewrite Nfe in Spec. rewrite formatting_not_special in Spec; [discriminate | exact Ffe]. }
    assert (Lfbi' : fsi < fbi).
    { destruct (Nat.eq_dec fsi fbi) as [->|]; [congruence | lia]. }
    rewrite wp_bind. destruct fsi as [|i]; [lia|]. rewrite wp_unwrap.
    destruct (nth_error (open_elems s) i) as [ca|] eqn:Eca.
    2:{ apply nth_error_None in Eca. apply nth_error_lt in Efe. lia. }
    exists ca. split; [reflexivity|]. rewrite wp_bind.
    assert (Kfb : known s fb) by (eapply TInv_stack_known; [exact I | eapply nth_error_In; exact Enfb]).
    assert (Kca : known s ca) by (eapply TInv_stack_known; [exact I | eapply nth_error_In; exact Eca]).
    apply (wp_aaa_inner s fe fb (S i)); [lia | exact Nfb | | exact K1 | exact L1 | eapply stable_known; eassumption | exact Lfbi' | | | | |].
    2:{ rewrite E1. apply nth_error_lt in Enfb. lia. }
    2:{ rewrite E1. exact Efe. }
    2:{ rewrite E1. exists fbi. split; [lia | exact Enfb]. }
    2:{ exists fei, fet. rewrite E2. exact Hin. }
    2:{ reflexivity. }
    intros ln bm' s2 K2 L2 Efe2 Infb2 Afe2 Bm2 Kln.
    rewrite wp_bind, wp_emit, wp_bind.
    assert (K2' : keeps s (set_out (EvOp (OpRemoveFromParent ln) :: out s2) s2)).
    { apply keeps_emit; [exact K2 | reflexivity | reflexivity | cbn [op_okb]; exact (known_v_known _ _ Kln)]. }
    eapply wp_insert_appropriately; [exact K2' | exact L2 | apply known_child_ok; [exact (proj1 K2') | exact Kln] | |].
    { intros t0 Et0. injection Et0 as <-. change (known s2 ca). eapply stable_known; [exact (proj2 K2) | exact Kca]. }
    intros s3 K3 [E3a E3b]. rewrite wp_bind. unfold wp at 1. rewrite sink_create_element_eq.
    set (ne := next_handle s3). set (s4 := new_elem_state _ _ _ s3).
    assert (K4 : keeps s s4) by (apply new_elem_keeps; exact K3).
    assert (Kne : known s4 ne) by apply new_elem_known.
    assert (Ene : ename_of s4 ne = (ns_html, tg_name fet)) by apply new_elem_name.
    rewrite wp_bind, wp_emit, wp_bind, wp_emit.
    set (s5 := set_out _ (set_out _ s4)).
    assert (Kfb4 : known s4 fb) by (eapply stable_known; [exact (proj2 K4) | exact Kfb]).
    assert (K5 : keeps s s5).
    { unfold s5. apply keeps_emit; [apply keeps_emit; [exact K4 | reflexivity | reflexivity |] | reflexivity | reflexivity |]; cbn [op_okb].
      - rewrite (known_v_elem _ _ Kfb4), (known_v_elem _ _ Kne). reflexivity.
      - change (sv (set_out (EvOp (OpReparentChildren fb ne) :: out s4) s4)) with (sv s4).
        unfold v_container. rewrite (known_v_elem _ _ Kfb4), orb_true_r. cbn [orb andb].
        exact (known_child_ok s4 ne (proj1 K4) Kne). }
    assert (L5 : late s5) by (eapply keeps_late; eassumption).
    assert (E5a : open_elems s5 = open_elems s2) by (cbn; exact E3a).
    assert (E5b : active_formatting s5 = active_formatting s2) by (cbn; exact E3b).
    assert (Kne5 : known s5 ne) by exact Kne.
    assert (Ene5 : ename_of s5 ne = (ns_html, tg_name fet)) by exact Ene.
    assert (EntryOk : af_entry_ok s5 (FElem ne fet)) by (simpl; repeat split; assumption).
    (* after the bookmark update: only the formatting list (and `out`) changed *)
    assert (Tail : forall sb af6, keeps s sb -> late sb -> open_elems sb = open_elems s2 ->
       known sb ne -> ename_of sb ne = (ns_html, tg_name fet) -> Forall (af_entry_ok sb) af6 ->
       wp (remove_from_stack fe ;;
           s <- get ;;
           nfb <- unwrap (position (fun n => same_node n fb) (open_elems s)) 21 ;;
           modify (fun s => set_open_elems (vinsert (S nfb) ne (open_elems s)) s) ;; ret false) Q
          (set_active_formatting af6 sb)).
    { intros sb af6 Kb Lb Eb Kneb Eneb F6. set (s6 := set_active_formatting af6 sb).
      assert (K6 : keeps s s6) by (apply keeps_set_af; assumption).
      assert (L6 : late s6) by exact Lb.
      assert (E6 : open_elems s6 = open_elems s2) by exact Eb.
      rewrite wp_bind. unfold remove_from_stack. rewrite wp_bind, wp_get.
      destruct (rposition (same_node fe) (open_elems s6)) as [p|] eqn:Erp.
      2:{ exfalso. destruct (rposition_of_In (same_node fe) (open_elems s6) fe) as [q Eq]; [|unfold same_node; apply Nat.eqb_refl | congruence].
          rewrite E6. eapply nth_error_In; exact Efe2. }
      apply rposition_some in Erp. destruct Erp as (y & Ey & Sy). unfold same_node in Sy. apply Nat.eqb_eq in Sy. subst y.
      pose proof K6 as [I6 S6].
      destruct (TInv_stack_nonempty _ I6 L6) as (r6 & rest6 & Est6 & Nr6).
      assert (Lp : 1 <= p).
      { eapply named_not_root; [exact Est6 | exact Nr6 | exact Ey | rewrite (keeps_name _ _ _ K6 Kfe); exact Nfe | rewrite Hname; exact Nsub]. }
      pose proof (nth_error_lt _ _ _ Ey) as Lpl.
      rewrite wp_bind, wp_modify, wp_emit, wp_bind, wp_get.
      set (s7 := set_out _ (set_open_elems _ s6)).
      assert (K7 : keeps s s7).
      { unfold s7. apply keeps_emit; [apply keeps_vremove_stack; assumption | reflexivity | reflexivity |]. cbn [op_okb].
        apply known_v_elem. change (known s6 fe). eapply stable_known; [exact S6 | exact Kfe]. }
      assert (E7 : open_elems s7 = vremove p (open_elems s6)) by reflexivity.
      rewrite wp_bind, wp_unwrap.
      destruct (position_of_In (fun n => same_node n fb) (open_elems s7) fb) as [nfb Enfb'].
      { rewrite E7. eapply In_vremove_other; [rewrite E6; exact Infb2 | exact Ey | exact Nfb]. }
      { unfold same_node. apply Nat.eqb_refl. }
      exists nfb. split; [exact Enfb'|].
      apply position_some in Enfb'. destruct Enfb' as (z & Ez & _). apply nth_error_lt in Ez.
      rewrite wp_bind, wp_modify, wp_ret. apply H.
      apply keeps_stack_change; [exact K7|]. destruct K7 as [I7 S7].
      apply TInv_vinsert_stack; [exact I7 | exact L6 | lia | lia | | |].
      - exact Kneb.
      - change (ename_of s7 ne) with (ename_of sb ne). rewrite Eneb. apply formatting_not_head. exact Ffe.
      - change (ename_of s7 ne) with (ename_of sb ne). rewrite Eneb. apply formatting_not_template. exact Ffe. }
    assert (Afe5 : has_af_entry s5 fe) by (destruct Afe2 as (p & t & E); exists p, t; rewrite E5b; exact E).
    destruct bm' as [tr|prev]; rewrite wp_bind, wp_bind; apply wp_probe; rewrite wp_bind, wp_get, wp_bind, wp_unwrap;
      match goal with |- context [set_out (EvArm 30 ?k :: out s5) s5] => set (sp := set_out (EvArm 30 k :: out s5) s5) end;
      assert (Kp : keeps s sp) by ((apply keeps_set_out; [|reflexivity]); exact K5);
      pose proof Kp as [Ip _]; pose proof (TInv_af_entries _ Ip) as Fp;
      assert (EntryOkp : af_entry_ok sp (FElem ne fet)) by exact EntryOk.
    + cbn [bm_ok] in Bm2. subst tr.
      destruct Afe5 as (p & t & Ep). destruct (position_in_af_of_entry sp fe p t Ep) as [q Eq].
      exists q. split; [exact Eq|]. rewrite wp_modify.
      apply (Tail sp (vset q (FElem ne fet) (active_formatting sp))); try assumption.
      apply Forall_vset; assumption.
    + cbn [bm_ok] in Bm2. destruct Bm2 as [Aprev _].
      assert (Aprev5 : has_af_entry sp prev) by (destruct Aprev as (p & t & E); exists p, t; cbn; rewrite E3b; exact E).
      destruct Aprev5 as (p & t & Ep). destruct (position_in_af_of_entry _ _ _ _ Ep) as [q Eq].
      exists q. split; [exact Eq|].
      destruct (position_in_af_some _ _ _ Eq) as [tq Etq]. pose proof (nth_error_lt _ _ _ Etq) as Lq.
      rewrite wp_bind, wp_assert. split; [apply Nat.leb_le; lia|].
      rewrite wp_bind, wp_modify, wp_bind, wp_get, wp_bind, wp_unwrap.
      set (af' := vinsert (S q) (FElem ne fet) (active_formatting sp)).
      destruct Afe5 as (pf & tf & Epf).
      destruct (position_of_In (fun e => match e with FMarker => false | FElem h _ => same_node h fe end) af' (FElem fe tf)) as [oi Eoi].
      { unfold af'. apply In_vinsert_old. eapply nth_error_In. exact Epf. }
      { unfold same_node. apply Nat.eqb_refl. }
      exists oi. split; [exact Eoi|]. rewrite wp_modify.
      cbn [active_formatting set_active_formatting].
      match goal with |- wp _ _ ?st => change st with (set_active_formatting (vremove oi af') sp) end.
      apply Tail; try assumption. apply Forall_vremove. unfold af'. apply Forall_vinsert; assumption.
  - (* no furthest block *)
    rewrite wp_bind. apply wp_probe. rewrite wp_bind, wp_assert. split; [apply Nat.ltb_lt; exact Lfei|].
    rewrite wp_bind, wp_modify, wp_ret. apply H.
    apply keeps_set_af.
    + apply keeps_truncate; [(apply keeps_set_out; [|reflexivity]); exact K1 | exact L1 | exact Lfsi].
    + apply Forall_vremove. cbn. exact (TInv_af_entries _ I1).
Qed.

(* ---------- the outer loop, the algorithm, misnested <a> ---------- *)
Lemma wp_aaa_outer subject (Q : unit -> st -> Prop) : is_formatting subject = true ->
  forall n s, TInv s -> late s -> (forall s', keeps s s' -> Q tt s') -> wp (aaa_outer n subject) Q s.
Proof.
  intro Fs. induction n as [|n IH]; intros s I L H; cbn [aaa_outer].
  - apply wp_probe. apply H. (apply keeps_set_out; [|reflexivity]). apply keeps_refl. exact I.
  - rewrite wp_bind. apply wp_aaa_iteration; [exact I | exact L | exact Fs |].
    intros b s1 K1. destruct b.
    + rewrite wp_ret. apply H. exact K1.
    + pose proof K1 as [I1 _]. apply IH; [exact I1 | eapply keeps_late; eassumption |].
      intros s2 K2. apply H. eapply keeps_trans; eassumption.
Qed.

Lemma wp_adoption_agency s0 s subject (Q : unit -> st -> Prop) :
  keeps s0 s -> late s -> is_formatting subject = true ->
  (forall s', keeps s0 s' -> Q tt s') ->
  wp (adoption_agency subject) Q s.
Proof.
  intros K L Fs H. pose proof K as [I S]. unfold adoption_agency. rewrite wp_bind.
  apply wp_current_node; [exact I | exact L |]. intros cur V. rewrite wp_bind, wp_get.
  destruct (html_elem_named_b s cur subject && _) eqn:C.
  - apply andb_true_iff in C. destruct C as [C _].
    rewrite wp_bind. apply wp_probe. rewrite wp_bind.
    destruct (TInv_stack_nonempty _ I L) as (r & rest & Est & Nr).
    eapply wp_pop; [(apply keeps_set_out; [|reflexivity]); exact K | exact L | |].
    + (* the current node is named `subject`, hence not the root *)
      cbn [open_elems set_out]. destruct rest as [|a t]; [|rewrite Est; simpl; lia]. exfalso.
      rewrite Est in V. simpl in V. injection V as <-. apply ename_eqb_eq in C. rewrite Nr in C.
      unfold html_html in C. injection C as C. symmetry in C. revert C. apply is_formatting_neq; [exact Fs | reflexivity].
    + intros e s' K' _ _ _. rewrite wp_ret. apply H. exact K'.
  - apply wp_aaa_outer; [exact Fs | exact I | exact L |]. intros s' K'. apply H. eapply keeps_trans; eassumption.
Qed.

Lemma wp_handle_misnested_a_tags s0 s (Q : unit -> st -> Prop) :
  keeps s0 s -> late s -> (forall s', keeps s0 s' -> Q tt s') -> wp handle_misnested_a_tags Q s.
Proof.
  intros K L H. pose proof K as [I S]. unfold handle_misnested_a_tags. rewrite wp_bind, wp_get.
  destruct (find _ (af_end_to_marker s)) as [[[i node] t]|] eqn:Ef; [|rewrite wp_ret; apply H; exact K].
  apply find_some in Ef. destruct Ef as [Hin Na]. cbn [fst snd] in Na.
  apply af_end_to_marker_nth in Hin.
  assert (Kn : known s node) by (eapply known_handles_in; [apply inv_known; exact I | eapply in_handles_af; eapply nth_error_In; exact Hin]).
  rewrite wp_bind. apply wp_probe. rewrite wp_bind, wp_parse_error, wp_bind.
  set (s1 := set_out _ (set_out _ s)).
  assert (K1 : keeps s s1) by ((apply keeps_set_out; [|reflexivity]); (apply keeps_set_out; [|reflexivity]); apply keeps_refl; exact I).
  apply (wp_adoption_agency s); [exact K1 | exact L | reflexivity |].
  intros s2 K2. pose proof K2 as [I2 S2]. assert (L2 : late s2) by (eapply keeps_late; eassumption).
  rewrite wp_bind, wp_get, wp_bind.
  assert (Fin : forall s3, keeps s s3 -> late s3 -> wp (remove_from_stack node) Q s3).
  { intros s3 K3 L3. unfold remove_from_stack. rewrite wp_bind, wp_get.
    destruct (rposition (same_node node) (open_elems s3)) as [p|] eqn:Ep.
    2:{ rewrite wp_ret. apply H. eapply keeps_trans; eassumption. }
    apply rposition_some in Ep. destruct Ep as (y & Ey & Sy). unfold same_node in Sy. apply Nat.eqb_eq in Sy. subst y.
    pose proof K3 as [I3 S3]. destruct (TInv_stack_nonempty _ I3 L3) as (r & rest & Est & Nr).
    assert (Lp : 1 <= p).
    { eapply named_not_root; [exact Est | exact Nr | exact Ey | rewrite (keeps_name _ _ _ K3 Kn); apply named_ename; exact Na | discriminate]. }
    rewrite wp_bind, wp_modify, wp_emit. apply H. eapply keeps_trans; [exact K|].
    apply keeps_emit; [apply keeps_vremove_stack; assumption | reflexivity | reflexivity |]. cbn [op_okb].
    apply known_v_elem. change (known s3 node). eapply stable_known; [exact S3 | exact Kn]. }
  destruct (position_in_af s2 node) as [q|] eqn:Eq.
  - rewrite wp_modify. apply Fin; [|exact L2].
    apply keeps_set_af; [exact K2|]. apply Forall_vremove. exact (TInv_af_entries _ I2).
  - rewrite wp_ret. apply Fin; assumption.
Qed.
