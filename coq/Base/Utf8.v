(* Characters, bytes and the UTF-8 code used by every byte-level model.
   chars and bytes are [N]; nothing here depends on /repo. *)
From Coq Require Import List NArith Bool Lia ZArith ZifyBool ZifyN.
Import ListNotations.
Local Open Scope N_scope.
Ltac Zify.zify_post_hook ::= Z.div_mod_to_equations.

Definition char := N.
Definition byte := N.
Definition str := list char.

Definition is_scalar (c : N) : bool :=
  (c <? 0xD800) || ((0xE000 <=? c) && (c <? 0x110000)).

Definition scalars (s : list N) : Prop := Forall (fun c => is_scalar c = true) s.

(* Rust's char::encode_utf8 *)
Definition enc (c : N) : list N :=
  if c <? 0x80 then [c]
  else if c <? 0x800 then [0xC0 + c / 64; 0x80 + c mod 64]
  else if c <? 0x10000 then
    [0xE0 + c / 4096; 0x80 + (c / 64) mod 64; 0x80 + c mod 64]
  else
    [0xF0 + c / 262144; 0x80 + (c / 4096) mod 64; 0x80 + (c / 64) mod 64;
     0x80 + c mod 64].

Definition encs (s : list N) : list N := flat_map enc s.

Definition is_cont (b : N) : bool := (0x80 <=? b) && (b <? 0xC0).

(* strict decoder of one scalar value (Unicode table 3-7), the meaning of
   [s.chars().next()] on a valid [str] *)
Definition dec1 (bs : list N) : option (N * list N) :=
  match bs with
  | [] => None
  | b0 :: t =>
    if b0 <? 0x80 then Some (b0, t)
    else if b0 <? 0xC2 then None
    else if b0 <? 0xE0 then
      match t with
      | b1 :: t1 =>
        if is_cont b1 then Some ((b0 - 0xC0) * 64 + (b1 - 0x80), t1) else None
      | _ => None
      end
    else if b0 <? 0xF0 then
      match t with
      | b1 :: b2 :: t2 =>
        if is_cont b1 && is_cont b2
           && (negb (b0 =? 0xE0) || (0xA0 <=? b1))
           && (negb (b0 =? 0xED) || (b1 <? 0xA0))
        then Some ((b0 - 0xE0) * 4096 + (b1 - 0x80) * 64 + (b2 - 0x80), t2)
        else None
      | _ => None
      end
    else if b0 <? 0xF5 then
      match t with
      | b1 :: b2 :: b3 :: t3 =>
        if is_cont b1 && is_cont b2 && is_cont b3
           && (negb (b0 =? 0xF0) || (0x90 <=? b1))
           && (negb (b0 =? 0xF4) || (b1 <? 0x90))
        then Some ((b0 - 0xF0) * 262144 + (b1 - 0x80) * 4096
                   + (b2 - 0x80) * 64 + (b3 - 0x80), t3)
        else None
      | _ => None
      end
    else None
  end.

Lemma dec1_enc c r : is_scalar c = true -> dec1 (enc c ++ r) = Some (c, r).
Proof.
  unfold is_scalar, enc; intros Hc.
  destruct (c <? 0x80) eqn:H1.
  { cbn [app dec1]. rewrite H1. reflexivity. }
  destruct (c <? 0x800) eqn:H2.
  { cbn [app dec1].
    replace (0xC0 + c / 64 <? 0x80) with false by lia.
    replace (0xC0 + c / 64 <? 0xC2) with false by lia.
    replace (0xC0 + c / 64 <? 0xE0) with true by lia.
    unfold is_cont.
    replace ((0x80 <=? 0x80 + c mod 64) && (0x80 + c mod 64 <? 0xC0)) with true by lia.
    f_equal. f_equal. lia. }
  destruct (c <? 0x10000) eqn:H3.
  { cbn [app dec1].
    replace (0xE0 + c / 4096 <? 0x80) with false by lia.
    replace (0xE0 + c / 4096 <? 0xC2) with false by lia.
    replace (0xE0 + c / 4096 <? 0xE0) with false by lia.
    replace (0xE0 + c / 4096 <? 0xF0) with true by lia.
    unfold is_cont.
    match goal with |- (if ?b then _ else _) = _ => replace b with true by lia end.
    f_equal. f_equal. lia. }
  cbn [app dec1].
  replace (0xF0 + c / 262144 <? 0x80) with false by lia.
  replace (0xF0 + c / 262144 <? 0xC2) with false by lia.
  replace (0xF0 + c / 262144 <? 0xE0) with false by lia.
  replace (0xF0 + c / 262144 <? 0xF0) with false by lia.
  replace (0xF0 + c / 262144 <? 0xF5) with true by lia.
  unfold is_cont.
  match goal with |- (if ?b then _ else _) = _ => replace b with true by lia end.
  f_equal. f_equal. lia.
Qed.

Lemma enc_nonempty c : enc c <> [].
Proof. unfold enc; repeat (destruct (_ <? _)); discriminate. Qed.

(* every byte of a non-ASCII char is >= 0x80; an ASCII char is its own byte *)
Lemma enc_ascii c : c < 0x80 -> enc c = [c].
Proof. unfold enc; intros H. replace (c <? 0x80) with true by lia. reflexivity. Qed.

Lemma enc_high c b : 0x80 <= c -> In b (enc c) -> 0x80 <= b.
Proof.
  unfold enc; intros H Hin.
  replace (c <? 0x80) with false in Hin by lia.
  destruct (c <? 0x800); [|destruct (c <? 0x10000)]; cbn [In] in Hin;
    repeat (destruct Hin as [Hin|Hin]; [lia|]); contradiction.
Qed.

Lemma encs_app a b : encs (a ++ b) = encs a ++ encs b.
Proof. unfold encs. apply flat_map_app. Qed.

Lemma encs_cons c s : encs (c :: s) = enc c ++ encs s.
Proof. reflexivity. Qed.

Lemma encs_nil_inv s : encs s = [] -> s = [].
Proof.
  destruct s as [|c s]; [reflexivity|]. rewrite encs_cons. intros H.
  apply app_eq_nil in H. destruct H as [H _]. now apply enc_nonempty in H.
Qed.

(* UTF-8 is a prefix code *)
Lemma enc_prefix_code a b x y :
  is_scalar a = true -> is_scalar b = true ->
  enc a ++ x = enc b ++ y -> a = b /\ x = y.
Proof.
  intros Ha Hb H.
  pose proof (dec1_enc a x Ha) as Da. pose proof (dec1_enc b y Hb) as Db.
  rewrite H in Da. rewrite Da in Db. inversion Db; auto.
Qed.

Lemma encs_inj s t : scalars s -> scalars t -> encs s = encs t -> s = t.
Proof.
  intros Hs; revert t; induction Hs as [|a s Ha Hs IH]; intros t Ht H.
  - symmetry in H. apply encs_nil_inv in H. now subst.
  - destruct Ht as [|b t Hb Ht].
    + apply encs_nil_inv in H. discriminate.
    + rewrite !encs_cons in H. apply enc_prefix_code in H; auto.
      destruct H as [-> H]. f_equal. auto.
Qed.

(* decode a whole byte string, fuelled by its length *)
Fixpoint decs_fuel (fuel : nat) (bs : list N) : option (list N) :=
  match bs with
  | [] => Some []
  | _ =>
    match fuel with
    | O => None
    | S f =>
      match dec1 bs with
      | Some (c, r) => option_map (cons c) (decs_fuel f r)
      | None => None
      end
    end
  end.
Definition decs (bs : list N) : option (list N) := decs_fuel (length bs) bs.

Lemma decs_fuel_encs s : scalars s -> forall fuel, (length s <= fuel)%nat ->
  decs_fuel fuel (encs s) = Some s.
Proof.
  induction 1 as [|c s Hc Hs IH]; intros fuel Hf.
  - destruct fuel; reflexivity.
  - destruct fuel as [|f]; [cbn in Hf; lia|].
    rewrite encs_cons. cbn [decs_fuel].
    destruct (enc c ++ encs s) eqn:E.
    { apply app_eq_nil in E. destruct E as [E _]. now apply enc_nonempty in E. }
    rewrite <- E. rewrite dec1_enc by assumption.
    rewrite IH by (cbn in Hf; lia). reflexivity.
Qed.

Lemma enc_length_pos c : (1 <= length (enc c))%nat.
Proof. unfold enc; repeat (destruct (_ <? _)); cbn; lia. Qed.

Lemma encs_length s : (length s <= length (encs s))%nat.
Proof.
  induction s as [|c s IH]; [cbn; lia|]. rewrite encs_cons, app_length.
  pose proof (enc_length_pos c). cbn [length]. lia.
Qed.

Theorem decs_encs s : scalars s -> decs (encs s) = Some s.
Proof. intros H. apply decs_fuel_encs; [assumption|apply encs_length]. Qed.
