(* C09 in the REAL default configuration (exact_errors = false, chunked queue, bulk reads, SIMD scan): the line law
   transported from the reference semantics through the default-mode simulation (TokIR/BulkSim.v, fuel bound from
   Inst/InstBulkTerm.v).  Default mode merges runs of characters into one token and drops some error tokens, which
   is exactly what [obs] forgets; the law is therefore stated for the observation of the default-mode output (every
   non-character, non-error token literally, every maximal character run by its last piece). *)
From Coq Require Import List NArith Bool Lia Arith.
From HV Require Import TokIR.IR TokIR.Interp TokIR.Checks TokIR.Chunk TokIR.QueueSim TokIR.BulkSim TokIR.BulkTerm.
From HV Require Import TokIR.LineInv TokIR.Termination Gen.GenHtmlTok.
From HV Require Import TokIR.NoPanic TokIR.ChunkExec Inst.InstChunk Inst.InstNoPanic.
From HV Require Import Inst.InstBulk Inst.InstLine Inst.InstTermination Inst.InstBulkTerm Inst.InstTotalDefault.
Import ListNotations.

(* what obs keeps: the (line, position) pair of every obs entry is that of an entry of the raw list *)
Lemma obs_In_pos (o : list otok) t l k : In (t, l, k) (obs o) -> exists t', In (t', l, k) o.
Proof.
  revert t l k. induction o as [|[[x lx] kx] o IH]; intros t l k H; [destruct H|].
  rewrite obs_cons in H.
  assert (G : In (t, l, k) ((x, lx, kx) :: obs o) -> exists t', In (t', l, k) ((x, lx, kx) :: o)).
  { intros [E|E]; [inversion E; subst; eexists; left; reflexivity|].
    destruct (IH _ _ _ E) as (t' & Ht'). exists t'. right. exact Ht'. }
  destruct x; try (exact (G H)).
  - (* TChars *) unfold ocons in H. destruct (obs o) as [|[[y ly] ky] o'] eqn:Eo; [exact (G H)|].
    destruct y; try (exact (G H)).
    destruct H as [E|E]; [inversion E; subst; eexists; left; reflexivity|].
    destruct (IH t l k (or_intror E)) as (t' & Ht'). exists t'. right. exact Ht'.
  - (* TError *) rewrite ocons_err in H. destruct (IH _ _ _ H) as (t' & Ht'). exists t'. right. exact Ht'.
Qed.

Definition plain_tok (t : token) : bool := match t with TChars _ | TError => false | _ => true end.

(* every token that is neither characters nor an error survives obs literally *)
Lemma obs_In_plain (o : list otok) t l k : plain_tok t = true -> In (t, l, k) o -> In (t, l, k) (obs o).
Proof.
  intros P. induction o as [|[[x lx] kx] o IH]; intros H; [destruct H|].
  rewrite obs_cons. destruct H as [E|H].
  - inversion E; subst. destruct t; try discriminate P; left; reflexivity.
  - specialize (IH H). destruct x; try (right; exact IH).
    + unfold ocons. destruct (obs o) as [|[[y ly] ky] o'] eqn:Eo; [destruct IH|].
      destruct y; try (right; exact IH).
      destruct IH as [E|E]; [inversion E; subst; discriminate P|right; exact E].
    + rewrite ocons_err. exact IH.
Qed.

Section Html.
Variable ent : list N -> option (N * N).
Variable c1 : N -> option N.
Variable sk : sinkcfg.
Hypothesis Hent : forall buf v, ent buf = Some v -> nobreaks buf = true.
Notation fastH := (drive_chunked html_flavour false html_table html_simd ent c1 sk).

(* the law for the observation of the default-mode run: whole input in one feed() then end() *)
Theorem html_default_mode_line_law input fuel s0 last :
  (html_fuel (length input) <= fuel)%nat -> (4 <= fuel)%nat ->
  line_law input (obs (mout (fst (fastH fuel [] [input] (mkmach (init_cfg s0 last false) [] [] 0%N) [])))).
Proof.
  intros Hf HD t ln k Hin.
  assert (Hf' : (html_fuel (length input + 50 * length (@nil N)) <= fuel)%nat)
    by (cbn [length]; replace (length input + 50 * 0)%nat with (length input) by lia; exact Hf).
  destruct (html_default_mode_is_reference_up_to_obs_total ent c1 sk [] s0 last input fuel Hf' HD) as (fuel0 & A).
  destruct (A fuel0 (le_n _)) as (E & _). rewrite E in Hin.
  destruct (obs_In_pos _ _ _ _ Hin) as (t' & Ht').
  exact (html_drive_line_law html_simd ent c1 sk Hent input fuel0 s0 last t' ln k Ht').
Qed.

(* in particular every tag, comment, doctype, NUL and EOF token delivered in default mode carries the line of its
   position in the source *)
Theorem html_default_mode_line_law_tokens input fuel s0 last t ln k :
  (html_fuel (length input) <= fuel)%nat -> (4 <= fuel)%nat ->
  plain_tok t = true ->
  In (t, ln, k) (mout (fst (fastH fuel [] [input] (mkmach (init_cfg s0 last false) [] [] 0%N) []))) ->
  ln = (1 + breaks (firstn (N.to_nat k) input))%N.
Proof.
  intros Hf HD P Hin. apply (html_default_mode_line_law input fuel s0 last Hf HD t ln k).
  apply obs_In_plain; assumption.
Qed.

(* any chunking of the input (non-empty chunks), for a sink that never pauses the tokenizer: the observation is that
   of the one-chunk run (default-mode chunk independence, Inst/InstTotalDefault.v), so the law holds with positions
   counted in the concatenated input *)
Theorem html_default_mode_line_law_chunked chunks fuel s0 last :
  html_sink_ok sk = true -> html_sink_never_pauses sk = true -> html_kind_ok s0 = true ->
  all_nonempty chunks -> chunks <> [] ->
  (html_fuel (length (concat chunks)) <= fuel)%nat -> (4 <= fuel)%nat ->
  line_law (concat chunks) (obs (mout (fst (fastH fuel [] chunks (mkmach (init_cfg s0 last false) [] [] 0%N) [])))).
Proof.
  intros Hsk Hq Hk N1 E1 Hf HD.
  assert (N2 : all_nonempty [concat chunks]).
  { split; [|exact I]. destruct chunks as [|c cs]; [contradiction|]. destruct N1 as [Hc _].
    cbn [concat]. destruct c; [contradiction|discriminate]. }
  assert (EC : concat chunks = concat [concat chunks]) by (cbn [concat]; rewrite app_nil_r; reflexivity).
  assert (F1 : (html_fuel (length (concat chunks) + length chunks * (50 * length (@nil N))) <= fuel)%nat)
    by (cbn [length]; replace (length (concat chunks) + length chunks * (50 * 0))%nat with (length (concat chunks)) by lia; exact Hf).
  assert (F2 : (html_fuel (length (concat [concat chunks]) + length [concat chunks] * (50 * length (@nil N))) <= fuel)%nat)
    by (rewrite <- EC; cbn [length]; replace (length (concat chunks) + 1 * (50 * 0))%nat with (length (concat chunks)) by lia; exact Hf).
  destruct (html_default_mode_chunking_independent_quiet ent c1 sk Hsk fuel fuel [] chunks [concat chunks] s0 last
              Hq Hk N1 N2 E1 ltac:(discriminate) EC F1 HD F2 HD) as (E & _).
  cbv zeta in E. refine (eq_ind_r (fun o => line_law (concat chunks) o) _ E). apply html_default_mode_line_law; assumption.
Qed.
End Html.

(* non-vacuity (a test, by computation): the document of Inst/InstLine.v cut in two chunks in the middle of a
   character reference, run in default mode with exactly the bound as fuel *)
From HV Require Import CharRef.CRModel Gen.GenEntities.
Definition dex_run :=
  drive_chunked html_flavour false html_table html_simd (alookup entities) (fun _ => None)
                {| sk_resp := []; sk_foreign := false |} (html_fuel 60) []
                [firstn 27 InstLine.ex_input; skipn 27 InstLine.ex_input]
                (mkmach (init_cfg HData None false) [] [] 0%N) [].
Lemma dex_run_obeys_law :
  line_law_b InstLine.ex_input (obs (mout (fst dex_run))) = true /\
  length (obs (mout (fst dex_run))) = 7%nat /\ snd dex_run = [SSuspend; SSuspend; SSuspend].
Proof. vm_compute. repeat split. Qed.
