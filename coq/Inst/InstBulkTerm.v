(* The `regular` hypothesis of the default-mode theorems (TokIR/BulkSim.v) discharged: the interpreter over the CHUNKED
   queue in the tokenizer's default mode (exact_errors = false: bulk reads, SIMD scan for html) never runs out of fuel
   when the fuel meets the explicit bound of TokIR/Termination.v / TermX.v, for both regenerated tables.
   TokIR/BulkTerm.v (step counting through the simulation) + TokIR/QueueSim.v (chunked exact = flat exact). *)
From Coq Require Import List NArith Bool Lia Arith.
From RecordUpdate Require Import RecordSet.
From HV Require Import TokIR.IR TokIR.Interp TokIR.Checks TokIR.Chunk TokIR.QueueSim TokIR.BulkSim TokIR.BulkTerm.
From HV Require Import TokIR.LineInv TokIR.Termination Gen.GenHtmlTok Gen.GenXmlTok.
From HV Require Import Inst.InstBulk Inst.InstLine Inst.InstTermination Inst.InstTermX.
From HV Require TokIR.TermX.
Import ListNotations RecordSetNotations.

Section ChunkedTerm.
Context {S : Type}.
Variable fl : flavour S.
Variable tb : table S.
Variables guard stop nl : list N.
Variable ent : list N -> option (N * N).
Variable c1 : N -> option N.
Variable sk : sinkcfg.
Variable seqb : S -> S -> bool.
Hypothesis seqb_eq : forall a b, seqb a b = true -> a = b.
Hypothesis Hstep : forall s, BulkSim.step_ok fl guard stop nl seqb (t_step tb s) = true.
Hypothesis Heof : forall s, BulkSim.ok_body false false (t_eof tb s) = true.
Variable clean : S -> bool.
Variable R D : nat.

Notation simd := (guard, stop, nl).
Notation MQ := (mach S queue).
Notation MF := (mach S (list N)).
Notation feedFl := (@feed S (list N) [] fq_next fq_peek (@app N) (fun q => q) fq_run1 fl true tb simd ent c1 sk).
Notation endFl := (@tok_end S (list N) [] fq_next fq_peek (@app N) (fun q => q) fq_run1 fl true tb simd ent c1 sk).
(* what the flat exact-mode termination theorems give *)
Hypothesis Hfeed_flat : forall fuel (m : MF), TI tb clean m -> (run_bound R (Tl tb m) <= fuel)%nat ->
  TI tb clean (fst (feedFl fuel m)) /\ (Tl tb (fst (feedFl fuel m)) <= Tl tb m)%nat /\ Termination.okr (snd (feedFl fuel m)).
Hypothesis Hend_flat : forall fuel (m : MF), TI tb clean m -> (run_bound R (Tl tb m) <= fuel)%nat -> (D <= fuel)%nat ->
  Termination.okr (snd (endFl fuel m)).

Notation absq := (@absm S queue qflat).
Definition good (ms : MQ) (T : nat) : Prop := wfq (mq ms) /\ TI tb clean (absq ms) /\ (Tl tb (absq ms) <= T)%nat.

Lemma good_feed (ms : MQ) T fuel : good ms T -> (run_bound R T <= fuel)%nat ->
  BulkTerm.okr (snd (feed [] qnext qpeek qpush_front qflat qrun_chunked fl true tb simd ent c1 sk fuel ms)) /\
  good (fst (feed [] qnext qpeek qpush_front qflat qrun_chunked fl true tb simd ent c1 sk fuel ms)) T.
Proof.
  intros (W & I & L) Hf.
  destruct (QueueSim.feed_sim [] qnext qpeek qpush_front qflat qrun_chunked wfq chunked_emp chunked_next chunked_peek
              chunked_pushf fl tb simd ent c1 sk true eq_refl fuel ms W) as (A & B & C).
  assert (Hf' : (run_bound R (Tl tb (absq ms)) <= fuel)%nat) by (pose proof (run_bound_mono R _ _ L); lia).
  destruct (Hfeed_flat fuel (absq ms) I Hf') as (F1 & F2 & F3).
  split; [rewrite C; exact F3|]. unfold good.
  match type of B with _ = ?Y => assert (B' : absq (fst (feed [] qnext qpeek qpush_front qflat qrun_chunked fl true tb simd ent c1 sk fuel ms)) = Y) by exact B end.
  rewrite B'. split; [exact A|split; [exact F1|eapply Nat.le_trans; [exact F2|exact L]]].
Qed.
Lemma good_end (ms : MQ) T fuel : good ms T -> (run_bound R T <= fuel)%nat -> (D <= fuel)%nat ->
  BulkTerm.okr (snd (tok_end [] qnext qpeek qpush_front qflat qrun_chunked fl true tb simd ent c1 sk fuel ms)).
Proof.
  intros (W & I & L) Hf HD.
  destruct (QueueSim.tok_end_sim [] qnext qpeek qpush_front qflat qrun_chunked wfq chunked_emp chunked_next chunked_peek
              chunked_pushf fl tb simd ent c1 sk true eq_refl fuel ms W) as (A & B & C).
  assert (Hf' : (run_bound R (Tl tb (absq ms)) <= fuel)%nat) by (pose proof (run_bound_mono R _ _ L); lia).
  rewrite C. exact (Hend_flat fuel (absq ms) I Hf' HD).
Qed.
Lemma good_inj (ms : MQ) T inj : good ms T -> good (ms <| mq ::= qpush_front inj |>) (T + length inj)%nat.
Proof.
  destruct ms as [cf q o k]. intros (W & I & L). change (wfq q) in W. destruct (chunked_pushf inj q W) as [W' E].
  set (ms := mkmach cf q o k) in *. set (ms' := ms <| mq ::= qpush_front inj |>).
  assert (Ecv : cv (absq ms') = cv (absq ms)) by reflexivity.
  assert (Eq : qn (absq ms') = (length inj + qn (absq ms))%nat).
  { change (length (qflat (qpush_front inj q)) = (length inj + length (qflat q))%nat). rewrite E, app_length. reflexivity. }
  split; [exact W'|]. split; [eapply TI_same; eassumption|].
  rewrite (Tl_same tb _ _ Ecv). lia.
Qed.
Lemma good_push (ms : MQ) T ch : good ms T -> good (ms <| mq ::= (fun q => qpush_back q ch) |>) (T + length ch)%nat.
Proof.
  destruct ms as [cf q o k]. intros (W & I & L). change (wfq q) in W. destruct (chunked_pushb q ch W) as [W' E].
  set (ms := mkmach cf q o k) in *. set (ms' := ms <| mq ::= (fun q => qpush_back q ch) |>).
  assert (Ecv : cv (absq ms') = cv (absq ms)) by reflexivity.
  assert (Eq : qn (absq ms') = (qn (absq ms) + length ch)%nat).
  { change (length (qflat (qpush_back q ch)) = (length (qflat q) + length ch)%nat). rewrite E, app_length. reflexivity. }
  split; [exact W'|]. split; [eapply TI_same; eassumption|].
  rewrite (Tl_same tb _ _ Ecv). lia.
Qed.
Lemma good_mono (ms : MQ) T T' : good ms T -> (T <= T')%nat -> good ms T'.
Proof. intros (W & I & L) H. split; [exact W|split; [exact I|lia]]. Qed.

(* the default-mode driver over the chunked queue never runs out of fuel *)
Theorem chunked_default_regular fuel inj chunks (m : MQ) log :
  wfq (mq m) -> TI tb clean (absq m) ->
  (run_bound R (Tl tb (absq m) + length (concat chunks) + length chunks * (50 * length inj)) <= fuel)%nat -> (D <= fuel)%nat ->
  regular log -> regular (snd (drive_chunked fl false tb simd ent c1 sk fuel inj chunks m log)).
Proof.
  intros W I Hf HD [L1 L2]. apply okl_regular.
  apply (drive_fast_regular [] qnext qpeek qpush_front qpush_back qflat qrun_chunked chunked_peek_next chunked_run_ok
           fl tb guard stop nl ent c1 sk seqb seqb_eq Hstep Heof good (run_bound R) D (run_bound_mono R)
           good_feed good_inj good_push good_mono good_end fuel inj chunks m m log (Tl tb (absq m))).
  - apply Rel_refl.
  - split; [exact W|split; [exact I|lia]].
  - exact Hf.
  - exact HD.
  - unfold okl. apply Forall_forall. intros x Hx. split; intros ->; [apply L1|apply L2]; exact Hx.
Qed.
End ChunkedTerm.

(* ================================================================ html5ever *)
Notation habs m := (@absm hstate queue qflat m).

Theorem html_default_regular ent c1 sk fuel inj chunks (m : mach hstate queue) log :
  wfq (mq m) -> HtmlTI (habs m) ->
  (html_fuel (html_unread (habs m) + length (concat chunks) + length chunks * (50 * length inj)) <= fuel)%nat -> (4 <= fuel)%nat ->
  regular log -> regular (snd (drive_chunked html_flavour false html_table html_simd ent c1 sk fuel inj chunks m log)).
Proof.
  exact (chunked_default_regular html_flavour html_table simd_first_guard simd_tail_stop simd_tail_newline ent c1 sk
           hstate_beq hstate_beq_eq html_step_ok_all html_eof_lockstep_all html_clean 4 4
           (feed_term html_flavour html_table html_simd ent c1 sk eq_refl html_clean html_rank 4 html_rank_le
              html_eat_clean_all html_start_ok_all html_progress_all)
           (tok_end_terminates html_flavour html_table html_simd ent c1 sk eq_refl html_clean html_rank 4 html_rank_le
              html_eat_clean_all html_start_ok_all html_progress_all 4 html_eof_ok_all html_eof_notag_all html_eof_depth_all)
           fuel inj chunks m log).
Qed.

Lemma regular_nil : regular [].
Proof. split; intros []. Qed.

Theorem html_default_regular_fresh ent c1 sk fuel inj chunks s0 last :
  (html_fuel (length (concat chunks) + length chunks * (50 * length inj)) <= fuel)%nat -> (4 <= fuel)%nat ->
  regular (snd (drive_chunked html_flavour false html_table html_simd ent c1 sk fuel inj chunks
                              (mkmach (init_cfg s0 last false) [] [] 0%N) [])).
Proof.
  intros Hf HD. apply html_default_regular; [constructor|apply html_TI_init| |exact HD|exact regular_nil].
  change (habs (mkmach (init_cfg s0 last false) [] [] 0%N)) with (mkmach (init_cfg s0 last false) (@nil N) [] 0%N).
  rewrite html_unread_init. exact Hf.
Qed.

Lemma one_chunk_bound (x : list N) : (length (concat [x]) + length [x] * (50 * length (@nil N)) = length x)%nat.
Proof. cbn. rewrite app_nil_r. lia. Qed.

(* the BulkSim theorems with the fuel bound in place of [regular] *)
Theorem html_bulk_chunked_obs_total ent c1 sk fuel inject chunks (m : mach hstate queue) log :
  wfq (mq m) -> HtmlTI (habs m) ->
  (html_fuel (html_unread (habs m) + length (concat chunks) + length chunks * (50 * length inject)) <= fuel)%nat -> (4 <= fuel)%nat ->
  regular log ->
  let rf := drive_chunked html_flavour false html_table html_simd ent c1 sk fuel inject chunks m log in
  exists k, forall j,
    let rs := drive_chunked html_flavour true html_table html_simd ent c1 sk (k + j) inject chunks m log in
    snd rs = snd rf /\ obs (mout (fst rs)) = obs (mout (fst rf)) /\ ceq (mc (fst rs)) (mc (fst rf)) /\
    mq (fst rs) = mq (fst rf) /\ mcons (fst rs) = mcons (fst rf).
Proof.
  intros W I Hf HD HL. apply html_bulk_chunked_obs. apply html_default_regular; assumption.
Qed.
Theorem html_bulk_chunked_reference_total ent c1 sk fuel inject chunks (m : mach hstate queue) log :
  wfq (mq m) -> HtmlTI (habs m) ->
  (html_fuel (html_unread (habs m) + length (concat chunks) + length chunks * (50 * length inject)) <= fuel)%nat -> (4 <= fuel)%nat ->
  regular log ->
  let rf := drive_chunked html_flavour false html_table html_simd ent c1 sk fuel inject chunks m log in
  exists k, forall j,
    let rs := drive_flat html_flavour true html_table html_simd ent c1 sk (k + j) inject chunks
                (mkmach (mc m) (qflat (mq m)) (mout m) (mcons m)) log in
    snd rs = snd rf /\ obs (mout (fst rs)) = obs (mout (fst rf)) /\ ceq (mc (fst rs)) (mc (fst rf)) /\
    mq (fst rs) = qflat (mq (fst rf)) /\ mcons (fst rs) = mcons (fst rf).
Proof.
  intros W I Hf HD HL. apply html_bulk_chunked_reference; [exact W|]. apply html_default_regular; assumption.
Qed.
Theorem html_default_mode_is_reference_up_to_obs_total ent c1 sk inject s0 last input fuel :
  (html_fuel (length input + 50 * length inject) <= fuel)%nat -> (4 <= fuel)%nat ->
  let fast := drive_chunked html_flavour false html_table html_simd ent c1 sk fuel inject [input]
                (mkmach (init_cfg s0 last false) [] [] 0%N) [] in
  exists fuel0, forall fuel', (fuel0 <= fuel')%nat ->
    let ref := drive_flat html_flavour true html_table html_simd ent c1 sk fuel' inject [input]
                 (mkmach (init_cfg s0 last false) [] [] 0%N) [] in
    obs (mout (fst fast)) = obs (mout (fst ref)) /\ snd fast = snd ref.
Proof.
  intros Hf HD. apply html_default_mode_is_reference_up_to_obs. apply html_default_regular_fresh; [|exact HD].
  cbn [concat length]. rewrite app_nil_r. replace (length input + 1 * (50 * length inject))%nat with (length input + 50 * length inject)%nat by lia.
  exact Hf.
Qed.
Theorem html_default_mode_chunking_independent_obs_total ent c1 sk fuel1 fuel2 inj cs1 cs2 s0 last :
  all_nonempty cs1 -> all_nonempty cs2 -> cs1 <> [] -> cs2 <> [] -> concat cs1 = concat cs2 ->
  (html_fuel (length (concat cs1) + length cs1 * (50 * length inj)) <= fuel1)%nat -> (4 <= fuel1)%nat ->
  (html_fuel (length (concat cs2) + length cs2 * (50 * length inj)) <= fuel2)%nat -> (4 <= fuel2)%nat ->
  let m := mkmach (init_cfg s0 last false) ([] : queue) [] 0%N in
  let f1 := drive_chunked html_flavour false html_table html_simd ent c1 sk fuel1 inj cs1 m [] in
  let f2 := drive_chunked html_flavour false html_table html_simd ent c1 sk fuel2 inj cs2 m [] in
  ChunkExec.all_done (tl (snd f1)) -> ChunkExec.all_done (tl (snd f2)) ->
  obs (mout (fst f1)) = obs (mout (fst f2)) /\ hd SSuspend (snd f1) = hd SSuspend (snd f2).
Proof.
  intros N1 N2 E1 E2 EC F1 D1 F2 D2 m f1 f2.
  apply (html_default_mode_chunking_independent_obs ent c1 sk fuel1 fuel2 inj cs1 cs2 m (Forall_nil _) eq_refl N1 N2 E1 E2 EC);
    apply html_default_regular_fresh; assumption.
Qed.

(* ================================================================ xml5ever *)
Notation xabs m := (@absm xstate queue qflat m).

Theorem xml_default_regular simd ent c1 sk fuel inj chunks (m : mach xstate queue) log :
  wfq (mq m) -> XmlTI (xabs m) ->
  (xml_fuel (xml_unread (xabs m) + length (concat chunks) + length chunks * (50 * length inj)) <= fuel)%nat -> (4 <= fuel)%nat ->
  regular log -> regular (snd (drive_chunked xml_flavour false xml_table simd ent c1 sk fuel inj chunks m log)).
Proof.
  destruct simd as [[guard stop] nl].
  exact (chunked_default_regular xml_flavour xml_table guard stop nl ent c1 sk
           xstate_beq xstate_beq_eq (xml_step_ok_all guard stop nl) xml_eof_lockstep_all xml_clean 4 4
           (TermX.feed_term xml_flavour xml_table (guard, stop, nl) ent c1 sk eq_refl xml_clean xml_rank 4 xml_rank_le
              xml_eat_clean_all xml_start_ok_all xml_progress_all)
           (TermX.tok_end_terminates xml_flavour xml_table (guard, stop, nl) ent c1 sk eq_refl xml_clean xml_rank 4 xml_rank_le
              xml_eat_clean_all xml_start_ok_all xml_progress_all 4 xml_eof_ok_all xml_eof_depth_all)
           fuel inj chunks m log).
Qed.
Theorem xml_default_regular_fresh simd ent c1 sk fuel inj chunks s0 last :
  (xml_fuel (length (concat chunks) + length chunks * (50 * length inj)) <= fuel)%nat -> (4 <= fuel)%nat ->
  regular (snd (drive_chunked xml_flavour false xml_table simd ent c1 sk fuel inj chunks
                              (mkmach (init_cfg s0 last false) [] [] 0%N) [])).
Proof.
  intros Hf HD. apply xml_default_regular; [constructor|apply xml_TI_init| |exact HD|exact regular_nil].
  change (xabs (mkmach (init_cfg s0 last false) [] [] 0%N)) with (mkmach (init_cfg s0 last false) (@nil N) [] 0%N).
  rewrite xml_unread_init. exact Hf.
Qed.
Theorem xml_bulk_chunked_obs_total simd ent c1 sk fuel inject chunks (m : mach xstate queue) log :
  wfq (mq m) -> XmlTI (xabs m) ->
  (xml_fuel (xml_unread (xabs m) + length (concat chunks) + length chunks * (50 * length inject)) <= fuel)%nat -> (4 <= fuel)%nat ->
  regular log ->
  let rf := drive_chunked xml_flavour false xml_table simd ent c1 sk fuel inject chunks m log in
  exists k, forall j,
    let rs := drive_chunked xml_flavour true xml_table simd ent c1 sk (k + j) inject chunks m log in
    snd rs = snd rf /\ obs (mout (fst rs)) = obs (mout (fst rf)) /\ ceq (mc (fst rs)) (mc (fst rf)) /\
    mq (fst rs) = mq (fst rf) /\ mcons (fst rs) = mcons (fst rf).
Proof.
  intros W I Hf HD HL. apply xml_bulk_chunked_obs. apply xml_default_regular; assumption.
Qed.
Theorem xml_bulk_chunked_reference_total simd ent c1 sk fuel inject chunks (m : mach xstate queue) log :
  wfq (mq m) -> XmlTI (xabs m) ->
  (xml_fuel (xml_unread (xabs m) + length (concat chunks) + length chunks * (50 * length inject)) <= fuel)%nat -> (4 <= fuel)%nat ->
  regular log ->
  let rf := drive_chunked xml_flavour false xml_table simd ent c1 sk fuel inject chunks m log in
  exists k, forall j,
    let rs := drive_flat xml_flavour true xml_table simd ent c1 sk (k + j) inject chunks
                (mkmach (mc m) (qflat (mq m)) (mout m) (mcons m)) log in
    snd rs = snd rf /\ obs (mout (fst rs)) = obs (mout (fst rf)) /\ ceq (mc (fst rs)) (mc (fst rf)) /\
    mq (fst rs) = qflat (mq (fst rf)) /\ mcons (fst rs) = mcons (fst rf).
Proof.
  intros W I Hf HD HL. apply xml_bulk_chunked_reference; [exact W|]. apply xml_default_regular; assumption.
Qed.
Theorem xml_default_mode_is_reference_up_to_obs_total simd ent c1 sk inject s0 last input fuel :
  (xml_fuel (length input + 50 * length inject) <= fuel)%nat -> (4 <= fuel)%nat ->
  let fast := drive_chunked xml_flavour false xml_table simd ent c1 sk fuel inject [input]
                (mkmach (init_cfg s0 last false) [] [] 0%N) [] in
  exists fuel0, forall fuel', (fuel0 <= fuel')%nat ->
    let ref := drive_flat xml_flavour true xml_table simd ent c1 sk fuel' inject [input]
                 (mkmach (init_cfg s0 last false) [] [] 0%N) [] in
    obs (mout (fst fast)) = obs (mout (fst ref)) /\ snd fast = snd ref.
Proof.
  intros Hf HD. apply xml_default_mode_is_reference_up_to_obs. apply xml_default_regular_fresh; [|exact HD].
  cbn [concat length]. rewrite app_nil_r. replace (length input + 1 * (50 * length inject))%nat with (length input + 50 * length inject)%nat by lia.
  exact Hf.
Qed.

(* non-vacuity (a test, by computation): the default-mode run of a 12-character input cut in two chunks, with exactly
   the bound as fuel *)
Lemma default_regular_ex :
  snd (drive_chunked html_flavour false html_table html_simd (fun _ => None) (fun _ => None)
                     {| sk_resp := []; sk_foreign := false |} (html_fuel 12) []
                     [[60;97;32;98;62;38]%N; [97;109;112;59;13;10]%N]
                     (mkmach (init_cfg HData None false) [] [] 0%N) []) = [SSuspend; SSuspend; SSuspend].
Proof. vm_compute. reflexivity. Qed.
