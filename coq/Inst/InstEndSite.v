(* C04, the remaining html caveat "site 4" (assert!(matches!(self.run(&input), TokenizerResult::Done)) in
   Tokenizer::end): REFLECTIVE FACTS about the exact condition, no semantic theorem (see Props/C04.v).
   In the interpreter the final run of end() answers Script / EncodingIndicator only through emit_current_tag, i.e. only
   if an EmitTag / EmitKind terminator is executed during that run.  The characters that run can read are: what the
   character-reference flush puts back (the reference's raw buffer crW: '#', 'x' / 'X', digits, characters of entity
   keys and their prefixes, alphanumerics of a bogus name), the look-ahead stash of an eat state (characters matching an
   eat pattern up to ASCII case), and nothing else (the queue was emptied; a suspended feed leaves the reconsume flag
   clear).  Decided here on the regenerated table and the pinned entity table:
     1. every tag-emitting terminator of a step arm is guarded, since the last read of the arm, by a test "the current
        character is '>'" (html_emit_guarded);
     2. no entity key (prefix entries included) contains '>': keys consist of ASCII alphanumerics and ';' only;
     3. no eat pattern contains a character matching '>' up to ASCII case; '#', 'x', 'X' and alphanumerics are not '>'.
   So on the pinned table the exact condition "some put-back or stashed character is '>'" is false; the missing piece is
   the invariant-based proof that these are the only characters the final run reads. *)
From Coq Require Import List NArith Bool.
From HV Require Import TokIR.IR TokIR.Interp TokIR.Checks Gen.GenHtmlTok Gen.GenEntities.
Import ListNotations.
Local Open Scope N_scope.

(* [kn]: on this path the current character is known to be one of [bad] *)
Fixpoint gchk {S} (bad : list N) (kn : bool) (b : body S) : bool :=
  match b with
  | BRead _ k => gchk bad false k
  | BPop _ _ kr kc => gchk bad false kr && gchk bad false kc
  | BEat _ _ y n => gchk bad kn y && gchk bad kn n
  | BIf (CIn cs) y n => gchk bad (kn || forallb (fun c => memb c bad) cs) y && gchk bad kn n
  | BIf _ y n => gchk bad kn y && gchk bad kn n
  | BCmd _ k => gchk bad kn k
  | BEnd (EmitTag _) | BEnd (EmitKind _ _) => kn
  | BEnd _ => true
  end.
Fixpoint eat_pats {S} (b : body S) : list str :=
  match b with
  | BRead _ k | BCmd _ k => eat_pats k
  | BPop _ _ r c => eat_pats r ++ eat_pats c
  | BEat p _ y n => p :: eat_pats y ++ eat_pats n
  | BIf _ y n => eat_pats y ++ eat_pats n
  | BEnd _ => []
  end.

Lemma html_emit_guarded : forall s, gchk [62] false (html_step s) = true.
Proof. intros s. destruct s; try reflexivity; destruct k; try reflexivity; destruct k; reflexivity. Qed.
Lemma html_entity_keys_alnum_semicolon :
  forallb (fun e => forallb (fun c => is_alnum c || (c =? 59)) (fst e)) entities = true.
Proof. vm_compute. reflexivity. Qed.
Lemma html_eat_patterns_no_gt :
  forallb (fun s => forallb (fun p => forallb (fun c => negb (to_lower c =? to_lower 62)) p) (eat_pats (html_step s))) html_states = true /\
  (is_alnum 62 || (62 =? 59) || (62 =? 35) || (62 =? 120) || (62 =? 88)) = false.
Proof. vm_compute. split; reflexivity. Qed.
