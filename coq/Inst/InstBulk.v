(* Instantiation of TokIR/BulkSim.v on the REGENERATED html and xml tokenizer tables: the two decidable table conditions are
   decided here (they break deterministically when a bulk-read cell of the Rust source changes so that the fast path
   could differ from the character-at-a-time path: a set that no longer contains CR / LF / NUL or a character its
   per-character arm singles out, a per-character default arm that is not the run arm for one character, an arm that
   reconsumes without having read a character in the same step, an EOF arm that reads, SIMD sets that disagree). *)
From Coq Require Import List NArith Bool Lia.
From HV Require Import TokIR.IR TokIR.Interp TokIR.Checks TokIR.Chunk TokIR.QueueSim TokIR.ChunkExec TokIR.BulkSim Gen.GenHtmlTok Gen.GenXmlTok TokIR.ChunkInv Inst.InstChunk.
From HV Require Import CharRef.CRModel Gen.GenEntities.
Import ListNotations.
Local Open Scope N_scope.

Lemma html_step_ok_all : forall s, step_ok html_flavour simd_first_guard simd_tail_stop simd_tail_newline hstate_beq (html_step s) = true.
Proof. intros s. destruct s; try reflexivity; destruct k; try reflexivity; destruct k; reflexivity. Qed.
Lemma html_eof_lockstep_all : forall s, ok_body false false (html_eof s) = true.
Proof. intros s. destruct s; try reflexivity; destruct k; try reflexivity; destruct k; reflexivity. Qed.
Lemma hstate_beq_eq a b : hstate_beq a b = true -> a = b.
Proof. apply internal_hstate_dec_bl. Qed.

Definition html_simd : list N * list N * list N := (simd_first_guard, simd_tail_stop, simd_tail_newline).

(* milestone: flat queue, unit runs *)
Theorem html_bulk_flat_obs : forall ent c1 sk fuel inject chunks (m : mach hstate (list N)) log,
  let rf := drive_flat html_flavour false html_table html_simd ent c1 sk fuel inject chunks m log in
  regular (snd rf) ->
  exists k, forall j,
    let rs := drive_flat html_flavour true html_table html_simd ent c1 sk (k + j) inject chunks m log in
    snd rs = snd rf /\ obs (mout (fst rs)) = obs (mout (fst rf)) /\ ceq (mc (fst rs)) (mc (fst rf)) /\
    mq (fst rs) = mq (fst rf) /\ mcons (fst rs) = mcons (fst rf).
Proof.
  intros ent c1 sk.
  exact (bulk_flat_obs html_flavour html_table simd_first_guard simd_tail_stop simd_tail_newline ent c1 sk hstate_beq
           hstate_beq_eq html_step_ok_all html_eof_lockstep_all).
Qed.

(* the chunked queue (the interpreter that runs against the Rust tokenizer): runs up to the end of the first buffer, the
   SIMD scan of the data state with its own newline count included - against the same interpreter in exact mode *)
Theorem html_bulk_chunked_obs : forall ent c1 sk fuel inject chunks (m : mach hstate queue) log,
  let rf := drive_chunked html_flavour false html_table html_simd ent c1 sk fuel inject chunks m log in
  regular (snd rf) ->
  exists k, forall j,
    let rs := drive_chunked html_flavour true html_table html_simd ent c1 sk (k + j) inject chunks m log in
    snd rs = snd rf /\ obs (mout (fst rs)) = obs (mout (fst rf)) /\ ceq (mc (fst rs)) (mc (fst rf)) /\
    mq (fst rs) = mq (fst rf) /\ mcons (fst rs) = mcons (fst rf).
Proof.
  intros ent c1 sk.
  exact (bulk_chunked_obs html_flavour html_table simd_first_guard simd_tail_stop simd_tail_newline ent c1 sk hstate_beq
           hstate_beq_eq html_step_ok_all html_eof_lockstep_all).
Qed.

(* ... and against the REFERENCE semantics (flat queue, unit reads, exact mode) *)
Theorem html_bulk_chunked_reference : forall ent c1 sk fuel inject chunks (m : mach hstate queue) log,
  wfq (mq m) ->
  let rf := drive_chunked html_flavour false html_table html_simd ent c1 sk fuel inject chunks m log in
  regular (snd rf) ->
  exists k, forall j,
    let rs := drive_flat html_flavour true html_table html_simd ent c1 sk (k + j) inject chunks
                (mkmach (mc m) (qflat (mq m)) (mout m) (mcons m)) log in
    snd rs = snd rf /\ obs (mout (fst rs)) = obs (mout (fst rf)) /\ ceq (mc (fst rs)) (mc (fst rf)) /\
    mq (fst rs) = qflat (mq (fst rf)) /\ mcons (fst rs) = mcons (fst rf).
Proof.
  intros ent c1 sk.
  exact (bulk_chunked_reference html_flavour html_table simd_first_guard simd_tail_stop simd_tail_newline ent c1 sk hstate_beq
           hstate_beq_eq html_step_ok_all html_eof_lockstep_all).
Qed.

(* the statement in the shape of C03 / C08: one input, any start state, any sink script, any fuel.  If the run of the
   chunked interpreter in the tokenizer's DEFAULT mode (exact_errors = false: bulk reads, SIMD scan) ends regularly, then
   for every large enough fuel the reference interpreter (flat queue, one character at a time, exact_errors = true)
   reports the same results and delivers the same tokens up to [obs]: parse errors dropped, adjacent character tokens
   merged (annotated with the line and consumed-count of their last character), every other token kept with its line *)
Theorem html_default_mode_is_reference_up_to_obs : forall ent c1 sk inject s0 last input fuel,
  let fast := drive_chunked html_flavour false html_table html_simd ent c1 sk fuel inject [input]
                (mkmach (init_cfg s0 last false) [] [] 0) [] in
  regular (snd fast) ->
  exists fuel0, forall fuel', (fuel0 <= fuel')%nat ->
    let ref := drive_flat html_flavour true html_table html_simd ent c1 sk fuel' inject [input]
                 (mkmach (init_cfg s0 last false) [] [] 0) [] in
    obs (mout (fst fast)) = obs (mout (fst ref)) /\ snd fast = snd ref.
Proof.
  intros ent c1 sk inject s0 last input fuel fast Hreg.
  destruct (html_bulk_chunked_reference ent c1 sk fuel inject [input] (mkmach (init_cfg s0 last false) [] [] 0) []
              (Forall_nil _) Hreg) as (k & A).
  exists k. intros fuel' Hle. specialize (A (fuel' - k)%nat). cbv zeta in A.
  replace (k + (fuel' - k))%nat with fuel' in A by lia. destruct A as (A1 & A2 & _).
  cbv zeta. split; symmetry; assumption.
Qed.
Theorem html_default_mode_flat_is_reference_up_to_obs : forall ent c1 sk inject s0 last input fuel,
  let fast := drive_flat html_flavour false html_table html_simd ent c1 sk fuel inject [input]
                (mkmach (init_cfg s0 last false) [] [] 0) [] in
  regular (snd fast) ->
  exists fuel0, forall fuel', (fuel0 <= fuel')%nat ->
    let ref := drive_flat html_flavour true html_table html_simd ent c1 sk fuel' inject [input]
                 (mkmach (init_cfg s0 last false) [] [] 0) [] in
    obs (mout (fst fast)) = obs (mout (fst ref)) /\ snd fast = snd ref.
Proof.
  intros ent c1 sk inject s0 last input fuel fast Hreg.
  destruct (html_bulk_flat_obs ent c1 sk fuel inject [input] (mkmach (init_cfg s0 last false) [] [] 0) [] Hreg) as (k & A).
  exists k. intros fuel' Hle. specialize (A (fuel' - k)%nat). cbv zeta in A.
  replace (k + (fuel' - k))%nat with fuel' in A by lia. destruct A as (A1 & A2 & _).
  cbv zeta. split; symmetry; assumption.
Qed.

(* T1 and T2 composed: in the tokenizer's default mode the chunked interpreter's observable output - tokens up to [obs] -
   and the result of end() do not depend on how the input is cut into chunks (script pauses injecting text and
   encoding suspensions at the same logical positions included), whenever both runs end regularly *)
Theorem html_default_mode_chunking_independent_obs : forall ent c1 sk fuel1 fuel2 inj cs1 cs2 (m : mach hstate queue),
  wfq (mq m) -> discard_bom (mc m) = false ->
  all_nonempty cs1 -> all_nonempty cs2 -> cs1 <> [] -> cs2 <> [] -> concat cs1 = concat cs2 ->
  let f1 := drive_chunked html_flavour false html_table html_simd ent c1 sk fuel1 inj cs1 m [] in
  let f2 := drive_chunked html_flavour false html_table html_simd ent c1 sk fuel2 inj cs2 m [] in
  regular (snd f1) -> regular (snd f2) -> all_done (tl (snd f1)) -> all_done (tl (snd f2)) ->
  obs (mout (fst f1)) = obs (mout (fst f2)) /\ hd SSuspend (snd f1) = hd SSuspend (snd f2).
Proof.
  intros ent c1 sk fuel1 fuel2 inj cs1 cs2 m Hw HB N1 N2 E1 E2 EC f1 f2 R1 R2 D1 D2.
  destruct (html_bulk_chunked_reference ent c1 sk fuel1 inj cs1 m [] Hw R1) as (k1 & A1).
  destruct (html_bulk_chunked_reference ent c1 sk fuel2 inj cs2 m [] Hw R2) as (k2 & A2).
  specialize (A1 k2). specialize (A2 k1). cbv zeta in A1, A2. fold f1 in A1. fold f2 in A2.
  replace (k2 + k1)%nat with (k1 + k2)%nat in A2 by lia.
  pose proof (html_drive_chunking_independent html_simd ent c1 sk (k1 + k2) inj cs1 cs2
                (mkmach (mc m) (qflat (mq m)) (mout m) (mcons m)) HB N1 N2 E1 E2 EC) as CI.
  set (r1 := drive_flat html_flavour true html_table html_simd ent c1 sk (k1 + k2) inj cs1
               (mkmach (mc m) (qflat (mq m)) (mout m) (mcons m)) []) in *.
  set (r2 := drive_flat html_flavour true html_table html_simd ent c1 sk (k1 + k2) inj cs2
               (mkmach (mc m) (qflat (mq m)) (mout m) (mcons m)) []) in *.
  clearbody r1 r2 f1 f2.
  destruct A1 as (A11 & A12 & _). destruct A2 as (A21 & A22 & _).
  rewrite A11, A21 in CI. destruct (CI D1 D2) as [C1 C2].
  split; [rewrite <- A12, <- A22, C1; reflexivity|exact C2].
Qed.

(* ================================================================ xml5ever
   the same for the xml flavour: no SIMD scan (every bulk state has use_simd = false, so the SIMD sets are irrelevant),
   LF need not stop a run (get_preprocessed_char does not count lines), NUL becomes U+FFFD on the slow path and is in
   every bulk set, discard_char goes through get_char, EOF arms may emit tags and answer Script *)
Lemma xml_step_ok_all : forall guard stop nl s, step_ok xml_flavour guard stop nl xstate_beq (xml_step s) = true.
Proof. intros guard stop nl s. destruct s; try reflexivity; destruct k; reflexivity. Qed.
Lemma xml_eof_lockstep_all : forall s, ok_body false false (xml_eof s) = true.
Proof. intros s. destruct s; try reflexivity; destruct k; reflexivity. Qed.
Lemma xstate_beq_eq a b : xstate_beq a b = true -> a = b.
Proof. apply internal_xstate_dec_bl. Qed.

Theorem xml_bulk_flat_obs : forall simd ent c1 sk fuel inject chunks (m : mach xstate (list N)) log,
  let rf := drive_flat xml_flavour false xml_table simd ent c1 sk fuel inject chunks m log in
  regular (snd rf) ->
  exists k, forall j,
    let rs := drive_flat xml_flavour true xml_table simd ent c1 sk (k + j) inject chunks m log in
    snd rs = snd rf /\ obs (mout (fst rs)) = obs (mout (fst rf)) /\ ceq (mc (fst rs)) (mc (fst rf)) /\
    mq (fst rs) = mq (fst rf) /\ mcons (fst rs) = mcons (fst rf).
Proof.
  intros [[guard stop] nl] ent c1 sk.
  exact (bulk_flat_obs xml_flavour xml_table guard stop nl ent c1 sk xstate_beq xstate_beq_eq
           (xml_step_ok_all guard stop nl) xml_eof_lockstep_all).
Qed.
Theorem xml_bulk_chunked_obs : forall simd ent c1 sk fuel inject chunks (m : mach xstate queue) log,
  let rf := drive_chunked xml_flavour false xml_table simd ent c1 sk fuel inject chunks m log in
  regular (snd rf) ->
  exists k, forall j,
    let rs := drive_chunked xml_flavour true xml_table simd ent c1 sk (k + j) inject chunks m log in
    snd rs = snd rf /\ obs (mout (fst rs)) = obs (mout (fst rf)) /\ ceq (mc (fst rs)) (mc (fst rf)) /\
    mq (fst rs) = mq (fst rf) /\ mcons (fst rs) = mcons (fst rf).
Proof.
  intros [[guard stop] nl] ent c1 sk.
  exact (bulk_chunked_obs xml_flavour xml_table guard stop nl ent c1 sk xstate_beq xstate_beq_eq
           (xml_step_ok_all guard stop nl) xml_eof_lockstep_all).
Qed.
Theorem xml_bulk_chunked_reference : forall simd ent c1 sk fuel inject chunks (m : mach xstate queue) log,
  wfq (mq m) ->
  let rf := drive_chunked xml_flavour false xml_table simd ent c1 sk fuel inject chunks m log in
  regular (snd rf) ->
  exists k, forall j,
    let rs := drive_flat xml_flavour true xml_table simd ent c1 sk (k + j) inject chunks
                (mkmach (mc m) (qflat (mq m)) (mout m) (mcons m)) log in
    snd rs = snd rf /\ obs (mout (fst rs)) = obs (mout (fst rf)) /\ ceq (mc (fst rs)) (mc (fst rf)) /\
    mq (fst rs) = qflat (mq (fst rf)) /\ mcons (fst rs) = mcons (fst rf).
Proof.
  intros [[guard stop] nl] ent c1 sk.
  exact (bulk_chunked_reference xml_flavour xml_table guard stop nl ent c1 sk xstate_beq xstate_beq_eq
           (xml_step_ok_all guard stop nl) xml_eof_lockstep_all).
Qed.
Theorem xml_default_mode_is_reference_up_to_obs : forall simd ent c1 sk inject s0 last input fuel,
  let fast := drive_chunked xml_flavour false xml_table simd ent c1 sk fuel inject [input]
                (mkmach (init_cfg s0 last false) [] [] 0) [] in
  regular (snd fast) ->
  exists fuel0, forall fuel', (fuel0 <= fuel')%nat ->
    let ref := drive_flat xml_flavour true xml_table simd ent c1 sk fuel' inject [input]
                 (mkmach (init_cfg s0 last false) [] [] 0) [] in
    obs (mout (fst fast)) = obs (mout (fst ref)) /\ snd fast = snd ref.
Proof.
  intros simd ent c1 sk inject s0 last input fuel fast Hreg.
  destruct (xml_bulk_chunked_reference simd ent c1 sk fuel inject [input] (mkmach (init_cfg s0 last false) [] [] 0) []
              (Forall_nil _) Hreg) as (k & A).
  exists k. intros fuel' Hle. specialize (A (fuel' - k)%nat). cbv zeta in A.
  replace (k + (fuel' - k))%nat with fuel' in A by lia. destruct A as (A1 & A2 & _).
  cbv zeta. split; symmetry; assumption.
Qed.
Theorem xml_default_mode_chunking_independent_obs : forall simd ent c1 sk fuel1 fuel2 inj cs1 cs2 (m : mach xstate queue),
  wfq (mq m) -> J xml_table (mkmach (mc m) (qflat (mq m)) (mout m) (mcons m)) -> discard_bom (mc m) = false ->
  all_nonempty cs1 -> all_nonempty cs2 -> cs1 <> [] -> cs2 <> [] -> concat cs1 = concat cs2 ->
  let f1 := drive_chunked xml_flavour false xml_table simd ent c1 sk fuel1 inj cs1 m [] in
  let f2 := drive_chunked xml_flavour false xml_table simd ent c1 sk fuel2 inj cs2 m [] in
  regular (snd f1) -> regular (snd f2) -> all_done (tl (snd f1)) -> all_done (tl (snd f2)) ->
  obs (mout (fst f1)) = obs (mout (fst f2)) /\ hd SSuspend (snd f1) = hd SSuspend (snd f2).
Proof.
  intros simd ent c1 sk fuel1 fuel2 inj cs1 cs2 m Hw HJ HB N1 N2 E1 E2 EC f1 f2 R1 R2 D1 D2.
  destruct (xml_bulk_chunked_reference simd ent c1 sk fuel1 inj cs1 m [] Hw R1) as (k1 & A1).
  destruct (xml_bulk_chunked_reference simd ent c1 sk fuel2 inj cs2 m [] Hw R2) as (k2 & A2).
  specialize (A1 k2). specialize (A2 k1). cbv zeta in A1, A2. fold f1 in A1. fold f2 in A2.
  replace (k2 + k1)%nat with (k1 + k2)%nat in A2 by lia.
  pose proof (xml_drive_chunking_independent simd ent c1 sk (k1 + k2) inj cs1 cs2
                (mkmach (mc m) (qflat (mq m)) (mout m) (mcons m)) HJ HB N1 N2 E1 E2 EC) as CI.
  set (r1 := drive_flat xml_flavour true xml_table simd ent c1 sk (k1 + k2) inj cs1
               (mkmach (mc m) (qflat (mq m)) (mout m) (mcons m)) []) in *.
  set (r2 := drive_flat xml_flavour true xml_table simd ent c1 sk (k1 + k2) inj cs2
               (mkmach (mc m) (qflat (mq m)) (mout m) (mcons m)) []) in *.
  clearbody r1 r2 f1 f2.
  destruct A1 as (A11 & A12 & _). destruct A2 as (A21 & A22 & _).
  rewrite A11, A21 in CI. destruct (CI D1 D2) as [C1 C2].
  split; [rewrite <- A12, <- A22, C1; reflexivity|exact C2].
Qed.

(* ---------------------------------------------------------------- non-vacuity: a concrete document (a test, by computation)
   ab LF cd <p t='x NUL y&amp;z' u=v QUOT w> e&lt;f NUL g U+0001 h </p>      (QUOT = U+0022)
   text runs with a line feed (SIMD scan), a quoted attribute value with NUL and a character reference, an unquoted value
   with a quote (parse error on the slow path only), a character reference, NUL and a bad character in text *)
Definition ex_input : list N :=
  [97;98;10;99;100;60;112;32;116;61;39;120;0;121;38;97;109;112;59;122;39;32;117;61;118;34;119;62;101;38;108;116;59;
   102;0;103;1;104;60;47;112;62].
Definition ex_sk : sinkcfg := {| sk_resp := []; sk_foreign := false |}.
Definition ex_fast := drive_chunked html_flavour false html_table html_simd (alookup entities) (fun _ => None) ex_sk 400 []
                        [ex_input] (mkmach (init_cfg HData None false) [] [] 0) [].
Definition ex_ref := drive_flat html_flavour true html_table html_simd (alookup entities) (fun _ => None) ex_sk 400 []
                       [ex_input] (mkmach (init_cfg HData None false) [] [] 0) [].
Definition regular_b (l : list sres) : bool :=
  forallb (fun r => match r with SPanic 98 | SPanic 97 => false | _ => true end) l.
Definition is_error (e : token * N * N) : bool := match e with (TError, _, _) => true | _ => false end.
Lemma ex_bulk_obs :
  regular_b (snd ex_fast) = true /\ snd ex_fast = snd ex_ref /\
  obs (mout (fst ex_fast)) = obs (mout (fst ex_ref)) /\
  (length (mout (fst ex_fast)), length (mout (fst ex_ref)), length (obs (mout (fst ex_ref)))) = (11, 19, 7)%nat /\
  (length (filter is_error (mout (fst ex_fast))), length (filter is_error (mout (fst ex_ref)))) = (2, 4)%nat /\
  rev (obs (mout (fst ex_ref))) =
    [(TChars [97; 98; 10; 99; 100], 2, 5);
     (TTag TStartTag [112] false [([116], [120; 65533; 121; 38; 122]); ([117], [118; 34; 119])] false, 2, 28);
     (TChars [101; 60; 102], 2, 34); (TNull, 2, 35); (TChars [103; 1; 104], 2, 38);
     (TTag TEndTag [112] false [] false, 2, 42); (TEof, 2, 42)].
Proof. vm_compute. repeat split; reflexivity. Qed.

(* xml: x LF y <a b='p NUL q&amp;r' c="s"> t NUL u U+0001 v &lt; </a>   - the slow path turns NUL into U+FFFD before the arms
   see it, in text and in attribute values alike; LF does not stop the data run *)
Definition xex_input : list N :=
  [120;10;121;60;97;32;98;61;39;112;0;113;38;97;109;112;59;114;39;32;99;61;34;115;34;62;116;0;117;1;118;38;108;116;59;60;47;97;62].
Definition xex_fast := drive_chunked xml_flavour false xml_table ([], [], []) (alookup entities) (fun _ => None) ex_sk 400 []
                         [xex_input] (mkmach (init_cfg XData None false) [] [] 0) [].
Definition xex_ref := drive_flat xml_flavour true xml_table ([], [], []) (alookup entities) (fun _ => None) ex_sk 400 []
                        [xex_input] (mkmach (init_cfg XData None false) [] [] 0) [].
Lemma xex_bulk_obs :
  regular_b (snd xex_fast) = true /\ snd xex_fast = snd xex_ref /\
  obs (mout (fst xex_fast)) = obs (mout (fst xex_ref)) /\
  (length (mout (fst xex_fast)), length (mout (fst xex_ref)), length (obs (mout (fst xex_ref)))) = (8, 13, 5)%nat /\
  (length (filter is_error (mout (fst xex_fast))), length (filter is_error (mout (fst xex_ref)))) = (0, 1)%nat /\
  rev (obs (mout (fst xex_ref))) =
    [(TChars [120; 10; 121], 1, 3);
     (TTag TStartTag [97] false [([98], [112; 65533; 113; 38; 114]); ([99], [115])] false, 1, 26);
     (TChars [116; 65533; 117; 1; 118; 60], 1, 35); (TTag TEndTag [97] false [] false, 1, 39); (TEof, 1, 39)].
Proof. vm_compute. repeat split; reflexivity. Qed.
