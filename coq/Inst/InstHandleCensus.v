(* Instantiation of the census check on the REGENERATED field lists (vm_compute).
   Breaks when a Handle-bearing field (or Handle-carrying enum variant) is added to
   TreeBuilder / XmlTreeBuilder without a matching visit in trace_handles, or when a
   visit is removed. *)
From Coq Require Import List String Bool.
From HV Require Import SinkSpec.HandleCensus Gen.GenHandleCensus.
Import ListNotations.

Lemma html_census_ok :
  census_ok html_handle_fields html_traced_fields html_handle_variants html_traced_variants = true.
Proof. vm_compute. reflexivity. Qed.

Lemma xml_census_ok :
  census_ok xml_handle_fields xml_traced_fields xml_handle_variants xml_traced_variants = true.
Proof. vm_compute. reflexivity. Qed.

(* the census is not vacuous: both builders hold handles *)
Lemma html_census_nonempty : html_handle_fields <> []. Proof. discriminate. Qed.
Lemma xml_census_nonempty : xml_handle_fields <> []. Proof. discriminate. Qed.
