(* Instantiation of the reflective checks on the REGENERATED tokenizer tables (vm_compute).
   Each lemma breaks deterministically when the corresponding cell of the Rust source changes. *)
From Coq Require Import List NArith Bool.
From HV Require Import TokIR.IR TokIR.Interp TokIR.Checks Gen.GenHtmlTok.
Import ListNotations.

Lemma html_sets_adequate : sets_adequate hstate_beq true html_table = []. Proof. vm_compute. reflexivity. Qed.
Lemma html_raw_discard_safe : raw_discard_safe html_table = []. Proof. vm_compute. reflexivity. Qed.
Lemma html_eof_rank_ok : eof_rank_ok html_table = []. Proof. vm_compute. reflexivity. Qed.
Lemma html_charref_states_ok : charref_states_ok html_flavour html_table = []. Proof. vm_compute. reflexivity. Qed.
Lemma html_reads_first : reads_first html_table = []. Proof. vm_compute. reflexivity. Qed.
Lemma html_no_fall : no_fall html_table = []. Proof. vm_compute. reflexivity. Qed.
Lemma simd_sets_consistent :
  simd_consistent (match html_step HData with BPop s _ _ _ => s | _ => [] end)
                  simd_first_guard simd_tail_stop simd_tail_newline simd_lane_stop simd_lane_newline = true.
Proof. vm_compute. reflexivity. Qed.
