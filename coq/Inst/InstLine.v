(* C09: instantiation of TokIR/LineInv.v on the REGENERATED html tokenizer table.  The three table conditions are
   decided here (they break deterministically when a cell of the Rust source changes so that a line break could be
   consumed uncounted, e.g. a raw discard of a possible CR/LF, an eat pattern with a line break, a reconsume into a
   peeking state, a state entered with a dirty temp_buf before eat()). *)
From Coq Require Import List NArith Bool.
From HV Require Import TokIR.IR TokIR.Interp TokIR.Checks TokIR.LineInv Gen.GenHtmlTok.
From HV Require Import CharRef.CRModel CharRef.CRTable Gen.GenEntities.
Import ListNotations.
Local Open Scope N_scope.

(* states that can hold a non-empty temp_buf between steps: the raw-text end-tag matcher, the script double-escape
   matcher and the CDATA section; every other state is only ever entered with an empty temp_buf *)
Definition html_clean (s : hstate) : bool :=
  match s with
  | HRawData _ | HRawLessThanSign _ | HRawEndTagOpen _ | HRawEndTagName _
  | HScriptDataEscapeStart _ | HScriptDataEscapeStartDash | HScriptDataEscapedDash _
  | HScriptDataEscapedDashDash _ | HScriptDataDoubleEscapeEnd
  | HCdataSection | HCdataSectionBracket | HCdataSectionEnd => false
  | _ => true
  end.

Lemma html_start_ok_all : forall s, start_ok html_table html_clean s = true.
Proof. intros s. destruct s; try reflexivity; destruct k; try reflexivity; destruct k; reflexivity. Qed.
Lemma html_eof_ok_all : forall s, eof_ok (t_eof html_table s) = true.
Proof. intros s. destruct s; try reflexivity; destruct k; try reflexivity; destruct k; reflexivity. Qed.
Lemma html_eat_clean_all : forall s, eatS html_table s = true -> html_clean s = true.
Proof.
  intros s. destruct s; try reflexivity; intros H; try discriminate H;
    destruct k; try discriminate H; destruct k; discriminate H.
Qed.

(* the step-boundary invariant on the html table *)
Definition HtmlLineInv (input : list N) (at_eof : bool) (m : mach hstate (list N)) : Prop :=
  Inv html_table input html_clean at_eof m.

Section Html.
Variable simd : list N * list N * list N.
Variable ent : list N -> option (N * N).
Variable c1 : N -> option N.
Variable sk : sinkcfg.
Hypothesis Hent : forall buf v, ent buf = Some v -> nobreaks buf = true.

Notation stepH := (step [] fq_next fq_peek (@app N) (fun q => q) fq_run1 html_flavour true html_table simd ent c1 sk).
Notation runH := (run [] fq_next fq_peek (@app N) (fun q => q) fq_run1 html_flavour true html_table simd ent c1 sk).

Lemma html_line_inv_init input s0 last :
  HtmlLineInv input false (mkmach (init_cfg s0 last false) input [] 0).
Proof.
  exact (init_Inv html_table simd ent input html_clean html_eat_clean_all s0 last).
Qed.
Lemma html_line_inv_step input a m : HtmlLineInv input false m -> HtmlLineInv input a (fst (stepH a m)).
Proof.
  exact (step_ok html_flavour html_table simd ent c1 sk input eq_refl html_clean html_eat_clean_all
                 html_start_ok_all Hent a m).
Qed.
Lemma html_line_inv_run input a fuel m : HtmlLineInv input false m -> HtmlLineInv input false (fst (runH a fuel m)).
Proof.
  exact (run_ok html_flavour html_table simd ent c1 sk input eq_refl html_clean html_eat_clean_all
                html_start_ok_all Hent a fuel m).
Qed.
Lemma html_line_inv_law input a m : HtmlLineInv input a m -> line_law input (mout m).
Proof. exact (Inv_line_law html_table input html_clean a m). Qed.

Lemma html_drive_line_law input fuel s0 last :
  line_law input (mout (fst (drive_flat html_flavour true html_table simd ent c1 sk fuel [] [input]
                                        (mkmach (init_cfg s0 last false) [] [] 0) []))).
Proof.
  exact (drive_line_law html_flavour html_table simd ent c1 sk input eq_refl html_clean html_eat_clean_all
                        html_start_ok_all Hent html_eof_ok_all fuel s0 last).
Qed.
Lemma html_feed_line_law input fuel s0 last :
  line_law input
    (mout (fst (feed_loop [] fq_next fq_peek (@app N) (fun q => q) fq_run1 html_flavour true html_table
                          simd ent c1 sk 50 fuel [] (mkmach (init_cfg s0 last false) input [] 0) []))).
Proof.
  exact (feed_line_law html_flavour html_table simd ent c1 sk input eq_refl html_clean html_eat_clean_all
                       html_start_ok_all Hent fuel s0 last).
Qed.
End Html.

(* ---------------------------------------------------------------- the entity table of the pinned source *)
(* the hypothesis on the entity table holds of web_atoms::NAMED_ENTITIES as compiled (Gen/GenEntities.v, 9854 keys
   including the prefix entries): no key contains CR or LF *)
Lemma entities_no_breaks : forallb (fun e => nobreaks (fst e)) entities = true.
Proof. vm_compute. reflexivity. Qed.
Lemma alookup_nobreaks : forall l buf v, forallb (fun e => nobreaks (fst e)) l = true ->
  alookup l buf = Some v -> nobreaks buf = true.
Proof.
  induction l as [|[k' v'] l IH]; intros buf v H E; cbn in E; [discriminate|].
  cbn in H. apply andb_prop in H. destruct H as [H1 H2].
  destruct (list_eqb k' buf) eqn:Ek; [|eapply IH; eassumption].
  apply list_eqb_eq in Ek. subst. exact H1.
Qed.
Lemma real_entities_ok : forall buf v, alookup entities buf = Some v -> nobreaks buf = true.
Proof. intros buf v. apply alookup_nobreaks. exact entities_no_breaks. Qed.

(* the law with the entity table of the pinned source: no hypothesis left *)
Lemma html_drive_line_law_entities simd c1 sk input fuel s0 last :
  line_law input (mout (fst (drive_flat html_flavour true html_table simd (alookup entities) c1 sk fuel [] [input]
                                        (mkmach (init_cfg s0 last false) [] [] 0) []))).
Proof. exact (html_drive_line_law simd (alookup entities) c1 sk real_entities_ok input fuel s0 last). Qed.

(* ---------------------------------------------------------------- non-vacuity: a run over a concrete document *)
Definition line_law_b (input : list N) (o : list (token * N * N)) : bool :=
  forallb (fun '(_, ln, k) => ln =? 1 + breaks (firstn (N.to_nat k) input)) o.

(* <a x=CR LF 'v CR w LF'>&amp; CR &#10;&am LF <!-- c CR LF --> LF <!DOCTYPE CR html> LF U+0001 x *)
Definition ex_input : list N :=
  [60;97;32;120;61;13;10;39;118;13;119;10;39;62;38;97;109;112;59;13;38;35;49;48;59;38;97;109;10;
   60;33;45;45;32;99;13;10;32;45;45;62;10;60;33;68;79;67;84;89;80;69;13;104;116;109;108;62;10;1;120].
Definition ex_run :=
  drive_flat html_flavour true html_table (simd_first_guard, simd_tail_stop, simd_tail_newline)
             (alookup entities) (fun _ => None) {| sk_resp := []; sk_foreign := false |} 400 [] [ex_input]
             (mkmach (init_cfg HData None false) [] [] 0) [].
Definition ex_positions : list (N * N) := map (fun '(_, ln, k) => (ln, k)) (rev (mout (fst ex_run))).

(* a test, not a proof: the boolean law evaluated on the tokens of this run (tag spanning four lines, CR LF, lone
   CR, LF, named and numeric references, an unfinished reference that is put back, comment, doctype, a bad
   character reported as a parse error, EOF at the last line with everything consumed) *)
Lemma ex_run_obeys_law :
  line_law_b ex_input (mout (fst ex_run)) = true /\
  ex_positions = [(4, 14); (4, 19); (5, 20); (5, 25); (5, 26); (5, 27); (5, 28); (6, 29); (7, 41); (8, 42);
                  (9, 57); (10, 58); (10, 59); (10, 59); (10, 60); (10, 60)] /\
  lenN ex_input = 60 /\ breaks ex_input = 9.
Proof. vm_compute. auto. Qed.
