(* C04 / C03 / C15: the tokenizers in their REAL default configuration - exact_errors = false, chunked queue, bulk reads,
   SIMD scan for html - terminate and never reach a panic site, and the default-mode chunk-independence theorems hold
   without regularity hypotheses.  Transport: with fuel above the bound the default-mode run is regular
   (Inst/InstBulkTerm.v), a regular default-mode run has the log of the reference run with any larger fuel
   (TokIR/BulkSim.v), and the reference log is characterised by TokIR/NoPanic.v / NoPanicX.v.  Also the flat-queue
   instance of the default-mode termination theorem. *)
From Coq Require Import List NArith Bool Lia Arith.
From RecordUpdate Require Import RecordSet.
From HV Require Import TokIR.IR TokIR.Interp TokIR.Checks TokIR.Chunk TokIR.QueueSim TokIR.ChunkExec TokIR.ChunkInv TokIR.BulkSim TokIR.BulkTerm.
From HV Require Import TokIR.LineInv TokIR.Termination TokIR.NoPanic Gen.GenHtmlTok Gen.GenXmlTok.
From HV Require Import Inst.InstChunk Inst.InstBulk Inst.InstLine Inst.InstTermination Inst.InstTermX Inst.InstNoPanic Inst.InstBulkTerm.
From HV Require TokIR.TermX TokIR.NoPanicX Inst.InstNoPanicX.
Import ListNotations RecordSetNotations.

Notation freshq s0 last := (mkmach (init_cfg s0 last false) ([] : queue) [] 0%N).
Notation freshl s0 last := (mkmach (init_cfg s0 last false) ([] : list N) [] 0%N).

(* ================================================================ html5ever *)
Section Html.
Variable ent : list N -> option (N * N).
Variable c1 : N -> option N.
Variable sk : sinkcfg.
Hypothesis Hsk : html_sink_ok sk = true.
Notation fastH := (drive_chunked html_flavour false html_table html_simd ent c1 sk).
Notation refH := (drive_flat html_flavour true html_table html_simd ent c1 sk).

(* the default-mode log is the reference log *)
Lemma html_default_log_is_reference fuel inj chunks s0 last :
  (html_fuel (length (concat chunks) + length chunks * (50 * length inj)) <= fuel)%nat -> (4 <= fuel)%nat ->
  exists fuel', (fuel <= fuel')%nat /\ snd (fastH fuel inj chunks (freshq s0 last) []) = snd (refH fuel' inj chunks (freshl s0 last) []).
Proof.
  intros Hf HD. pose proof (html_default_regular_fresh ent c1 sk fuel inj chunks s0 last Hf HD) as Hreg.
  destruct (html_bulk_chunked_reference ent c1 sk fuel inj chunks (freshq s0 last) [] (Forall_nil _) Hreg) as (k & A).
  exists (k + fuel)%nat. split; [lia|]. destruct (A fuel) as (A1 & _). symmetry. exact A1.
Qed.

Theorem html_tokenizer_total_default_mode fuel inj chunks s0 last :
  html_kind_ok s0 = true ->
  (html_fuel (length (concat chunks) + length chunks * (50 * length inj)) <= fuel)%nat -> (4 <= fuel)%nat ->
  log_ok (snd (fastH fuel inj chunks (freshq s0 last) [])).
Proof.
  intros Hk Hf HD. destruct (html_default_log_is_reference fuel inj chunks s0 last Hf HD) as (fuel' & Hle & E). rewrite E.
  apply (html_tokenizer_total html_simd ent c1 sk Hsk); [exact Hk|lia|lia].
Qed.
Theorem html_tokenizer_total_default_mode_quiet fuel inj chunks s0 last :
  html_sink_never_pauses sk = true -> html_kind_ok s0 = true ->
  (html_fuel (length (concat chunks) + length chunks * (50 * length inj)) <= fuel)%nat -> (4 <= fuel)%nat ->
  Forall (eq SSuspend) (snd (fastH fuel inj chunks (freshq s0 last) [])).
Proof.
  intros Hq Hk Hf HD. destruct (html_default_log_is_reference fuel inj chunks s0 last Hf HD) as (fuel' & Hle & E). rewrite E.
  apply (html_tokenizer_total_quiet html_simd ent c1 sk Hsk); [exact Hq|exact Hk| |lia].
  pose proof (run_bound_mono 4 (length (concat chunks)) (length (concat chunks) + length chunks * (50 * length inj)) ltac:(lia)) as M.
  unfold html_fuel in *. lia.
Qed.

(* chunk independence in default mode from a fresh tokenizer: only the fuel bounds and the driver model's pause limit *)
Theorem html_default_mode_chunking_independent_total fuel1 fuel2 inj cs1 cs2 s0 last :
  html_kind_ok s0 = true ->
  all_nonempty cs1 -> all_nonempty cs2 -> cs1 <> [] -> cs2 <> [] -> concat cs1 = concat cs2 ->
  (html_fuel (length (concat cs1) + length cs1 * (50 * length inj)) <= fuel1)%nat -> (4 <= fuel1)%nat ->
  (html_fuel (length (concat cs2) + length cs2 * (50 * length inj)) <= fuel2)%nat -> (4 <= fuel2)%nat ->
  let f1 := fastH fuel1 inj cs1 (freshq s0 last) [] in
  let f2 := fastH fuel2 inj cs2 (freshq s0 last) [] in
  ~ In (SPanic 96) (snd f1) -> ~ In (SPanic 96) (snd f2) ->
  obs (mout (fst f1)) = obs (mout (fst f2)) /\ hd SSuspend (snd f1) = hd SSuspend (snd f2).
Proof.
  intros Hk N1 N2 E1 E2 EC F1 D1 F2 D2 f1 f2 P1 P2.
  apply (html_default_mode_chunking_independent_obs_total ent c1 sk fuel1 fuel2 inj cs1 cs2 s0 last N1 N2 E1 E2 EC F1 D1 F2 D2).
  - apply log_ok_all_done; [apply html_tokenizer_total_default_mode; assumption|exact P1].
  - apply log_ok_all_done; [apply html_tokenizer_total_default_mode; assumption|exact P2].
Qed.
Theorem html_default_mode_chunking_independent_quiet fuel1 fuel2 inj cs1 cs2 s0 last :
  html_sink_never_pauses sk = true -> html_kind_ok s0 = true ->
  all_nonempty cs1 -> all_nonempty cs2 -> cs1 <> [] -> cs2 <> [] -> concat cs1 = concat cs2 ->
  (html_fuel (length (concat cs1) + length cs1 * (50 * length inj)) <= fuel1)%nat -> (4 <= fuel1)%nat ->
  (html_fuel (length (concat cs2) + length cs2 * (50 * length inj)) <= fuel2)%nat -> (4 <= fuel2)%nat ->
  let f1 := fastH fuel1 inj cs1 (freshq s0 last) [] in
  let f2 := fastH fuel2 inj cs2 (freshq s0 last) [] in
  obs (mout (fst f1)) = obs (mout (fst f2)) /\ hd SSuspend (snd f1) = hd SSuspend (snd f2).
Proof.
  intros Hq Hk N1 N2 E1 E2 EC F1 D1 F2 D2 f1 f2.
  apply (html_default_mode_chunking_independent_obs_total ent c1 sk fuel1 fuel2 inj cs1 cs2 s0 last N1 N2 E1 E2 EC F1 D1 F2 D2).
  - apply quiet_all_done. apply html_tokenizer_total_default_mode_quiet; assumption.
  - apply quiet_all_done. apply html_tokenizer_total_default_mode_quiet; assumption.
Qed.
End Html.

(* ================================================================ xml5ever *)
Section Xml.
Variable simd : list N * list N * list N.
Variable ent : list N -> option (N * N).
Variable c1 : N -> option N.
Variable sk : sinkcfg.
Notation fastX := (drive_chunked xml_flavour false xml_table simd ent c1 sk).
Notation refX := (drive_flat xml_flavour true xml_table simd ent c1 sk).

Lemma xml_default_log_is_reference fuel inj chunks s0 last :
  (xml_fuel (length (concat chunks) + length chunks * (50 * length inj)) <= fuel)%nat -> (4 <= fuel)%nat ->
  exists fuel', (fuel <= fuel')%nat /\ snd (fastX fuel inj chunks (freshq s0 last) []) = snd (refX fuel' inj chunks (freshl s0 last) []).
Proof.
  intros Hf HD. pose proof (xml_default_regular_fresh simd ent c1 sk fuel inj chunks s0 last Hf HD) as Hreg.
  destruct (xml_bulk_chunked_reference simd ent c1 sk fuel inj chunks (freshq s0 last) [] (Forall_nil _) Hreg) as (k & A).
  exists (k + fuel)%nat. split; [lia|]. destruct (A fuel) as (A1 & _). symmetry. exact A1.
Qed.
Theorem xml_tokenizer_total_default_mode fuel inj chunks s0 last :
  InstNoPanicX.xml_kind_ok s0 = true ->
  (xml_fuel (length (concat chunks) + length chunks * (50 * length inj)) <= fuel)%nat -> (4 <= fuel)%nat ->
  NoPanicX.log_okx (snd (fastX fuel inj chunks (freshq s0 last) [])).
Proof.
  intros Hk Hf HD. destruct (xml_default_log_is_reference fuel inj chunks s0 last Hf HD) as (fuel' & Hle & E). rewrite E.
  apply (InstNoPanicX.xml_tokenizer_total simd ent c1 sk); [exact Hk|lia|lia].
Qed.
Theorem xml_tokenizer_total_default_mode_quiet fuel inj chunks s0 last :
  sk_quiet sk = true -> InstNoPanicX.xml_kind_ok s0 = true ->
  (xml_fuel (length (concat chunks) + length chunks * (50 * length inj)) <= fuel)%nat -> (4 <= fuel)%nat ->
  Forall (eq SSuspend) (snd (fastX fuel inj chunks (freshq s0 last) [])).
Proof.
  intros Hq Hk Hf HD. destruct (xml_default_log_is_reference fuel inj chunks s0 last Hf HD) as (fuel' & Hle & E). rewrite E.
  apply (InstNoPanicX.xml_tokenizer_total_quiet simd ent c1 sk); [exact Hq|exact Hk| |lia].
  pose proof (run_bound_mono 4 (length (concat chunks)) (length (concat chunks) + length chunks * (50 * length inj)) ltac:(lia)) as M.
  unfold xml_fuel in *. lia.
Qed.

Lemma log_okx_all_done log : NoPanicX.log_okx log -> ~ In (SPanic 96) log -> all_done (tl log).
Proof.
  intros (rest & -> & H) N96. cbn [tl]. unfold all_done. rewrite Forall_forall in *. intros x Hx.
  destruct (H x Hx) as [F|F]; [exact F|]. exfalso. apply N96. right. rewrite <- F. exact Hx.
Qed.

Theorem xml_default_mode_chunking_independent_total fuel1 fuel2 inj cs1 cs2 s0 last :
  InstNoPanicX.xml_kind_ok s0 = true ->
  all_nonempty cs1 -> all_nonempty cs2 -> cs1 <> [] -> cs2 <> [] -> concat cs1 = concat cs2 ->
  (xml_fuel (length (concat cs1) + length cs1 * (50 * length inj)) <= fuel1)%nat -> (4 <= fuel1)%nat ->
  (xml_fuel (length (concat cs2) + length cs2 * (50 * length inj)) <= fuel2)%nat -> (4 <= fuel2)%nat ->
  let f1 := fastX fuel1 inj cs1 (freshq s0 last) [] in
  let f2 := fastX fuel2 inj cs2 (freshq s0 last) [] in
  ~ In (SPanic 96) (snd f1) -> ~ In (SPanic 96) (snd f2) ->
  obs (mout (fst f1)) = obs (mout (fst f2)) /\ hd SSuspend (snd f1) = hd SSuspend (snd f2).
Proof.
  intros Hk N1 N2 E1 E2 EC F1 D1 F2 D2 f1 f2 P1 P2.
  apply (xml_default_mode_chunking_independent_obs simd ent c1 sk fuel1 fuel2 inj cs1 cs2 (freshq s0 last)
           (Forall_nil _) (xml_J_init s0 last false [] [] 0%N) eq_refl N1 N2 E1 E2 EC).
  - apply xml_default_regular_fresh; assumption.
  - apply xml_default_regular_fresh; assumption.
  - apply log_okx_all_done; [apply xml_tokenizer_total_default_mode; assumption|exact P1].
  - apply log_okx_all_done; [apply xml_tokenizer_total_default_mode; assumption|exact P2].
Qed.
Theorem xml_default_mode_chunking_independent_quiet fuel1 fuel2 inj cs1 cs2 s0 last :
  sk_quiet sk = true -> InstNoPanicX.xml_kind_ok s0 = true ->
  all_nonempty cs1 -> all_nonempty cs2 -> cs1 <> [] -> cs2 <> [] -> concat cs1 = concat cs2 ->
  (xml_fuel (length (concat cs1) + length cs1 * (50 * length inj)) <= fuel1)%nat -> (4 <= fuel1)%nat ->
  (xml_fuel (length (concat cs2) + length cs2 * (50 * length inj)) <= fuel2)%nat -> (4 <= fuel2)%nat ->
  let f1 := fastX fuel1 inj cs1 (freshq s0 last) [] in
  let f2 := fastX fuel2 inj cs2 (freshq s0 last) [] in
  obs (mout (fst f1)) = obs (mout (fst f2)) /\ hd SSuspend (snd f1) = hd SSuspend (snd f2).
Proof.
  intros Hq Hk N1 N2 E1 E2 EC F1 D1 F2 D2 f1 f2.
  apply (xml_default_mode_chunking_independent_obs simd ent c1 sk fuel1 fuel2 inj cs1 cs2 (freshq s0 last)
           (Forall_nil _) (xml_J_init s0 last false [] [] 0%N) eq_refl N1 N2 E1 E2 EC).
  - apply xml_default_regular_fresh; assumption.
  - apply xml_default_regular_fresh; assumption.
  - apply (quiet_all_done). apply xml_tokenizer_total_default_mode_quiet; assumption.
  - apply (quiet_all_done). apply xml_tokenizer_total_default_mode_quiet; assumption.
Qed.
End Xml.

(* ================================================================ the flat queue with unit runs in default mode *)
Section FlatTerm.
Context {S : Type}.
Variable fl : flavour S.
Variable tb : table S.
Variables guard stop nl : list N.
Variable ent : list N -> option (N * N).
Variable c1 : N -> option N.
Variable sk : sinkcfg.
Variable seqb : S -> S -> bool.
Hypothesis seqb_eq : forall a b, seqb a b = true -> a = b.
Hypothesis Hstep : forall s, BulkSim.step_ok fl guard stop nl seqb (t_step tb s) = true.
Hypothesis Heof : forall s, BulkSim.ok_body false false (t_eof tb s) = true.
Variable clean : S -> bool.
Variable R D : nat.
Notation simd := (guard, stop, nl).
Notation MF := (mach S (list N)).
Notation feedFl := (@feed S (list N) [] fq_next fq_peek (@app N) (fun q => q) fq_run1 fl true tb simd ent c1 sk).
Notation endFl := (@tok_end S (list N) [] fq_next fq_peek (@app N) (fun q => q) fq_run1 fl true tb simd ent c1 sk).
Hypothesis Hfeed_flat : forall fuel (m : MF), TI tb clean m -> (run_bound R (Tl tb m) <= fuel)%nat ->
  TI tb clean (fst (feedFl fuel m)) /\ (Tl tb (fst (feedFl fuel m)) <= Tl tb m)%nat /\ Termination.okr (snd (feedFl fuel m)).
Hypothesis Hend_flat : forall fuel (m : MF), TI tb clean m -> (run_bound R (Tl tb m) <= fuel)%nat -> (D <= fuel)%nat ->
  Termination.okr (snd (endFl fuel m)).

Definition goodf (ms : MF) (T : nat) : Prop := TI tb clean ms /\ (Tl tb ms <= T)%nat.

Lemma goodf_feed (ms : MF) T fuel : goodf ms T -> (run_bound R T <= fuel)%nat ->
  BulkTerm.okr (snd (feedFl fuel ms)) /\ goodf (fst (feedFl fuel ms)) T.
Proof.
  intros (I & L) Hf. assert (Hf' : (run_bound R (Tl tb ms) <= fuel)%nat) by (pose proof (run_bound_mono R _ _ L); lia).
  destruct (Hfeed_flat fuel ms I Hf') as (F1 & F2 & F3). split; [exact F3|split; [exact F1|lia]].
Qed.
Lemma goodf_end (ms : MF) T fuel : goodf ms T -> (run_bound R T <= fuel)%nat -> (D <= fuel)%nat -> BulkTerm.okr (snd (endFl fuel ms)).
Proof.
  intros (I & L) Hf HD. assert (Hf' : (run_bound R (Tl tb ms) <= fuel)%nat) by (pose proof (run_bound_mono R _ _ L); lia).
  exact (Hend_flat fuel ms I Hf' HD).
Qed.
Lemma goodf_inj (ms : MF) T inj : goodf ms T -> goodf (ms <| mq ::= app inj |>) (T + length inj)%nat.
Proof.
  destruct ms as [cf q o k]. intros (I & L). set (ms := mkmach cf q o k) in *. set (ms' := ms <| mq ::= app inj |>).
  assert (Ecv : cv ms' = cv ms) by reflexivity.
  assert (Eq : qn ms' = (length inj + qn ms)%nat) by (change (length (inj ++ q) = (length inj + length q)%nat); apply app_length).
  split; [eapply TI_same; eassumption|]. rewrite (Tl_same tb _ _ Ecv). lia.
Qed.
Lemma goodf_push (ms : MF) T ch : goodf ms T -> goodf (ms <| mq ::= (fun q => q ++ ch) |>) (T + length ch)%nat.
Proof.
  destruct ms as [cf q o k]. intros (I & L). set (ms := mkmach cf q o k) in *. set (ms' := ms <| mq ::= (fun q => q ++ ch) |>).
  assert (Ecv : cv ms' = cv ms) by reflexivity.
  assert (Eq : qn ms' = (qn ms + length ch)%nat) by (change (length (q ++ ch) = (length q + length ch)%nat); apply app_length).
  split; [eapply TI_same; eassumption|]. rewrite (Tl_same tb _ _ Ecv). lia.
Qed.
Lemma goodf_mono (ms : MF) T T' : goodf ms T -> (T <= T')%nat -> goodf ms T'.
Proof. intros (I & L) H. split; [exact I|lia]. Qed.

Theorem flat_default_regular fuel inj chunks (m : MF) log :
  TI tb clean m ->
  (run_bound R (Tl tb m + length (concat chunks) + length chunks * (50 * length inj)) <= fuel)%nat -> (D <= fuel)%nat ->
  regular log -> regular (snd (drive_flat fl false tb simd ent c1 sk fuel inj chunks m log)).
Proof.
  intros I Hf HD [L1 L2]. apply okl_regular.
  apply (drive_fast_regular [] fq_next fq_peek (@app N) (@app N) (fun q => q) fq_run1 flat_peek_next flat_run_ok
           fl tb guard stop nl ent c1 sk seqb seqb_eq Hstep Heof goodf (run_bound R) D (run_bound_mono R)
           goodf_feed goodf_inj goodf_push goodf_mono goodf_end fuel inj chunks m m log (Tl tb m)).
  - apply Rel_refl.
  - split; [exact I|lia].
  - exact Hf.
  - exact HD.
  - unfold okl. apply Forall_forall. intros x Hx. split; intros ->; [apply L1|apply L2]; exact Hx.
Qed.
End FlatTerm.

Theorem html_flat_default_regular ent c1 sk fuel inj chunks (m : mach hstate (list N)) log :
  HtmlTI m -> (html_fuel (html_unread m + length (concat chunks) + length chunks * (50 * length inj)) <= fuel)%nat -> (4 <= fuel)%nat ->
  regular log -> regular (snd (drive_flat html_flavour false html_table html_simd ent c1 sk fuel inj chunks m log)).
Proof.
  exact (flat_default_regular html_flavour html_table simd_first_guard simd_tail_stop simd_tail_newline ent c1 sk
           hstate_beq hstate_beq_eq html_step_ok_all html_eof_lockstep_all html_clean 4 4
           (feed_term html_flavour html_table html_simd ent c1 sk eq_refl html_clean html_rank 4 html_rank_le
              html_eat_clean_all html_start_ok_all html_progress_all)
           (tok_end_terminates html_flavour html_table html_simd ent c1 sk eq_refl html_clean html_rank 4 html_rank_le
              html_eat_clean_all html_start_ok_all html_progress_all 4 html_eof_ok_all html_eof_notag_all html_eof_depth_all)
           fuel inj chunks m log).
Qed.
Theorem html_bulk_flat_obs_total ent c1 sk fuel inject chunks (m : mach hstate (list N)) log :
  HtmlTI m -> (html_fuel (html_unread m + length (concat chunks) + length chunks * (50 * length inject)) <= fuel)%nat -> (4 <= fuel)%nat ->
  regular log ->
  let rf := drive_flat html_flavour false html_table html_simd ent c1 sk fuel inject chunks m log in
  exists k, forall j,
    let rs := drive_flat html_flavour true html_table html_simd ent c1 sk (k + j) inject chunks m log in
    snd rs = snd rf /\ obs (mout (fst rs)) = obs (mout (fst rf)) /\ ceq (mc (fst rs)) (mc (fst rf)) /\
    mq (fst rs) = mq (fst rf) /\ mcons (fst rs) = mcons (fst rf).
Proof.
  intros I Hf HD HL. apply html_bulk_flat_obs. apply html_flat_default_regular; assumption.
Qed.
