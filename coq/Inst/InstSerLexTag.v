(* C07: the tag syntax the html serializer writes, read back by the TokIR interpreter on the REGENERATED html table
   (reference semantics: flat queue, exact_errors = true).  Definitions: HtmlSer/SerLexTag.v. *)
From Coq Require Import List NArith Bool Lia Arith.
From RecordUpdate Require Import RecordSet.
From HV Require Import TokIR.IR TokIR.Interp TokIR.Checks TokIR.BulkSim Gen.GenHtmlTok.
From HV Require Import HtmlSer.SerSpec HtmlSer.SerProofs HtmlSer.SerLex HtmlSer.SerLexTag Inst.InstSerLex TokIR.QueueSim Inst.InstBulk.
Import ListNotations RecordSetNotations.
Local Open Scope N_scope.

(* the fields no tag-related arm touches *)
Record frame := { f_bom : bool; f_tmp : str; f_cm : str; f_dn : option str; f_dp : option str; f_ds : option str;
                  f_dq : bool; f_pt : str; f_pd : str }.
Definition mkF (s : hstate) (cu : N) (F : frame) tk tn tself tdup ta an av ls ln (q : list N) o k : mach hstate (list N) :=
  mkmach (mkcfg s false cu false (f_bom F) (f_tmp F) tk tn tself tdup ta an av (f_cm F) (f_dn F) (f_dp F) (f_ds F) (f_dq F)
                (f_pt F) (f_pd F) ls None ln) q o k.

Section T.
Variables sg ss sn : list N.
Variable c1 : N -> option N.
Variable sk : sinkcfg.
Notation simd := (sg, ss, sn).
Notation M := (mach hstate (list N)).
Notation iterH := (iter html_flavour html_table simd hent c1 sk).
Notation stepH := (step [] fq_next fq_peek (@app N) (fun q => q) fq_run1 html_flavour true html_table simd hent c1 sk).
Notation execH := (exec [] fq_next fq_peek (@app N) (fun q => q) fq_run1 html_flavour true simd sk).
Notation get_charH := (@get_char hstate (list N) fq_next html_flavour true).

(* get_char in exact mode on a character that is not CR *)
Definition gpost (c : N) (m1 : M) : M :=
  upd (fun x => x <| cur := c |>)
      (if bad_char c then err (if c =? LF then upd (fun x => x <| line ::= N.add 1 |>) m1 else m1)
       else (if c =? LF then upd (fun x => x <| line ::= N.add 1 |>) m1 else m1)).
Lemma getc (m : M) c q : reconsume (mc m) = false -> ignore_lf (mc m) = false -> mq m = c :: q -> (c =? 13) = false ->
  get_charH m = (Some c, gpost c (took 1 (m <| mq := q |>))).
Proof.
  intros Hrc Hil Hq Hc. unfold get_char. rewrite Hrc, Hq. cbn [fq_next].
  unfold get_preprocessed_char, gpc_skip.
  replace (ignore_lf (mc (took 1 (m <| mq := q |>)))) with false by (destruct m; symmetry; exact Hil).
  unfold gpc_post, gpc_decide. change CR with 13. rewrite Hc. cbn [html_flavour f_html].
  cbv beta iota zeta delta [negb andb]. reflexivity.
Qed.

Section Sym.
Variables (cu : N) (F : frame) (tk : tagkind) (tn : str) (tself tdup : bool) (ta : list (str * str)) (an av : str)
          (ls : option str) (ln : N) (q : list N) (o : list (token * N * N)) (k : N).

(* ---- steps on concrete characters: by computation on the symbolic machine *)
Lemma s_lt : iterH 1 (mkF HData cu F tk tn tself tdup ta an av ls ln (60 :: q) o k)
             = Some (mkF HTagOpen 60 F tk tn tself tdup ta an av ls ln q o (1 + k)).
Proof. vm_compute. reflexivity. Qed.
Lemma s_slash : iterH 1 (mkF HTagOpen cu F tk tn tself tdup ta an av ls ln (47 :: q) o k)
             = Some (mkF HEndTagOpen 47 F tk tn tself tdup ta an av ls ln q o (1 + k)).
Proof. vm_compute. reflexivity. Qed.
Lemma s_sp_tn : iterH 1 (mkF HTagName cu F tk tn tself tdup ta an av ls ln (32 :: q) o k)
             = Some (mkF HBeforeAttributeName 32 F tk tn tself tdup ta an av ls ln q o (1 + k)).
Proof. vm_compute. reflexivity. Qed.
Lemma s_sp_av : iterH 1 (mkF HAfterAttributeValueQuoted cu F tk tn tself tdup ta an av ls ln (32 :: q) o k)
             = Some (mkF HBeforeAttributeName 32 F tk tn tself tdup ta an av ls ln q o (1 + k)).
Proof. vm_compute. reflexivity. Qed.
Lemma s_eq_quote : iterH 2 (mkF HAttributeName cu F tk tn tself tdup ta an av ls ln (61 :: 34 :: q) o k)
             = Some (mkF HAV 61 F tk tn tself tdup ta an av ls ln q o (1 + (1 + k))).
Proof. vm_compute. reflexivity. Qed.
Lemma s_quote : iterH 1 (mkF HAV cu F tk tn tself tdup ta an av ls ln (34 :: q) o k)
             = Some (mkF HAfterAttributeValueQuoted 34 F tk tn tself tdup ta an av ls ln q o (1 + k)).
Proof. vm_compute. reflexivity. Qed.

(* ---- steps on a symbolic character c *)
Lemma ws_lf c : memb c [9; 10; 12; 32] = false -> (c =? LF) = false.
Proof.
  unfold memb, existsb. intros H. apply orb_false_elim in H. destruct H as [_ H]. apply orb_false_elim in H. tauto.
Qed.
Lemma name_char_facts c : name_char_ok c = true ->
  memb c [9; 10; 12; 32] = false /\ memb c [47] = false /\ memb c [62] = false /\ memb c [0] = false /\ (c =? 13) = false /\
  is_upper c = false /\ (c =? LF) = false.
Proof.
  unfold name_char_ok. intros H. repeat (apply andb_prop in H; destruct H as [H ?]).
  repeat match goal with X : negb _ = true |- _ => apply negb_true_iff in X end.
  repeat split; try assumption. apply ws_lf; assumption.
Qed.
Lemma attr_char_facts c : attr_char_ok c = true ->
  memb c [9; 10; 12; 32] = false /\ memb c [47] = false /\ memb c [61] = false /\ memb c [62] = false /\ memb c [0] = false /\
  memb c [34; 39; 60] = false /\ (c =? 13) = false /\ is_upper c = false /\ (c =? LF) = false /\ memb c [34; 39; 60; 61] = false.
Proof.
  unfold attr_char_ok. intros H. repeat (apply andb_prop in H; destruct H as [H ?]).
  repeat match goal with X : negb _ = true |- _ => apply negb_true_iff in X end.
  repeat split; try assumption; [apply ws_lf; assumption|].
  unfold memb, existsb in *. repeat match goal with X : _ || _ = false |- _ => apply orb_false_elim in X; destruct X end.
  repeat match goal with X : ?a = false |- context [?a] => rewrite X end. reflexivity.
Qed.

Ltac read_step c Hc13 :=
  unfold iter, mkF; unfold step; cbn [mc cref st t_step html_table html_step exec];
  erewrite getc; [|reflexivity|reflexivity|reflexivity|exact Hc13].
Ltac fin_step Hlf :=
  unfold gpost; change LF with 10 in *; rewrite Hlf; destruct (bad_char _); do 2 eexists; (split; [reflexivity|reflexivity]).

(* tag open / end tag open: the first character of the name, a lower-case letter *)
Lemma s_first c : is_lower c = true ->
  exists o' k', iterH 1 (mkF HTagOpen cu F tk tn tself tdup ta an av ls ln (c :: q) o k)
                = Some (mkF HTagName c F TStartTag [c] false false [] an av ls ln q o' k') /\ obs o' = obs o.
Proof.
  intros H. destruct (lower_facts c H) as (A1 & A2 & A3 & A4 & A5 & A6 & A7 & A8).
  read_step c A3. cbn [exec ceval_cond]. rewrite A5, A6, A7, A1. cbn [exec do_cmd do_term ceval]. unfold to_lower. rewrite A2.
  unfold discard_tag. cbn [html_flavour f_html]. fin_step A4.
Qed.
Lemma s_first_end c : is_lower c = true ->
  exists o' k', iterH 1 (mkF HEndTagOpen cu F tk tn tself tdup ta an av ls ln (c :: q) o k)
                = Some (mkF HTagName c F TEndTag [c] false false [] an av ls ln q o' k') /\ obs o' = obs o.
Proof.
  intros H. destruct (lower_facts c H) as (A1 & A2 & A3 & A4 & A5 & A6 & A7 & A8).
  read_step c A3. cbn [exec ceval_cond]. rewrite A8, A1. cbn [exec do_cmd do_term ceval]. unfold to_lower. rewrite A2.
  unfold discard_tag. cbn [html_flavour f_html]. fin_step A4.
Qed.
(* tag name: one more character *)
Lemma s_name c : name_char_ok c = true ->
  exists o' k', iterH 1 (mkF HTagName cu F tk tn tself tdup ta an av ls ln (c :: q) o k)
                = Some (mkF HTagName c F tk (tn ++ [c]) tself tdup ta an av ls ln q o' k') /\ obs o' = obs o.
Proof.
  intros H. destruct (name_char_facts c H) as (A1 & A2 & A3 & A4 & A5 & A6 & A7).
  read_step c A5. cbn [exec ceval_cond]. rewrite A1, A2, A3, A4. cbn [exec do_cmd do_term ceval]. unfold to_lower. rewrite A6.
  fin_step A7.
Qed.
(* attribute name: one more character *)
Lemma s_aname c : attr_char_ok c = true ->
  exists o' k', iterH 1 (mkF HAttributeName cu F tk tn tself tdup ta an av ls ln (c :: q) o k)
                = Some (mkF HAttributeName c F tk tn tself tdup ta (an ++ [c]) av ls ln q o' k') /\ obs o' = obs o.
Proof.
  intros H. destruct (attr_char_facts c H) as (A1 & A2 & A3 & A4 & A5 & A6 & A7 & A8 & A9 & A10).
  read_step c A7. cbn [exec ceval_cond]. rewrite A1, A2, A3, A4, A5, A6.
  destruct (is_alpha c); cbn [exec do_cmd do_term ceval]; unfold to_lower; rewrite ?A8; fin_step A9.
Qed.
(* before attribute name: the first character of an attribute name; the pending attribute, if any, is finished *)
Lemma s_afirst c : attr_char_ok c = true -> (an <> [] -> existsb (fun a => str_eqb (fst a) an) ta = false) -> (an = [] -> av = []) ->
  exists o' k', iterH 1 (mkF HBeforeAttributeName cu F tk tn tself tdup ta an av ls ln (c :: q) o k)
                = Some (mkF HAttributeName c F tk tn tself tdup (flushed ta an av) [c] [] ls ln q o' k') /\ obs o' = obs o.
Proof.
  intros H Hd Hav. destruct (attr_char_facts c H) as (A1 & A2 & A3 & A4 & A5 & A6 & A7 & A8 & A9 & A10).
  read_step c A7. cbn [exec ceval_cond]. rewrite A1, A2, A4, A5, A10.
  assert (G : forall m1 : M, mc m1 = mc (mkF HBeforeAttributeName cu F tk tn tself tdup ta an av ls ln q o k) -> False -> True) by trivial.
  clear G.
  destruct (is_alpha c); cbn [exec do_cmd do_term ceval]; unfold to_lower; rewrite ?A8;
    unfold finish_attribute, gpost; change LF with 10 in *; rewrite A9; cbv zeta;
    (destruct an as [|a0 an']; [rewrite (Hav eq_refl)|specialize (Hd ltac:(discriminate))]);
    destruct (bad_char c); lazy -[existsb str_eqb fst obs app];
    unfold str in *; rewrite ?Hd; do 2 eexists; (split; [reflexivity|reflexivity]).
Qed.

(* greater-than: the tag is emitted; the sink does not answer on this name *)
Notation finish_attributeH := (@finish_attribute hstate (list N) html_flavour).
Notation emit_current_tagH := (@emit_current_tag hstate (list N) html_flavour sk).
Lemma fa_mkF s : (an <> [] -> existsb (fun a => str_eqb (fst a) an) ta = false) -> (an = [] -> av = []) ->
  finish_attributeH (mkF s cu F tk tn tself tdup ta an av ls ln q o k) = mkF s cu F tk tn tself tdup (flushed ta an av) [] [] ls ln q o k.
Proof.
  intros Hd Hav. unfold finish_attribute, mkF. cbn [mc attr_name]. destruct an as [|a0 an']; [rewrite (Hav eq_refl); reflexivity|].
  cbn [html_flavour f_html mc tag_attrs]. specialize (Hd ltac:(discriminate)). unfold str in *. rewrite Hd. reflexivity.
Qed.
Lemma gt_is_emit_tn : iterH 1 (mkF HTagName cu F tk tn tself tdup ta an av ls ln (62 :: q) o k) =
  match emit_current_tagH (mkF HData 62 F tk tn tself tdup ta an av ls ln q o (1 + k)) with (m', SContinue) => Some m' | _ => None end.
Proof. reflexivity. Qed.
Lemma gt_is_emit_av : iterH 1 (mkF HAfterAttributeValueQuoted cu F tk tn tself tdup ta an av ls ln (62 :: q) o k) =
  match emit_current_tagH (mkF HData 62 F tk tn tself tdup ta an av ls ln q o (1 + k)) with (m', SContinue) => Some m' | _ => None end.
Proof. reflexivity. Qed.
Lemma emit_start : tk = TStartTag ->
  (an <> [] -> existsb (fun a => str_eqb (fst a) an) ta = false) -> (an = [] -> av = []) -> lookup_resp tn (sk_resp sk) = None ->
  exists o' ls', emit_current_tagH (mkF HData cu F tk tn tself tdup ta an av ls ln q o k)
                 = (mkF HData cu F TStartTag [] tself tdup [] [] [] ls' ln q o' k, SContinue) /\
                 exists l kk, obs o' = ocons (TTag TStartTag tn tself (flushed ta an av) tdup, l, kk) (obs o).
Proof.
  intros Htk Hd Hav Hsk. unfold emit_current_tag. rewrite (fa_mkF HData Hd Hav). rewrite Htk.
  lazy -[lookup_resp sk_resp obs ocons flushed app]. rewrite Hsk. lazy beta iota.
  do 2 eexists. split; [reflexivity|]. do 2 eexists. reflexivity.
Qed.
Lemma emit_end : tk = TEndTag -> tself = false -> ta = [] -> an = [] -> av = [] -> lookup_resp tn (sk_resp sk) = None ->
  exists o' ls', emit_current_tagH (mkF HData cu F tk tn tself tdup ta an av ls ln q o k)
                 = (mkF HData cu F TEndTag [] false tdup [] [] [] ls' ln q o' k, SContinue) /\
                 exists l kk, obs o' = ocons (TTag TEndTag tn false [] tdup, l, kk) (obs o).
Proof.
  intros Htk Hs Hta Han Hav Hsk. rewrite Htk, Hs, Hta, Han, Hav. unfold emit_current_tag.
  lazy -[lookup_resp sk_resp obs ocons app]. rewrite Hsk. lazy beta iota.
  do 2 eexists. split; [reflexivity|]. do 2 eexists. reflexivity.
Qed.
End Sym.

(* ---------------------------------------------------------------- runs over names *)
Lemma name_run F tk tself tdup ta an av ls ln q : forall cs cu tn o k, forallb name_char_ok cs = true ->
  exists cu' o' k', iterH (length cs) (mkF HTagName cu F tk tn tself tdup ta an av ls ln (cs ++ q) o k)
                    = Some (mkF HTagName cu' F tk (tn ++ cs) tself tdup ta an av ls ln q o' k') /\ obs o' = obs o.
Proof.
  induction cs as [|c cs IH]; intros cu tn o k H.
  - exists cu, o, k. rewrite app_nil_r. split; reflexivity.
  - cbn [forallb] in H. apply andb_prop in H. destruct H as [Hc Hcs].
    destruct (s_name cu F tk tn tself tdup ta an av ls ln (cs ++ q) o k c Hc) as (o1 & k1 & E1 & O1).
    destruct (IH c (tn ++ [c]) o1 k1 Hcs) as (cu' & o' & k' & E2 & O2).
    exists cu', o', k'. rewrite <- app_assoc in E2. split; [|congruence].
    exact (iter_trans _ _ _ _ _ _ 1 (length cs) _ _ _ E1 E2).
Qed.
Lemma aname_run F tk tn tself tdup ta av ls ln q : forall cs cu an o k, forallb attr_char_ok cs = true ->
  exists cu' o' k', iterH (length cs) (mkF HAttributeName cu F tk tn tself tdup ta an av ls ln (cs ++ q) o k)
                    = Some (mkF HAttributeName cu' F tk tn tself tdup ta (an ++ cs) av ls ln q o' k') /\ obs o' = obs o.
Proof.
  induction cs as [|c cs IH]; intros cu an o k H.
  - exists cu, o, k. rewrite app_nil_r. split; reflexivity.
  - cbn [forallb] in H. apply andb_prop in H. destruct H as [Hc Hcs].
    destruct (s_aname cu F tk tn tself tdup ta an av ls ln (cs ++ q) o k c Hc) as (o1 & k1 & E1 & O1).
    destruct (IH c (an ++ [c]) o1 k1 Hcs) as (cu' & o' & k' & E2 & O2).
    exists cu', o', k'. rewrite <- app_assoc in E2. split; [|congruence].
    exact (iter_trans _ _ _ _ _ _ 1 (length cs) _ _ _ E1 E2).
Qed.

(* ---------------------------------------------------------------- the Data state between tags *)
Definition DataOK (m : M) : Prop := St HData m /\ attr_name (mc m) = [] /\ attr_value (mc m) = [].
Lemma DataOK_mkF (m : M) : DataOK m ->
  exists cu F tk tn tself tdup ta ls ln, m = mkF HData cu F tk tn tself tdup ta [] [] ls ln (mq m) (mout m) (mcons m).
Proof.
  intros ((A & B & C & D) & E & G). destruct m as [cf q o k]. destruct cf. cbn in A, B, C, D, E, G. subst.
  eexists _, (Build_frame _ _ _ _ _ _ _ _ _). do 7 eexists. reflexivity.
Qed.
Lemma mkF_DataOK cu F tk tn tself tdup ta ls ln q o k : DataOK (mkF HData cu F tk tn tself tdup ta [] [] ls ln q o k).
Proof. repeat split. Qed.

Definition attr_ok (a : str * str) : Prop := attr_name_ok (fst a) = true /\ Forall okc (snd a).
Lemma render_attr_cons n1 v1 attrs X :
  flat_map render_attr ((n1, v1) :: attrs) ++ X =
  32 :: (n1 ++ 61 :: 34 :: (escape_spec true v1 ++ 34 :: (flat_map render_attr attrs ++ X))).
Proof. cbn [flat_map render_attr fst snd app]. repeat (rewrite <- !app_assoc; cbn [app]). reflexivity. Qed.
Lemma flushed_names ta an av : an <> [] -> map fst (flushed ta an av) = map fst ta ++ [an].
Proof. intros H. destruct an; [congruence|]. unfold flushed. rewrite map_app. reflexivity. Qed.
Lemma nodup_pending ta an av X : NoDup (map fst (flushed ta an av) ++ X) -> an <> [] ->
  existsb (fun a => str_eqb (fst a) an) ta = false.
Proof.
  intros H Han. apply not_dup. rewrite (flushed_names ta an av Han), <- app_assoc in H. cbn [app] in H.
  apply NoDup_remove_2 in H. intros Hin. apply H. apply in_or_app. left. exact Hin.
Qed.

Definition Jst (jb : bool) : hstate := if jb then HTagName else HAfterAttributeValueQuoted.

(* the attribute list and the closing greater-than, from the state after the tag name (jb = true) or after a quoted value *)
Lemma attrs_run F tn tself tdup ls (Hsk : lookup_resp tn (sk_resp sk) = None) q :
  forall attrs jb cu ta an av ln o k,
  Forall attr_ok attrs -> NoDup (map fst (flushed ta an av) ++ map fst attrs) -> (an = [] -> av = []) ->
  exists j m', iterH j (mkF (Jst jb) cu F TStartTag tn tself tdup ta an av ls ln (flat_map render_attr attrs ++ 62 :: q) o k) = Some m' /\
               DataOK m' /\ mq m' = q /\
               exists l kk, obs (mout m') = ocons (TTag TStartTag tn tself (flushed ta an av ++ attrs) tdup, l, kk) (obs o).
Proof.
  induction attrs as [|[n1 v1] attrs IH]; intros jb cu ta an av ln o k Hok Hnd Hav.
  - cbn [flat_map app].
    destruct (emit_start 62 F TStartTag tn tself tdup ta an av ls ln q o (1 + k) eq_refl
                (nodup_pending ta an av _ Hnd) Hav Hsk) as (o' & ls' & E & l & kk & O).
    exists 1%nat. eexists. split.
    + destruct jb; [rewrite gt_is_emit_tn|rewrite gt_is_emit_av]; rewrite E; reflexivity.
    + split; [apply mkF_DataOK|]. split; [reflexivity|]. exists l, kk. rewrite app_nil_r. exact O.
  - inversion Hok as [|? ? [Hn1 Hv1] Hok']; subst. cbn [fst snd] in Hn1, Hv1.
    rewrite render_attr_cons. set (X := flat_map render_attr attrs ++ 62 :: q).
    destruct n1 as [|c0 cs]; [discriminate Hn1|]. cbn [attr_name_ok forallb] in Hn1. apply andb_prop in Hn1. destruct Hn1 as [Hc0 Hcs].
    (* space *)
    assert (E1 : iterH 1 (mkF (Jst jb) cu F TStartTag tn tself tdup ta an av ls ln (32 :: ((c0 :: cs) ++ 61 :: 34 :: (escape_spec true v1 ++ 34 :: X))) o k)
                 = Some (mkF HBeforeAttributeName 32 F TStartTag tn tself tdup ta an av ls ln ((c0 :: cs) ++ 61 :: 34 :: (escape_spec true v1 ++ 34 :: X)) o (1 + k))).
    { destruct jb; [apply s_sp_tn|apply s_sp_av]. }
    (* first character of the name: the pending attribute is finished *)
    destruct (s_afirst 32 F TStartTag tn tself tdup ta an av ls ln (cs ++ 61 :: 34 :: (escape_spec true v1 ++ 34 :: X)) o (1 + k) c0 Hc0
                (nodup_pending ta an av _ Hnd) Hav) as (o2 & k2 & E2 & O2).
    destruct (aname_run F TStartTag tn tself tdup (flushed ta an av) [] ls ln (61 :: 34 :: (escape_spec true v1 ++ 34 :: X)) cs c0 [c0] o2 k2 Hcs)
      as (cu3 & o3 & k3 & E3 & O3).
    pose proof (s_eq_quote cu3 F TStartTag tn tself tdup (flushed ta an av) ([c0] ++ cs) [] ls ln (escape_spec true v1 ++ 34 :: X) o3 k3) as E4.
    (* the value *)
    set (m4 := mkF HAV 61 F TStartTag tn tself tdup (flushed ta an av) ([c0] ++ cs) [] ls ln (escape_spec true v1 ++ 34 :: X) o3 (1 + (1 + k3))) in *.
    destruct (value_stays_in_attribute sg ss sn c1 sk v1 34 X m4 Hv1) as (j5 & m5 & E5 & Q5 & [(a & l5 & Ec) Eo] & _);
      [repeat split|reflexivity|].
    cbn beta iota in Eo.
    assert (Em5 : m5 = mkF HAV a F TStartTag tn tself tdup (flushed ta an av) (c0 :: cs) v1 ls l5 (34 :: X) (mout m5) (mcons m5)).
    { destruct m5 as [cf5 q5 o5 k5]. cbn in Ec, Q5 |- *. rewrite Ec, Q5. reflexivity. }
    pose proof (s_quote a F TStartTag tn tself tdup (flushed ta an av) (c0 :: cs) v1 ls l5 X (mout m5) (mcons m5)) as E6.
    rewrite <- Em5 in E6.
    (* the rest *)
    destruct (IH false 34 (flushed ta an av) (c0 :: cs) v1 l5 (mout m5) (1 + mcons m5) Hok') as (j7 & m7 & E7 & D7 & Q7 & l & kk & O7).
    { change (flushed (flushed ta an av) (c0 :: cs) v1) with (flushed ta an av ++ [(c0 :: cs, v1)]).
      rewrite map_app, <- app_assoc. exact Hnd. }
    { discriminate. }
    exists (1 + (1 + (length cs + (2 + (j5 + (1 + j7))))))%nat, m7. split.
    + eapply iter_trans; [exact E1|]. eapply iter_trans; [exact E2|]. eapply iter_trans; [exact E3|].
      eapply iter_trans; [exact E4|]. eapply iter_trans; [exact E5|]. eapply iter_trans; [exact E6|exact E7].
    + split; [exact D7|]. split; [exact Q7|]. exists l, kk. rewrite O7.
      change (flushed (flushed ta an av) (c0 :: cs) v1) with (flushed ta an av ++ [(c0 :: cs, v1)]).
      rewrite <- app_assoc. cbn [app]. change (obs (mout m4)) with (obs o3) in Eo. rewrite Eo, O3, O2. reflexivity.
Qed.

(* ---------------------------------------------------------------- whole tags *)
Definition attrs_ok (attrs : list (str * str)) : Prop := Forall attr_ok attrs /\ NoDup (map fst attrs).

Theorem start_tag_lex n attrs rest (m : M) :
  DataOK m -> mq m = render_start n attrs ++ rest -> tag_name_ok n = true -> attrs_ok attrs ->
  lookup_resp n (sk_resp sk) = None ->
  exists j m', iterH j m = Some m' /\ DataOK m' /\ mq m' = rest /\
               exists l kk, obs (mout m') = ocons (TTag TStartTag n false attrs false, l, kk) (obs (mout m)).
Proof.
  intros HD Hq Hn [Hao Hnd] Hsk.
  destruct (DataOK_mkF m HD) as (cu & F & tk & tn & tself & tdup & ta & ls & ln & E). rewrite Hq in E.
  destruct n as [|c0 cs]; [discriminate Hn|]. cbn [tag_name_ok] in Hn. apply andb_prop in Hn. destruct Hn as [Hc0 Hcs].
  set (Y := flat_map render_attr attrs ++ 62 :: rest).
  assert (EQ : render_start (c0 :: cs) attrs ++ rest = 60 :: c0 :: (cs ++ Y)).
  { unfold render_start, Y. cbn [app]. rewrite <- !app_assoc. cbn [app]. reflexivity. }
  rewrite EQ in E.
  pose proof (s_lt cu F tk tn tself tdup ta [] [] ls ln (c0 :: (cs ++ Y)) (mout m) (mcons m)) as E1. rewrite <- E in E1.
  destruct (s_first 60 F tk tn tself tdup ta [] [] ls ln (cs ++ Y) (mout m) (1 + mcons m) c0 Hc0) as (o2 & k2 & E2 & O2).
  destruct (name_run F TStartTag false false [] [] [] ls ln Y cs c0 [c0] o2 k2 Hcs) as (cu3 & o3 & k3 & E3 & O3).
  destruct (attrs_run F ([c0] ++ cs) false false ls Hsk rest attrs true cu3 [] [] [] ln o3 k3 Hao Hnd (fun _ => eq_refl))
    as (j4 & m4 & E4 & D4 & Q4 & l & kk & O4).
  exists (1 + (1 + (length cs + j4)))%nat, m4. split.
  - eapply iter_trans; [exact E1|]. eapply iter_trans; [exact E2|]. eapply iter_trans; [exact E3|exact E4].
  - split; [exact D4|]. split; [exact Q4|]. exists l, kk. rewrite O4, O3, O2. reflexivity.
Qed.

Theorem end_tag_lex n rest (m : M) :
  DataOK m -> mq m = render_end n ++ rest -> tag_name_ok n = true -> lookup_resp n (sk_resp sk) = None ->
  exists j m', iterH j m = Some m' /\ DataOK m' /\ mq m' = rest /\
               exists l kk, obs (mout m') = ocons (TTag TEndTag n false [] false, l, kk) (obs (mout m)).
Proof.
  intros HD Hq Hn Hsk.
  destruct (DataOK_mkF m HD) as (cu & F & tk & tn & tself & tdup & ta & ls & ln & E). rewrite Hq in E.
  destruct n as [|c0 cs]; [discriminate Hn|]. cbn [tag_name_ok] in Hn. apply andb_prop in Hn. destruct Hn as [Hc0 Hcs].
  assert (EQ : render_end (c0 :: cs) ++ rest = 60 :: 47 :: c0 :: (cs ++ 62 :: rest)).
  { unfold render_end. cbn [app]. rewrite <- !app_assoc. cbn [app]. reflexivity. }
  rewrite EQ in E.
  pose proof (s_lt cu F tk tn tself tdup ta [] [] ls ln (47 :: c0 :: (cs ++ 62 :: rest)) (mout m) (mcons m)) as E1. rewrite <- E in E1.
  pose proof (s_slash 60 F tk tn tself tdup ta [] [] ls ln (c0 :: (cs ++ 62 :: rest)) (mout m) (1 + mcons m)) as E1'.
  destruct (s_first_end 47 F tk tn tself tdup ta [] [] ls ln (cs ++ 62 :: rest) (mout m) (1 + (1 + mcons m)) c0 Hc0) as (o2 & k2 & E2 & O2).
  destruct (name_run F TEndTag false false [] [] [] ls ln (62 :: rest) cs c0 [c0] o2 k2 Hcs) as (cu3 & o3 & k3 & E3 & O3).
  destruct (emit_end 62 F TEndTag ([c0] ++ cs) false false [] [] [] ls ln rest o3 (1 + k3) eq_refl eq_refl eq_refl eq_refl eq_refl Hsk)
    as (o4 & ls4 & E4 & l & kk & O4).
  exists (1 + (1 + (1 + (length cs + 1))))%nat. eexists. split.
  - eapply iter_trans; [exact E1|]. eapply iter_trans; [exact E1'|]. eapply iter_trans; [exact E2|].
    eapply iter_trans; [exact E3|]. rewrite gt_is_emit_tn, E4. reflexivity.
  - split; [apply mkF_DataOK|]. split; [reflexivity|]. exists l, kk. cbn [mout mkF]. rewrite O4, O3, O2. reflexivity.
Qed.

(* text between tags keeps the Data state clean *)
Lemma text_item_lex t x q (m : M) : DataOK m -> mq m = escape_spec false t ++ x :: q -> Forall okc t ->
  exists j m', iterH j m = Some m' /\ DataOK m' /\ mq m' = x :: q /\
               exists l kk, obs (mout m') = match t with [] => obs (mout m) | _ => ocons (TChars t, l, kk) (obs (mout m)) end.
Proof.
  intros (HS & Han & Hav) Hq Hok.
  destruct (text_stays_in_data sg ss sn c1 sk t x q m Hok HS Hq) as (j & m' & I & Q & [(a & l & Ec) Eo] & HS').
  exists j, m'. split; [exact I|]. split; [|split; [exact Q|exact Eo]].
  split; [exact HS'|]. rewrite Ec. clear - Han Hav. revert Han Hav. destruct (mc m). intros Han Hav. exact (conj Han Hav).
Qed.

(* ---------------------------------------------------------------- a serialized sequence of start tags, texts and end tags *)
Definition item_ok (i : item) : Prop :=
  match i with
  | IStart n a => tag_name_ok n = true /\ attrs_ok a /\ lookup_resp n (sk_resp sk) = None
  | IText t => Forall okc t
  | IEnd n => tag_name_ok n = true /\ lookup_resp n (sk_resp sk) = None
  end.
(* a non-empty text must be followed by something (the character-reference logic looks one character ahead; at the very
   end of the input it is end() that resolves a pending reference: see html_escaped_text_lexes_back) *)
Fixpoint follow (its : list item) (rest : list N) : Prop :=
  match its with
  | [] => True
  | IText (_ :: _) :: its' => render_items its' ++ rest <> [] /\ follow its' rest
  | _ :: its' => follow its' rest
  end.

Theorem chain_lex : forall its rest (m : M),
  DataOK m -> mq m = render_items its ++ rest -> Forall item_ok its -> follow its rest ->
  exists j m', iterH j m = Some m' /\ DataOK m' /\ mq m' = rest /\ deliv (items_tokens its) (obs (mout m)) (obs (mout m')).
Proof.
  induction its as [|i its IH]; intros rest m HD Hq Hok Hf.
  - exists 0%nat, m. repeat split; try apply HD. exact Hq.
  - inversion Hok as [|? ? Hi Hok']; subst.
    unfold render_items in Hq. cbn [map concat] in Hq. rewrite <- app_assoc in Hq. fold (render_items its) in Hq.
    unfold items_tokens. cbn [map concat]. fold (items_tokens its).
    destruct i as [n a|t|n].
    + destruct Hi as (Hn & Ha & Hs). cbn [follow] in Hf.
      destruct (start_tag_lex n a (render_items its ++ rest) m HD Hq Hn Ha Hs) as (j1 & m1 & I1 & D1 & Q1 & l & kk & O1).
      destruct (IH rest m1 D1 Q1 Hok' Hf) as (j2 & m' & I2 & D2 & Q2 & V2).
      exists (j1 + j2)%nat, m'. split; [eapply iter_trans; eassumption|]. split; [exact D2|]. split; [exact Q2|].
      cbn [item_tokens app deliv]. exists l, kk. rewrite <- O1. exact V2.
    + destruct t as [|c t].
      * cbn [follow] in Hf. change (render_item (IText [])) with (@nil N) in Hq. cbn [app] in Hq.
        cbn [item_tokens app]. exact (IH rest m HD Hq Hok' Hf).
      * cbn [follow] in Hf. destruct Hf as [Hne Hf]. cbn [render_item] in Hq.
        destruct (render_items its ++ rest) as [|y q'] eqn:Ey; [congruence|].
        destruct (text_item_lex (c :: t) y q' m HD Hq Hi) as (j1 & m1 & I1 & D1 & Q1 & l & kk & O1).
        rewrite <- Ey in Q1.
        destruct (IH rest m1 D1 Q1 Hok' Hf) as (j2 & m' & I2 & D2 & Q2 & V2).
        exists (j1 + j2)%nat, m'. split; [eapply iter_trans; eassumption|]. split; [exact D2|]. split; [exact Q2|].
        cbn [item_tokens app deliv]. exists l, kk. rewrite <- O1. exact V2.
    + destruct Hi as (Hn & Hs). cbn [follow] in Hf.
      destruct (end_tag_lex n (render_items its ++ rest) m HD Hq Hn Hs) as (j1 & m1 & I1 & D1 & Q1 & l & kk & O1).
      destruct (IH rest m1 D1 Q1 Hok' Hf) as (j2 & m' & I2 & D2 & Q2 & V2).
      exists (j1 + j2)%nat, m'. split; [eapply iter_trans; eassumption|]. split; [exact D2|]. split; [exact Q2|].
      cbn [item_tokens app deliv]. exists l, kk. rewrite <- O1. exact V2.
Qed.

(* the whole input, then end() *)
Theorem items_lex_back_T : forall last its, Forall item_ok its -> follow its [] ->
  exists fuel0, forall fuel, (fuel0 <= fuel)%nat ->
    let r := drive_flat html_flavour true html_table simd hent c1 sk fuel [] [render_items its]
               (mkmach (init_cfg HData last false) [] [] 0) [] in
    snd r = [SSuspend; SSuspend] /\ st (mc (fst r)) = HData /\
    exists l' k' o, obs (mout (fst r)) = (TEof, l', k') :: o /\ deliv (items_tokens its) [] o.
Proof.
  intros last its Hok Hf.
  set (m0 := mkmach (init_cfg HData last false) ([] : list N) [] 0).
  set (m1 := m0 <| mq ::= (fun q => q ++ render_items its) |>).
  assert (HD1 : DataOK m1) by (repeat split; reflexivity).
  assert (Hq1 : mq m1 = render_items its ++ []) by (rewrite app_nil_r; reflexivity).
  destruct (chain_lex its [] m1 HD1 Hq1 Hok Hf) as (j & m' & I & D' & Q' & V).
  destruct (end_clean sg ss sn c1 sk m' (proj1 D') Q') as (S' & mF & T1 & T2 & l' & k' & T3).
  exists (j + 1)%nat. intros fuel Hfu.
  replace fuel with (Datatypes.S (j + (fuel - (j + 1))))%nat by lia. set (jj := (fuel - (j + 1))%nat).
  assert (F : feed [] fq_next fq_peek (@app N) (fun q => q) fq_run1 html_flavour true html_table simd hent c1 sk
                (Datatypes.S (j + jj)) m1 = (m', SSuspend)).
  { destruct (render_items its) as [|y q'] eqn:Er.
    - assert (Hm : mq m1 = []) by first [reflexivity|unfold m1; rewrite Er; reflexivity].
      rewrite feed_empty by exact Hm.
      destruct j as [|j']; [cbn in I; injection I as <-; reflexivity|].
      exfalso. cbn [iter] in I. destruct (end_clean sg ss sn c1 sk m1 (proj1 HD1) Hm) as (S1 & _). rewrite S1 in I. discriminate I.
    - rewrite feed_nonempty; [|first [discriminate|unfold m1; rewrite Er; discriminate]|reflexivity].
      replace (Datatypes.S (j + jj)) with (j + Datatypes.S jj)%nat by lia.
      rewrite (run_iter _ _ _ _ _ _ _ _ _ I). cbn [run]. rewrite S'. reflexivity. }
  cbv zeta. rewrite (drive_one html_flavour html_table simd hent c1 sk _ [] _ m0 m' mF SSuspend F (T1 _)).
  cbn [fst snd]. split; [reflexivity|]. split; [exact T2|]. exists l', k', (obs (mout m')). split; [rewrite T3; reflexivity|].
  exact V.
Qed.
End T.

(* a serialized sequence of start tags, escaped texts and end tags as the whole input, then end(): the reference interpreter
   suspends once, ends regularly in the Data state and delivers, up to [obs], exactly the corresponding tokens followed by
   the EOF token.  [item_ok]: tag names satisfy tag_name_ok, attribute names attr_name_ok and are distinct, values and texts
   are free of U+0000 / U+000D, the sink does not answer on the tag names; [follow]: the sequence does not END with a
   non-empty text (for that case see html_escaped_text_lexes_back) *)
Theorem html_items_lex_back : forall simd c1 sk last its, Forall (item_ok sk) its -> follow its [] ->
  exists fuel0, forall fuel, (fuel0 <= fuel)%nat ->
    let r := drive_flat html_flavour true html_table simd hent c1 sk fuel [] [render_items its]
               (mkmach (init_cfg HData last false) [] [] 0) [] in
    snd r = [SSuspend; SSuspend] /\ st (mc (fst r)) = HData /\
    exists l' k' o, obs (mout (fst r)) = (TEof, l', k') :: o /\ deliv (items_tokens its) [] o.
Proof. intros [[sg ss] sn] c1 sk last its. exact (items_lex_back_T sg ss sn c1 sk last its). Qed.

(* ... and in the tokenizer's default mode (chunked queue, bulk reads, SIMD scan), by TokIR/BulkSim.v *)
Theorem html_items_lex_back_default_mode : forall c1 sk last its fuel, Forall (item_ok sk) its -> follow its [] ->
  let rf := drive_chunked html_flavour false html_table html_simd hent c1 sk fuel [] [render_items its]
              (mkmach (init_cfg HData last false) [] [] 0) [] in
  regular (snd rf) ->
  snd rf = [SSuspend; SSuspend] /\ st (mc (fst rf)) = HData /\
  exists l' k' o, obs (mout (fst rf)) = (TEof, l', k') :: o /\ deliv (items_tokens its) [] o.
Proof.
  intros c1 sk last its fuel Hok Hf rf Hreg.
  destruct (html_bulk_chunked_reference hent c1 sk fuel [] [render_items its] (mkmach (init_cfg HData last false) [] [] 0) []
              (Forall_nil _) Hreg) as (k & A).
  destruct (html_items_lex_back html_simd c1 sk last its Hok Hf) as (f0 & B).
  specialize (A f0). specialize (B (k + f0)%nat ltac:(lia)). cbv zeta in A, B. fold rf in A.
  change (mkmach (mc (mkmach (init_cfg HData last false) ([] : queue) [] 0)) (qflat (mq (mkmach (init_cfg HData last false) ([] : queue) [] 0)))
            (mout (mkmach (init_cfg HData last false) ([] : queue) [] 0)) (mcons (mkmach (init_cfg HData last false) ([] : queue) [] 0)))
    with (mkmach (init_cfg HData last false) ([] : list N) [] 0) in A.
  set (rs := drive_flat html_flavour true html_table html_simd hent c1 sk (k + f0) [] [render_items its]
               (mkmach (init_cfg HData last false) [] [] 0) []) in *.
  clearbody rs rf. destruct A as (A1 & A2 & A3 & _). destruct B as (B1 & B2 & B3).
  split; [rewrite <- A1; exact B1|]. split; [rewrite <- (ceq_st _ _ A3); exact B2|]. rewrite <- A2. exact B3.
Qed.

(* non-vacuity (a test, by computation): div id = a LT b, xlink:href = x AMP y QUOT z ; text 1 LT 2 AMP 3 ; b ; text x ; end b ; end div *)
Definition tag_items : list item :=
  [IStart [100; 105; 118] [([105; 100], [97; 60; 98]); ([120; 108; 105; 110; 107; 58; 104; 114; 101; 102], [120; 38; 121; 34; 122])];
   IText [49; 32; 60; 32; 50; 32; 38; 32; 51]; IStart [98] []; IText [120]; IEnd [98]; IEnd [100; 105; 118]].
Example tag_items_example :
  let r := drive_flat html_flavour true html_table html_simd hent (fun _ => None) lex_sk 400 [] [render_items tag_items]
             (mkmach (init_cfg HData None false) [] [] 0) [] in
  rev (map (fun e => fst (fst e)) (obs (mout (fst r)))) = items_tokens tag_items ++ [TEof] /\
  length (render_items tag_items) = 75%nat /\ snd r = [SSuspend; SSuspend].
Proof. vm_compute. repeat split; reflexivity. Qed.
Ltac okcs := repeat first [apply Forall_nil | apply Forall_cons; [unfold okc; split; intros HH; discriminate HH|]].
Lemma tag_items_ok : Forall (item_ok lex_sk) tag_items /\ follow tag_items [].
Proof.
  split.
  - assert (H1 : item_ok lex_sk (nth 0 tag_items (IText []))).
    { cbn [nth tag_items item_ok]. split; [reflexivity|]. split; [|reflexivity]. split.
      - apply Forall_cons; [split; [reflexivity|cbn [snd]; okcs]|]. apply Forall_cons; [split; [reflexivity|cbn [snd]; okcs]|]. apply Forall_nil.
      - cbn [map fst]. constructor; [intros [E|[]]; discriminate E|]. constructor; [intros []|constructor]. }
    assert (H2 : item_ok lex_sk (nth 1 tag_items (IText []))) by (cbn [nth tag_items item_ok]; okcs).
    assert (H3 : item_ok lex_sk (nth 2 tag_items (IText []))).
    { cbn [nth tag_items item_ok]. split; [reflexivity|]. split; [|reflexivity]. split; constructor. }
    assert (H4 : item_ok lex_sk (nth 3 tag_items (IText []))) by (cbn [nth tag_items item_ok]; okcs).
    assert (H5 : item_ok lex_sk (nth 4 tag_items (IText []))) by (split; reflexivity).
    assert (H6 : item_ok lex_sk (nth 5 tag_items (IText []))) by (split; reflexivity).
    exact (Forall_cons _ H1 (Forall_cons _ H2 (Forall_cons _ H3 (Forall_cons _ H4 (Forall_cons _ H5 (Forall_cons _ H6 (Forall_nil _))))))).
  - cbn. repeat split; discriminate.
Qed.
