(* C01, stage A: the formal WHATWG tokenizer (TokIR/WhatwgSpec.v, transcribed from the standard) run against the TokIR
   interpreter on the REGENERATED html table (reference semantics: flat queue, exact_errors = true; entity table and C1
   table regenerated from the Rust source) - definitions of the comparison and an executable cross-check (a TEST by
   computation, not a theorem: the refinement proof is TokIR/WhatwgRefine.v). *)
From Coq Require Import List NArith Bool String Ascii.
From HV Require Import TokIR.IR TokIR.Interp TokIR.BulkSim TokIR.WhatwgSpec Gen.GenHtmlTok.
From HV Require Import CharRef.CRModel CharRef.WhatwgEntities CharRef.CrInterp CharRef.CrInterpInst Gen.GenEntities Gen.GenC1.
Import ListNotations.
Local Open Scope N_scope.

(* ---------------------------------------------------------------- the observation both sides are compared on *)
(* the standard's tokens as tokens of the interpreter: a U+0000 character token is html5ever's NullCharacterToken *)
Definition tok_of_w (t : wtoken) : token :=
  match t with
  | WTDoctype n p s fq => TDoctype n p s fq
  | WTStart n sc a d => TTag TStartTag n sc a d
  | WTEnd n sc a d => TTag TEndTag n sc a d
  | WTComment d => TComment d
  | WTChar c => if c =? 0 then TNull else TChars [c]
  | WTEof => TEof
  end.
(* adjacent character tokens concatenated (oldest first) *)
Fixpoint merge_chars (l : list token) : list token :=
  match l with
  | [] => []
  | TChars a :: t => match merge_chars t with TChars b :: t' => TChars (a ++ b) :: t' | r => TChars a :: r end
  | x :: t => x :: merge_chars t
  end.
Definition spec_obs (l : list wtoken) : list token := merge_chars (map tok_of_w l).
(* the interpreter's tokens, oldest first: parse errors dropped, adjacent character tokens merged, annotations forgotten *)
Definition interp_obs (o : list (token * N * N)) : list token := rev (map (fun e => fst (fst e)) (obs o)).

(* ---------------------------------------------------------------- start states and the scripted sink *)
Definition wstate_of_kind (k : kind) : option wstate :=
  match k with
  | KRcdata => Some WRcdata | KRawtext => Some WRawtext | KScriptData => Some WScriptData
  | KScriptDataEscaped KEscaped => Some WScriptEscaped | KScriptDataEscaped KDoubleEscaped => Some WScriptDoubleEscaped
  | _ => None
  end.
(* the states a tokenizer can be started in / switched to *)
Definition wstate_of_start (s : hstate) : option wstate :=
  match s with
  | HData => Some WData | HPlaintext => Some WPlaintext | HCdataSection => Some WCdataSection
  | HRawData k => wstate_of_kind k
  | _ => None
  end.
Fixpoint switches_of (l : list (str * resp)) : list (wstr * wstate) :=
  match l with
  | [] => []
  | (n, RespPlaintext) :: t => (n, WPlaintext) :: switches_of t
  | (n, RespRawData k) :: t => match wstate_of_kind k with Some s => (n, s) :: switches_of t | None => switches_of t end
  | _ :: t => switches_of t
  end.
Fixpoint script_of (l : list (str * resp)) (inject : list N) : option (wstr * list N) :=
  match l with
  | [] => None
  | (n, RespScript) :: _ => Some (n, inject)
  | _ :: t => script_of t inject
  end.
Definition env_of (sk : sinkcfg) (inject : list N) : wenv :=
  mkwenv (switches_of (sk_resp sk)) (script_of (sk_resp sk) inject) (sk_foreign sk) whatwg_entities.

Definition html_simd0 : list N * list N * list N := (simd_first_guard, simd_tail_stop, simd_tail_newline).
Definition interp_tokens (fuel : nat) (sk : sinkcfg) (inject : list N) (s0 : hstate) (last : option str) (text : list N) : list token :=
  interp_obs (mout (fst (drive_flat html_flavour true html_table html_simd0 html_ent html_c1 sk fuel inject [text]
                                    (mkmach (init_cfg s0 last false) [] [] 0) []))).
Definition spec_tokens (fuel : nat) (sk : sinkcfg) (inject : list N) (s0 : hstate) (last : option str) (text : list N)
  : option (list token) :=
  match wstate_of_start s0 with
  | Some s => option_map spec_obs (wtokenize fuel (env_of sk inject) s last text)
  | None => None
  end.

(* ---------------------------------------------------------------- the cross-check *)
Definition s2n (s : string) : list N := map (fun a => N.of_nat (nat_of_ascii a)) (list_ascii_of_string s).
Record tcase := { tc_sk : sinkcfg; tc_inject : list N; tc_state : hstate; tc_last : option str; tc_text : list N }.
Definition nosink : sinkcfg := {| sk_resp := []; sk_foreign := false |}.
Definition foreign_sink : sinkcfg := {| sk_resp := []; sk_foreign := true |}.
Definition raw_sink : sinkcfg :=
  {| sk_resp := [(s2n "style", RespRawData KRawtext); (s2n "textarea", RespRawData KRcdata); (s2n "script", RespRawData KScriptData);
                 (s2n "plaintext", RespPlaintext); (s2n "s", RespScript); (s2n "meta", RespEncoding)];
     sk_foreign := false |}.
Definition data_case (t : list N) : tcase := Build_tcase nosink [] HData None t.
Definition cases : list tcase :=
  [ data_case (s2n "<a href='x&amp;y' b=c d>t&lt;&#x41;&#65;&notanent;&amp</a>&ampx;&AMP;&notin;&NotEqualTilde;");
    data_case (s2n "<!-- c --><!--> <!---> <!--a--!> <!-- <!-- --> <!x> <?pi> <!--a-b--c<!-d--!>e--!-->");
    data_case (s2n "<!DOCTYPE html PUBLIC ""p"" 's'><!doctype><!DOCTYPE a SYSTEM 'x' y><!DOCTYPE b PUBLIC'q'""r""><!DoCtYpE  c  pUbLiC  x>");
    Build_tcase nosink [] (HRawData KScriptData) (Some (s2n "script")) (s2n "a<!--<script>x</script>-</scripty>-></script>b</script >c<!-- --></SCRIPT/>d");
    Build_tcase nosink [] (HRawData KRcdata) (Some (s2n "title")) (s2n "x&amp;<b></title x></titlee></title>y&lt");
    Build_tcase nosink [] (HRawData KRawtext) (Some (s2n "style")) (s2n "x&amp;<b></styl></style a=b>y");
    data_case ([60; 97; 32; 98; 61; 34; 13; 10; 0; 34; 32; 0; 61; 13; 62; 13; 0; 13; 10; 120; 13; 13; 10] ++ s2n "<b" ++ [0; 13] ++ s2n "c>");
    Build_tcase raw_sink (s2n "<i>w&amp;</i>") HData None
      (s2n "<style>a<b></style><textarea>&lt;<x></textarea><meta a><script><!--<script></script>--></script></s>z<plaintext></plaintext>&amp;");
    Build_tcase foreign_sink [] HData None (s2n "<![CDATA[a]]b]]]>c<![CDATA[" ++ [0] ++ s2n "]>]]");
    data_case (s2n "<![CDATA[a]]b]]]>c<![cdata[");
    data_case (s2n "<DIV A=1 a=2 B/><br/></DIV x=1/><a/b c=d/e f=""g""h='i'j=k""l>");
    data_case (s2n "<a b='&ampx &amp= &amp; &not; &notit; &#x80; &#xD800; &#0; &#1114112; &#x; &#; &#xZ &#65' c=&amp d=&ampx=1&lt>");
    data_case (s2n "&#x9F;&#128;&#x110000;&#xFFFFFFFFFFFFFFFFF;&#xfffe;&#1;&#13;&#xAbC;&#00065;&x;&1;&;&");
    data_case (s2n "<a b='c"); data_case (s2n "<!--x"); data_case (s2n "<!--x-"); data_case (s2n "<!DOCTYPE h"); data_case (s2n "</");
    data_case (s2n "<"); data_case (s2n "&#"); data_case (s2n "&#x"); data_case (s2n "&am"); data_case (s2n "<a "); data_case (s2n "<a b"); data_case (s2n "<a b=");
    data_case (s2n "<!DOCTYPE html PUBLIC 'a"); data_case (s2n "<!DOCTYPE html SYSTEM"); data_case (s2n "<!"); data_case (s2n "<!-");
    Build_tcase nosink [] HPlaintext None (s2n "a<b>&amp;" ++ [0; 13; 10]);
    Build_tcase nosink [] (HRawData (KScriptDataEscaped KEscaped)) (Some (s2n "script")) (s2n "a-<script >b--></script>c");
    Build_tcase nosink [] (HRawData (KScriptDataEscaped KDoubleEscaped)) (Some (s2n "script")) (s2n "a-<b--<</script >c-->d</script>e");
    Build_tcase foreign_sink [] HCdataSection None (s2n "a]]>b") ].

(* a TEST, by computation: on every case above the formal WHATWG tokenizer and the interpreter on the regenerated table
   deliver the same observable tokens *)
Lemma whatwg_cross_check :
  map (fun c => spec_tokens 3000 (tc_sk c) (tc_inject c) (tc_state c) (tc_last c) (tc_text c)) cases =
  map (fun c => Some (interp_tokens 3000 (tc_sk c) (tc_inject c) (tc_state c) (tc_last c) (tc_text c))) cases.
Proof. vm_compute. reflexivity. Qed.
