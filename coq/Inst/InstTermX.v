(* C04 / C15: instantiation of TokIR/TermX.v (termination, xml flavour) on the REGENERATED xml tokenizer table.  The xml
   table uses no temp_buf command, no peek and no raw discard, so every state is clean; the rank and the EOF depth are
   computed from the table as for html (EOF arms that emit tags count as successors). *)
From Coq Require Import List NArith Bool Lia.
From HV Require Import TokIR.IR TokIR.Interp TokIR.Checks TokIR.LineInv TokIR.Termination Gen.GenXmlTok.
From HV Require TokIR.TermX.
Import ListNotations.

Definition xml_clean (s : xstate) : bool := true.
Definition xml_rank : xstate -> nat := rankn xml_table 4.
Lemma xml_rank_le : forall s, (xml_rank s <= 4)%nat.
Proof. intros s. apply rankn_le. Qed.
Lemma xml_eat_clean_all : forall s, eatS xml_table s = true -> xml_clean s = true.
Proof. reflexivity. Qed.
Lemma xml_start_ok_all : forall s, start_ok xml_table xml_clean s = true.
Proof. intros s. destruct s; try (vm_compute; reflexivity); destruct k; vm_compute; reflexivity. Qed.
Lemma xml_progress_all : forall s, pchk xml_rank s false (t_step xml_table s) = true.
Proof. intros s. destruct s; try (vm_compute; reflexivity); destruct k; vm_compute; reflexivity. Qed.
Lemma xml_eof_ok_all : forall s, eof_ok (t_eof xml_table s) = true.
Proof. intros s. destruct s; try reflexivity; destruct k; reflexivity. Qed.
Lemma xml_eof_depth_all : forall s, TermX.edepthx xml_table 4 s = true.
Proof. intros s. destruct s; try (vm_compute; reflexivity); destruct k; vm_compute; reflexivity. Qed.

Definition XmlTI (m : mach xstate (list N)) : Prop := TI xml_table xml_clean m.
Definition xml_unread (m : mach xstate (list N)) : nat := Tl xml_table m.
Definition xml_fuel (T : nat) : nat := run_bound 4 T.
Lemma xml_fuel_eq T : xml_fuel T = ((T + 1) * (2 * T + 10))%nat.
Proof. unfold xml_fuel, run_bound, Lc. f_equal. lia. Qed.
Lemma xml_TI_init s0 last q o k : XmlTI (mkmach (init_cfg s0 last false) q o k).
Proof. apply TI_init. Qed.
Lemma xml_unread_init s0 last q o k : xml_unread (mkmach (init_cfg s0 last false) q o k) = length q.
Proof.
  unfold xml_unread, Tl, stash, wn, rcn, qn, tn, LineInv.vtmp, LineInv.vcr, LineInv.vrc. cbn.
  destruct (LineInv.eatS xml_table s0); lia.
Qed.

Section Xml.
Variable simd : list N * list N * list N.
Variable ent : list N -> option (N * N).
Variable c1 : N -> option N.
Variable sk : sinkcfg.
Notation runX := (run [] fq_next fq_peek (@app N) (fun q => q) fq_run1 xml_flavour true xml_table simd ent c1 sk).
Notation endX := (tok_end [] fq_next fq_peek (@app N) (fun q => q) fq_run1 xml_flavour true xml_table simd ent c1 sk).

Lemma xml_run_terminates a fuel m : XmlTI m -> (xml_fuel (xml_unread m) <= fuel)%nat ->
  XmlTI (fst (runX a fuel m)) /\ (xml_unread (fst (runX a fuel m)) <= xml_unread m)%nat /\
  snd (runX a fuel m) <> SPanic 98 /\ snd (runX a fuel m) <> SPanic 97.
Proof.
  exact (TermX.run_terminates xml_flavour xml_table simd ent c1 sk eq_refl xml_clean xml_rank 4 xml_rank_le
           xml_eat_clean_all xml_start_ok_all xml_progress_all a fuel m).
Qed.
Lemma xml_end_terminates fuel m : XmlTI m -> (xml_fuel (xml_unread m) <= fuel)%nat -> (4 <= fuel)%nat ->
  snd (endX fuel m) <> SPanic 98 /\ snd (endX fuel m) <> SPanic 97.
Proof.
  exact (TermX.tok_end_terminates xml_flavour xml_table simd ent c1 sk eq_refl xml_clean xml_rank 4 xml_rank_le
           xml_eat_clean_all xml_start_ok_all xml_progress_all 4 xml_eof_ok_all xml_eof_depth_all fuel m).
Qed.
Lemma oks_no_fuel_panic log : oks log -> ~ In (SPanic 98) log /\ ~ In (SPanic 97) log.
Proof.
  intros H. unfold oks in H. rewrite Forall_forall in H. split; intros X; destruct (H _ X) as [A B]; congruence.
Qed.
Lemma xml_drive_terminates_from fuel inj chunks m :
  XmlTI m ->
  (xml_fuel (xml_unread m + length (concat chunks) + length chunks * (50 * length inj)) <= fuel)%nat ->
  (4 <= fuel)%nat ->
  ~ In (SPanic 98) (snd (drive_flat xml_flavour true xml_table simd ent c1 sk fuel inj chunks m [])) /\
  ~ In (SPanic 97) (snd (drive_flat xml_flavour true xml_table simd ent c1 sk fuel inj chunks m [])).
Proof.
  intros HI Hf HD. apply oks_no_fuel_panic.
  exact (TermX.drive_terminates xml_flavour xml_table simd ent c1 sk eq_refl xml_clean xml_rank 4 xml_rank_le
           xml_eat_clean_all xml_start_ok_all xml_progress_all 4 xml_eof_ok_all xml_eof_depth_all
           fuel inj chunks m [] HI Hf HD (Forall_nil _)).
Qed.
Lemma xml_drive_terminates fuel inj chunks s0 last :
  (xml_fuel (length (concat chunks) + length chunks * (50 * length inj)) <= fuel)%nat -> (4 <= fuel)%nat ->
  ~ In (SPanic 98) (snd (drive_flat xml_flavour true xml_table simd ent c1 sk fuel inj chunks
                                    (mkmach (init_cfg s0 last false) [] [] 0%N) [])) /\
  ~ In (SPanic 97) (snd (drive_flat xml_flavour true xml_table simd ent c1 sk fuel inj chunks
                                    (mkmach (init_cfg s0 last false) [] [] 0%N) [])).
Proof.
  intros Hf HD. apply xml_drive_terminates_from; [apply xml_TI_init| |exact HD].
  rewrite xml_unread_init. exact Hf.
Qed.
End Xml.

(* non-vacuity (a test, by computation): "<a b='c'>&amp;<!--x-->" fed in two chunks with exactly the bound *)
Definition xterm_input : list (list N) := [[60;97;32;98;61;39;99;39;62;38;97]; [109;112;59;60;33;45;45;120;45;45;62]]%N.
Lemma xterm_ex :
  snd (drive_flat xml_flavour true xml_table ([], [], []) (fun _ => None) (fun _ => None)
                  {| sk_resp := []; sk_foreign := false |} (xml_fuel 22) [] xterm_input
                  (mkmach (init_cfg XData None false) [] [] 0%N) []) = [SSuspend; SSuspend; SSuspend].
Proof. vm_compute. reflexivity. Qed.
