(* C01: the refinement obligations of TokIR/WhatwgRefine.v discharged, state by state, on the REGENERATED html table. *)
From Coq Require Import List NArith Bool Lia Arith.
From Coq Require String.
From RecordUpdate Require Import RecordSet.
From HV Require Import TokIR.IR TokIR.Interp TokIR.WhatwgSpec TokIR.WhatwgRefine HtmlSer.SerLex Gen.GenHtmlTok.
From HV Require Import CharRef.WhatwgEntities CharRef.CrInterpInst Inst.InstWhatwg.
Import ListNotations RecordSetNotations.
Local Open Scope N_scope.

(* the class predicates of the two sides are the same functions *)
Lemma w_alpha_eq c : w_alpha c = is_alpha c. Proof. reflexivity. Qed.
Lemma w_lower_eq c : w_lower c = to_lower c. Proof. reflexivity. Qed.
Lemma wstr_eqb_eq a b : wstr_eqb a b = str_eqb a b. Proof. reflexivity. Qed.
Lemma w_ws_eq c : w_ws c = memb c [9; 10; 12; 32]. Proof. reflexivity. Qed.
Lemma if_same {A} (b : bool) (x : A) : (if b then x else x) = x. Proof. destruct b; reflexivity. Qed.
(* an ASCII letter is none of the characters the states single out *)
Lemma alpha_facts c : is_alpha c = true ->
  (c =? 0) = false /\ (c =? 9) = false /\ (c =? 10) = false /\ (c =? 12) = false /\ (c =? 32) = false /\ (c =? 47) = false /\
  (c =? 62) = false /\ (c =? 45) = false /\ (c =? 60) = false /\ (c =? 33) = false /\ (c =? 38) = false /\ (c =? 13) = false /\
  (c =? 61) = false /\ (c =? 34) = false /\ (c =? 39) = false /\ (c =? 63) = false /\ (c =? 93) = false /\ (c =? 35) = false /\ (c =? 59) = false.
Proof.
  unfold is_alpha, is_upper, is_lower. intros H.
  assert (G : 65 <= c) by (apply orb_prop in H; destruct H as [H|H]; apply andb_prop in H; destruct H as [A _]; apply N.leb_le in A; lia).
  assert (G2 : c <= 90 \/ 97 <= c).
  { apply orb_prop in H. destruct H as [H|H]; apply andb_prop in H; destruct H as [A B]; apply N.leb_le in A; apply N.leb_le in B; lia. }
  repeat split; apply N.eqb_neq; lia.
Qed.

Section R.
Variables sg ss sn : list N.
Variable ent : list N -> option (N * N).
Variable c1 : N -> option N.
Variable sk : sinkcfg.
Variable env : wenv.
Notation simd := (sg, ss, sn).
Notation M := (mach hstate (list N)).
Notation stepH := (step [] fq_next fq_peek (@app N) (fun q => q) fq_run1 html_flavour true html_table simd ent c1 sk).
Notation execH := (exec [] fq_next fq_peek (@app N) (fun q => q) fq_run1 html_flavour true simd sk).

(* the arm that handles a character, for the states that start by reading one *)
Definition kbody (s : hstate) : option (body hstate) :=
  match html_step s with BRead RGet k => Some k | BPop _ _ _ kchar => Some kchar | _ => None end.

Lemma step_nil ae s k0 rc cu il G ln q o k : kbody s = Some k0 -> linput (mkM s rc cu il G ln q o k) = [] ->
  exists il' k', stepH ae (mkM s rc cu il G ln q o k) = (mkM s false cu il' G ln [] o k', SSuspend).
Proof.
  intros Hk Hl. destruct (getc_nil s rc cu il G ln q o k Hl) as (il' & k' & E). exists il', k'.
  unfold step. change (cref (mc (mkM s rc cu il G ln q o k))) with (@None crt). cbv iota.
  change (t_step html_table (st (mc (mkM s rc cu il G ln q o k)))) with (html_step s).
  unfold kbody in Hk. destruct (html_step s) as [[|] b|set sm kr kc| | | |]; try discriminate Hk; cbn [exec].
  - rewrite E. reflexivity.
  - unfold pop_except_from. cbn [orb]. rewrite E. reflexivity.
Qed.
Lemma step_cons ae s k0 rc cu il G ln q o k c L : kbody s = Some k0 -> linput (mkM s rc cu il G ln q o k) = c :: L ->
  exists il' ln' q' o' k', stepH ae (mkM s rc cu il G ln q o k) = execH ae k0 c [] (mkM s false c il' G ln' q' o' k') /\
                          preprocess_from il' q' = L /\ flat_i o' = flat_i o.
Proof.
  intros Hk Hl. destruct (getc_cons s rc cu il G ln q o k c L Hl) as (il' & ln' & q' & o' & k' & E & P & Fl).
  exists il', ln', q', o', k'. split; [|split; assumption].
  unfold step. change (cref (mc (mkM s rc cu il G ln q o k))) with (@None crt). cbv iota.
  change (t_step html_table (st (mc (mkM s rc cu il G ln q o k)))) with (html_step s).
  unfold kbody in Hk. destruct (html_step s) as [[|] b|set sm kr kc| | | |]; try discriminate Hk; cbn [exec]; injection Hk as <-.
  - rewrite E. reflexivity.
  - unfold pop_except_from. cbn [orb]. rewrite E. reflexivity.
Qed.

(* ---------------------------------------------------------------- the relation, by state *)
Definition clean_attr (c : cfg hstate) : Prop := attr_name c = [] /\ attr_value c = [].
(* an end tag under construction in a raw end tag name state *)
Definition raw_tag (c : cfg hstate) (cf : wconf) : Prop :=
  wtmp cf = temp_buf c /\ wtag_ cf = Some (mkwtag true (tag_name c) false []) /\ tag_kind c = TEndTag /\ tag_self c = false /\
  tag_attrs c = [] /\ tag_dup c = false.
Definition is_end (tk : tagkind) : bool := match tk with TEndTag => true | _ => false end.
(* a tag under construction, no attribute yet *)
Definition tag0 (c : cfg hstate) (cf : wconf) : Prop :=
  wtag_ cf = Some (mkwtag (is_end (tag_kind c)) (tag_name c) (tag_self c) []) /\ tag_attrs c = [] /\ tag_dup c = false /\
  (tag_kind c = TStartTag \/ tag_kind c = TEndTag).
Definition SR (c : cfg hstate) (cf : wconf) : Prop :=
  wlast cf = last_start c /\ clean_attr c /\
  match st c with
  | HData => wst cf = WData
  | HPlaintext => wst cf = WPlaintext
  | HTagOpen => wst cf = WTagOpen
  | HEndTagOpen => wst cf = WEndTagOpen
  | HTagName => wst cf = WTagName /\ tag0 c cf
  | HSelfClosingStartTag => wst cf = WSelfClosingStartTag /\ tag0 c cf
  | HBogusComment => wst cf = WBogusComment /\ wcomment cf = comment c
  | HRawData KRcdata => wst cf = WRcdata
  | HRawData KRawtext => wst cf = WRawtext
  | HRawData KScriptData => wst cf = WScriptData
  | HRawData (KScriptDataEscaped KEscaped) => wst cf = WScriptEscaped
  | HRawData (KScriptDataEscaped KDoubleEscaped) => wst cf = WScriptDoubleEscaped
  | HRawLessThanSign KRcdata => wst cf = WRcdataLt
  | HRawLessThanSign KRawtext => wst cf = WRawtextLt
  | HRawLessThanSign KScriptData => wst cf = WScriptLt
  | HRawLessThanSign (KScriptDataEscaped KEscaped) => wst cf = WScriptEscapedLt
  | HRawLessThanSign (KScriptDataEscaped KDoubleEscaped) => wst cf = WScriptDoubleEscapedLt
  | HRawEndTagOpen KRcdata => wst cf = WRcdataEndTagOpen /\ temp_buf c = [] /\ wtmp cf = []
  | HRawEndTagOpen KRawtext => wst cf = WRawtextEndTagOpen /\ temp_buf c = [] /\ wtmp cf = []
  | HRawEndTagOpen KScriptData => wst cf = WScriptEndTagOpen /\ temp_buf c = [] /\ wtmp cf = []
  | HRawEndTagOpen (KScriptDataEscaped KEscaped) => wst cf = WScriptEscapedEndTagOpen /\ temp_buf c = [] /\ wtmp cf = []
  | HRawEndTagName KRcdata => wst cf = WRcdataEndTagName /\ raw_tag c cf
  | HRawEndTagName KRawtext => wst cf = WRawtextEndTagName /\ raw_tag c cf
  | HRawEndTagName KScriptData => wst cf = WScriptEndTagName /\ raw_tag c cf
  | HRawEndTagName (KScriptDataEscaped KEscaped) => wst cf = WScriptEscapedEndTagName /\ raw_tag c cf
  | HScriptDataEscapeStart KEscaped => wst cf = WScriptEscapeStart
  | HScriptDataEscapeStartDash => wst cf = WScriptEscapeStartDash
  | HScriptDataEscapedDash KEscaped => wst cf = WScriptEscapedDash
  | HScriptDataEscapedDashDash KEscaped => wst cf = WScriptEscapedDashDash
  | HScriptDataEscapeStart KDoubleEscaped => wst cf = WScriptDoubleEscapeStart /\ wtmp cf = temp_buf c
  | HScriptDataEscapedDash KDoubleEscaped => wst cf = WScriptDoubleEscapedDash
  | HScriptDataEscapedDashDash KDoubleEscaped => wst cf = WScriptDoubleEscapedDashDash
  | HScriptDataDoubleEscapeEnd => wst cf = WScriptDoubleEscapeEnd /\ wtmp cf = temp_buf c
  | HCdataSection => wst cf = WCdataSection
  | HCdataSectionBracket => wst cf = WCdataSectionBracket
  | HCdataSectionEnd => wst cf = WCdataSectionEnd
  | _ => False
  end.
Notation RelH := (Rel SR).
(* the states whose obligations are discharged below *)
Definition covered (s : hstate) : bool :=
  match s with
  | HData | HPlaintext | HTagOpen | HEndTagOpen | HTagName | HSelfClosingStartTag | HBogusComment | HRawData KRcdata | HRawData KRawtext | HRawData KScriptData
  | HRawData (KScriptDataEscaped KEscaped) | HRawData (KScriptDataEscaped KDoubleEscaped)
  | HRawLessThanSign KRcdata | HRawLessThanSign KRawtext | HRawLessThanSign KScriptData
  | HRawLessThanSign (KScriptDataEscaped KEscaped) | HRawLessThanSign (KScriptDataEscaped KDoubleEscaped)
  | HRawEndTagOpen KRcdata | HRawEndTagOpen KRawtext | HRawEndTagOpen KScriptData | HRawEndTagOpen (KScriptDataEscaped KEscaped)
  | HRawEndTagName KRcdata | HRawEndTagName KRawtext | HRawEndTagName KScriptData | HRawEndTagName (KScriptDataEscaped KEscaped)
  | HScriptDataEscapeStart KEscaped | HScriptDataEscapeStartDash | HScriptDataEscapedDash KEscaped
  | HScriptDataEscapedDashDash KEscaped | HScriptDataEscapeStart KDoubleEscaped | HScriptDataEscapedDash KDoubleEscaped
  | HScriptDataEscapedDashDash KDoubleEscaped | HScriptDataDoubleEscapeEnd => true
  | _ => false
  end.
Definition okH (s : hstate) : Prop := covered s = true.
Notation okmH := (okm okH).

Definition core_ok (s : hstate) (k0 : body hstate) : Prop :=
  forall ae c il G ln q o k cf,
  SR (mc (mkM s false c il G ln q o k)) cf -> flat_i o = flat_s (wout cf) ->
  exists m', execH ae k0 c [] (mkM s false c il G ln q o k) = (m', SContinue) /\
             (okmH m' -> exists j cf' inp', wsteps j env cf (c :: preprocess_from il q) = Some (cf', inp') /\ RelH m' cf' inp').

(* ---------------------------------------------------------------- symbolic execution of one arm against the specification *)
Hypothesis Hscript : e_script env = None.
Hypothesis Hquiet : forall n, lookup_resp n (sk_resp sk) <> Some RespScript.
Hypothesis Hnoenc : forall n, lookup_resp n (sk_resp sk) <> Some RespEncoding.
(* the switches of the specification's scripted tree construction are the sink's answers *)
Definition sw_of_resp (r : option resp) : option wstate :=
  match r with Some RespPlaintext => Some WPlaintext | Some (RespRawData k) => wstate_of_kind k | _ => None end.
Hypothesis Henv : forall n, lookup_sw n (e_switches env) = sw_of_resp (lookup_resp n (sk_resp sk)).

Ltac rw_tests :=
  repeat match goal with
         | H : _ = false |- _ => progress rewrite H
         | H : _ = true |- _ => progress rewrite H
         end.
Ltac rw_hyps :=
  repeat match goal with
         | H : g_tmp _ = _ |- _ => progress rewrite H
         | H : g_tk _ = _ |- _ => progress rewrite H
         | H : g_tself _ = _ |- _ => progress rewrite H
         | H : g_ta _ = _ |- _ => progress rewrite H
         | H : g_tdup _ = _ |- _ => progress rewrite H
         | H : g_an _ = _ |- _ => progress rewrite H
         | H : g_av _ = _ |- _ => progress rewrite H
         | H : g_ls _ = _ |- _ => progress rewrite H
         | H : lookup_resp _ _ = _ |- _ => progress rewrite H
         end.
Ltac rdx :=
  lazy -[N.eqb N.leb N.add N.sub is_alpha is_upper is_lower bad_char str_eqb preprocess_from flat_i flat_s app lookup_resp sk_resp
         lookup_sw e_switches e_script w_alpha w_upper w_lower_alpha w_lower w_digit w_alnum wstr_eqb to_lower emitcs rev map char_tok];
  cbn [N.eqb Pos.eqb N.leb N.compare Pos.compare Pos.compare_cont rev]; cbv beta iota.
Ltac norm := rewrite ?w_alpha_eq, ?w_lower_eq, ?wstr_eqb_eq, ?Hscript, ?Henv, ?emitcs_closed; rw_hyps; rw_tests; rewrite ?if_same.
(* case analysis on the tests the interpreter's arm makes *)
Ltac split_tests :=
  repeat match goal with
         | |- context [if (?c =? ?k) then _ else _] =>
           let E := fresh "E" in destruct (c =? k) eqn:E; [apply N.eqb_eq in E; subst c|]; cbn [orb andb negb]
         | |- context [if (?c =? ?k) || _ then _ else _] =>
           let E := fresh "E" in destruct (c =? k) eqn:E; [apply N.eqb_eq in E; subst c|]; cbn [orb andb negb]
         | |- context [if is_alpha ?c then _ else _] =>
           let E := fresh "E" in destruct (is_alpha c) eqn:E; cbn [orb andb negb];
           [let F := fresh "F" in pose proof (alpha_facts c E) as F; decompose [and] F; clear F|]
         | |- context [if str_eqb ?a ?b then _ else _] =>
           let E := fresh "E" in destruct (str_eqb a b) eqn:E; cbn [orb andb negb]
         | |- context [if true && str_eqb ?a ?b then _ else _] =>
           let E := fresh "E" in destruct (str_eqb a b) eqn:E; cbn [orb andb negb]
         end.
Ltac kill_closed :=
  try match goal with
      | H : is_alpha ?x = true |- _ => tryif is_var x then fail else (exfalso; vm_compute in H; discriminate H)
      | H : is_alpha ?x = false |- _ => tryif is_var x then fail else (exfalso; vm_compute in H; discriminate H)
      end.
Ltac split_on c k :=
  let E := fresh "E" in destruct (c =? k) eqn:E; [apply N.eqb_eq in E; subst c; kill_closed|].
Ltac ws_split c := split_on c 9; try (split_on c 10); try (split_on c 12); try (split_on c 32).
Ltac rel_leaf HF :=
  unfold Rel; split; [reflexivity|]; split; [reflexivity|]; split;
  [cbn [mout wout mkM flat_i flat_s fst tok_of_w atoms_of map char_tok]; rewrite ?flat_s_app, ?flat_s_rev_chars; cbn [flat_s tok_of_w app map char_tok];
   rw_hyps; rw_tests; cbn [N.eqb Pos.eqb]; cbv iota; rewrite <- ?app_assoc; try (rewrite HF); rewrite <- ?app_assoc; reflexivity
  |unfold SR, clean_attr, raw_tag, tag0; cbn; rw_hyps; repeat split; try assumption; try reflexivity; try (left; reflexivity); try (right; reflexivity)].
Ltac try_j HF j :=
  exists j; do 2 eexists; split; [unfold wsteps; repeat (rdx; norm); reflexivity|]; rel_leaf HF.
Ltac leaf HF :=
  eexists; split; [repeat (rdx; norm); reflexivity|];
  let Hc := fresh "Hc" in let Ho := fresh "Ho" in intros [Hc Ho];
  first [exfalso; cbn in Ho; discriminate Ho | exfalso; cbn in Hc; discriminate Hc
        | try_j HF 1%nat | try_j HF 2%nat | try_j HF 3%nat].
Ltac core_start :=
  let HS := fresh "HS" in
  intros k0 Hk; injection Hk as <-; intros ae c il G ln q o k cf HS HF;
  destruct cf as [w ret tmp tag cm doc code last out];
  destruct G as [gbom gtmp gtk gtn gtself gtdup gta gan gav gcm gdn gdp gds gdq gpt gpd gls];
  unfold SR, clean_attr, raw_tag, tag0 in HS;
  cbn [mkM mc st wst wlast wtmp wtag_ wout wcomment comment last_start attr_name attr_value temp_buf tag_name tag_kind tag_self tag_attrs tag_dup
       g_bom g_tmp g_tk g_tn g_tself g_tdup g_ta g_an g_av g_cm g_dn g_dp g_ds g_dq g_pt g_pd g_ls] in HS, HF;
  decompose [and or] HS; clear HS; subst; cbn [is_end] in *;
  cbn [exec ceval_cond]; unfold memb, existsb;
  cbn [mkM mc last_start tag_kind tag_name temp_buf g_bom g_tmp g_tk g_tn g_tself g_tdup g_ta g_an g_av g_cm g_dn g_dp g_ds g_dq g_pt g_pd g_ls].
Ltac kind_split k :=
  destruct k as [| | |?k'| | | | | | |]; [| | |destruct k' as [| | |?k''| | | | | | |]| | | | | | |].
Ltac lookup_split :=
  try (match goal with |- context [do_term _ _ (EmitTag _) _] =>
         match goal with |- context [mkgfr _ _ TEndTag _ ?ts _ _ _ _ _ _ _ _ _ _ _ _] => is_var ts; destruct ts end end);
  try (match goal with |- context [do_term _ _ (EmitTag _) _] =>
         match goal with |- context [mkgfr _ _ _ ?gtn _ _ _ _ _ _ _ _ _ _ _ _ _] =>
           let Elk := fresh "Elk" in
           destruct (lookup_resp gtn (sk_resp sk)) as [[|?rk| |]|] eqn:Elk;
           [ | kind_split rk | exfalso; exact (Hquiet _ Elk) | exfalso; exact (Hnoenc _ Elk) | ]
         end end).
Ltac leafF := match goal with HF : flat_i _ = flat_s _ |- _ => leaf HF end.
Ltac auto_core := core_start; split_tests; leafF.
Ltac nul_core := core_start; (match goal with c : N |- _ => split_on c 0 end); split_tests; leafF.

Lemma core_Data : forall k0, kbody HData = Some k0 -> core_ok HData k0. Proof. nul_core. Qed.
Lemma core_Plaintext : forall k0, kbody HPlaintext = Some k0 -> core_ok HPlaintext k0. Proof. nul_core. Qed.
Lemma core_Rcdata : forall k0, kbody (HRawData KRcdata) = Some k0 -> core_ok (HRawData KRcdata) k0. Proof. nul_core. Qed.
Lemma core_Rawtext : forall k0, kbody (HRawData KRawtext) = Some k0 -> core_ok (HRawData KRawtext) k0. Proof. nul_core. Qed.
Lemma core_Script : forall k0, kbody (HRawData KScriptData) = Some k0 -> core_ok (HRawData KScriptData) k0. Proof. nul_core. Qed.
Lemma core_Esc : forall k0, kbody (HRawData (KScriptDataEscaped KEscaped)) = Some k0 -> core_ok (HRawData (KScriptDataEscaped KEscaped)) k0.
Proof. nul_core. Qed.
Lemma core_DEsc : forall k0, kbody (HRawData (KScriptDataEscaped KDoubleEscaped)) = Some k0 -> core_ok (HRawData (KScriptDataEscaped KDoubleEscaped)) k0.
Proof. nul_core. Qed.

Ltac tag_core := core_start; split_tests; lookup_split; leafF.
Lemma core_TagOpen : forall k0, kbody HTagOpen = Some k0 -> core_ok HTagOpen k0. Proof. auto_core. Qed.
Lemma core_EndTagOpen : forall k0, kbody HEndTagOpen = Some k0 -> core_ok HEndTagOpen k0. Proof. auto_core. Qed.
Lemma core_TagName : forall k0, kbody HTagName = Some k0 -> core_ok HTagName k0. Proof. tag_core. Qed.
Lemma core_BogusComment : forall k0, kbody HBogusComment = Some k0 -> core_ok HBogusComment k0. Proof. nul_core. Qed.
Lemma core_SelfClosing : forall k0, kbody HSelfClosingStartTag = Some k0 -> core_ok HSelfClosingStartTag k0. Proof. tag_core. Qed.

Lemma core_RawLt_Rcdata : forall k0, kbody (HRawLessThanSign KRcdata) = Some k0 -> core_ok (HRawLessThanSign KRcdata) k0.
Proof. auto_core. Qed.
Lemma core_RawLt_Rawtext : forall k0, kbody (HRawLessThanSign KRawtext) = Some k0 -> core_ok (HRawLessThanSign KRawtext) k0.
Proof. auto_core. Qed.
Lemma core_RawLt_Script : forall k0, kbody (HRawLessThanSign KScriptData) = Some k0 -> core_ok (HRawLessThanSign KScriptData) k0.
Proof. auto_core. Qed.
Lemma core_RawLt_Esc : forall k0, kbody (HRawLessThanSign (KScriptDataEscaped KEscaped)) = Some k0 -> core_ok (HRawLessThanSign (KScriptDataEscaped KEscaped)) k0.
Proof. auto_core. Qed.
Lemma core_RawLt_DEsc : forall k0, kbody (HRawLessThanSign (KScriptDataEscaped KDoubleEscaped)) = Some k0 -> core_ok (HRawLessThanSign (KScriptDataEscaped KDoubleEscaped)) k0.
Proof. auto_core. Qed.

Lemma core_RawETO_Rcdata : forall k0, kbody (HRawEndTagOpen KRcdata) = Some k0 -> core_ok (HRawEndTagOpen KRcdata) k0.
Proof. auto_core. Qed.
Lemma core_RawETO_Rawtext : forall k0, kbody (HRawEndTagOpen KRawtext) = Some k0 -> core_ok (HRawEndTagOpen KRawtext) k0.
Proof. auto_core. Qed.
Lemma core_RawETO_Script : forall k0, kbody (HRawEndTagOpen KScriptData) = Some k0 -> core_ok (HRawEndTagOpen KScriptData) k0.
Proof. auto_core. Qed.
Lemma core_RawETO_Esc : forall k0, kbody (HRawEndTagOpen (KScriptDataEscaped KEscaped)) = Some k0 -> core_ok (HRawEndTagOpen (KScriptDataEscaped KEscaped)) k0.
Proof. auto_core. Qed.

Ltac etn_core :=
  core_start;
  match goal with |- context [match ?gls with Some l => true && str_eqb ?gtn l | None => false end] =>
    (destruct gls as [l|]; [destruct (str_eqb gtn l) eqn:Es|]; cbn [andb]; split_tests; lookup_split; try leafF)
  end.
Lemma core_RawETN_Rcdata : forall k0, kbody (HRawEndTagName KRcdata) = Some k0 -> core_ok (HRawEndTagName KRcdata) k0.
Proof. etn_core. Qed.
Lemma core_RawETN_Rawtext : forall k0, kbody (HRawEndTagName KRawtext) = Some k0 -> core_ok (HRawEndTagName KRawtext) k0.
Proof. etn_core. Qed.
Lemma core_RawETN_Script : forall k0, kbody (HRawEndTagName KScriptData) = Some k0 -> core_ok (HRawEndTagName KScriptData) k0.
Proof. etn_core. Qed.
Lemma core_RawETN_Esc : forall k0, kbody (HRawEndTagName (KScriptDataEscaped KEscaped)) = Some k0 -> core_ok (HRawEndTagName (KScriptDataEscaped KEscaped)) k0.
Proof. etn_core. Qed.

Lemma core_EscStart : forall k0, kbody (HScriptDataEscapeStart KEscaped) = Some k0 -> core_ok (HScriptDataEscapeStart KEscaped) k0.
Proof. auto_core. Qed.
Lemma core_EscStartDash : forall k0, kbody HScriptDataEscapeStartDash = Some k0 -> core_ok HScriptDataEscapeStartDash k0.
Proof. auto_core. Qed.
Lemma core_EscDash : forall k0, kbody (HScriptDataEscapedDash KEscaped) = Some k0 -> core_ok (HScriptDataEscapedDash KEscaped) k0.
Proof. nul_core. Qed.
Lemma core_EscDashDash : forall k0, kbody (HScriptDataEscapedDashDash KEscaped) = Some k0 -> core_ok (HScriptDataEscapedDashDash KEscaped) k0.
Proof. nul_core. Qed.
Lemma core_DEscDash : forall k0, kbody (HScriptDataEscapedDash KDoubleEscaped) = Some k0 -> core_ok (HScriptDataEscapedDash KDoubleEscaped) k0.
Proof. nul_core. Qed.
Lemma core_DEscDashDash : forall k0, kbody (HScriptDataEscapedDashDash KDoubleEscaped) = Some k0 -> core_ok (HScriptDataEscapedDashDash KDoubleEscaped) k0.
Proof. nul_core. Qed.
Lemma core_DEscStart : forall k0, kbody (HScriptDataEscapeStart KDoubleEscaped) = Some k0 -> core_ok (HScriptDataEscapeStart KDoubleEscaped) k0.
Proof. nul_core. Qed.
Lemma core_DEscEnd : forall k0, kbody HScriptDataDoubleEscapeEnd = Some k0 -> core_ok HScriptDataDoubleEscapeEnd k0.
Proof. nul_core. Qed.

(* ---------------------------------------------------------------- the end of the input, state by state *)
Notation eof_loopH := (eof_loop [] fq_next fq_peek (@app N) (fun q => q) fq_run1 html_flavour true html_table simd sk).
Definition eof_ok (s : hstate) : Prop :=
  forall cu il G ln o k cf,
  SR (mc (mkM s false cu il G ln [] o k)) cf -> flat_i o = flat_s (wout cf) ->
  exists mF js cfF, (forall f, eof_loopH (4 + f) (mkM s false cu il G ln [] o k) = (mF, SSuspend)) /\
                    wrun js env cf [] = Some cfF /\ flat_i (mout mF) = flat_s (wout cfF).
Ltac eof_tac :=
  let HS := fresh "HS" in
  intros cu il G ln o k cf HS HF;
  destruct cf as [w ret tmp tag cm doc code last out];
  destruct G as [gbom gtmp gtk gtn gtself gtdup gta gan gav gcm gdn gdp gds gdq gpt gpd gls];
  unfold SR, clean_attr, raw_tag, tag0 in HS;
  cbn [mkM mc st wst wlast wtmp wtag_ wout wcomment comment last_start attr_name attr_value temp_buf tag_name tag_kind tag_self tag_attrs tag_dup
       g_bom g_tmp g_tk g_tn g_tself g_tdup g_ta g_an g_av g_cm g_dn g_dp g_ds g_dq g_pt g_pd g_ls] in HS, HF;
  decompose [and or] HS; clear HS; subst; cbn [is_end] in *;
  (eexists; exists 8%nat; eexists; split;
   [intros f; cbn [Nat.add eof_loop]; repeat (rdx; norm); reflexivity|];
   split; [cbn [wrun]; repeat (rdx; norm); reflexivity|];
   cbn [mout wout mkM flat_i flat_s fst tok_of_w atoms_of map char_tok]; rewrite ?flat_s_app, ?flat_s_rev_chars; cbn [flat_s tok_of_w app map char_tok];
   cbn [N.eqb Pos.eqb]; cbv iota; rewrite <- ?app_assoc; try (rewrite HF); rewrite <- ?app_assoc; reflexivity).

Lemma core_all : forall s, covered s = true -> exists k0, kbody s = Some k0 /\ core_ok s k0.
Proof.
  intros s Hs. destruct s; try discriminate Hs; try (destruct k; try discriminate Hs; try (destruct k; try discriminate Hs));
    (eexists; split; [reflexivity|]);
    first [apply core_BogusComment|apply core_TagOpen|apply core_EndTagOpen|apply core_TagName|apply core_SelfClosing|apply core_Data|apply core_Plaintext|apply core_Rcdata|apply core_Rawtext|apply core_Script|apply core_Esc|apply core_DEsc
          |apply core_RawLt_Rcdata|apply core_RawLt_Rawtext|apply core_RawLt_Script|apply core_RawLt_Esc|apply core_RawLt_DEsc
          |apply core_RawETO_Rcdata|apply core_RawETO_Rawtext|apply core_RawETO_Script|apply core_RawETO_Esc
          |apply core_RawETN_Rcdata|apply core_RawETN_Rawtext|apply core_RawETN_Script|apply core_RawETN_Esc
          |apply core_EscStart|apply core_EscStartDash|apply core_EscDash|apply core_EscDashDash|apply core_DEscDash|apply core_DEscDashDash
          |apply core_DEscStart|apply core_DEscEnd]; reflexivity.
Qed.

Lemma eof_all : forall s, covered s = true -> eof_ok s.
Proof.
  intros s Hs. destruct s; try discriminate Hs; try (destruct k; try discriminate Hs; try (destruct k; try discriminate Hs)); eof_tac.
Qed.

(* ---------------------------------------------------------------- the obligations of TokIR/WhatwgRefine.v *)
Lemma SR_frame s rc cu il G ln q o k rc' cu' il' ln' q' o' k' cf :
  SR (mc (mkM s rc cu il G ln q o k)) cf -> SR (mc (mkM s rc' cu' il' G ln' q' o' k')) cf.
Proof. intros H. exact H. Qed.

Lemma Hstep_mk ae s rc cu il G ln q o k cf inp : RelH (mkM s rc cu il G ln q o k) cf inp -> okH s ->
  (linput (mkM s rc cu il G ln q o k) = [] ->
     exists m', stepH ae (mkM s rc cu il G ln q o k) = (m', SSuspend) /\ RelH m' cf inp /\ mq m' = [] /\ st (mc m') = s) /\
  (linput (mkM s rc cu il G ln q o k) <> [] ->
     exists m', stepH ae (mkM s rc cu il G ln q o k) = (m', SContinue) /\
                (okmH m' -> exists j cf' inp', wsteps j env cf inp = Some (cf', inp') /\ RelH m' cf' inp')).
Proof.
  intros (Hcr & Hin & Hfl & HS) Hok.
  destruct (core_all _ Hok) as (k0 & Hk & Hcore). split.
  - intros Hl. destruct (step_nil ae s k0 rc cu il G ln q o k Hk Hl) as (il' & k' & E).
    eexists. split; [exact E|]. split; [|split; reflexivity].
    split; [reflexivity|]. split; [rewrite Hin, Hl; destruct il'; reflexivity|]. split; [exact Hfl|exact HS].
  - intros Hl. destruct (linput (mkM s rc cu il G ln q o k)) as [|c L] eqn:El; [congruence|].
    destruct (step_cons ae s k0 rc cu il G ln q o k c L Hk El) as (il' & ln' & q' & o' & k' & E & P & Fl).
    destruct (Hcore ae c il' G ln' q' o' k' cf HS) as (m' & E2 & Hm'); [rewrite Fl; exact Hfl|].
    exists m'. split; [rewrite E; exact E2|]. intros Om. destruct (Hm' Om) as (j & cf' & inp' & W & R').
    exists j, cf', inp'. split; [rewrite Hin, <- P; exact W|exact R'].
Qed.
Lemma Hstep_html : forall ae (m : M) cf inp, RelH m cf inp -> okH (st (mc m)) ->
  (linput m = [] -> exists m', stepH ae m = (m', SSuspend) /\ RelH m' cf inp /\ mq m' = [] /\ st (mc m') = st (mc m)) /\
  (linput m <> [] -> exists m', stepH ae m = (m', SContinue) /\
                     (okmH m' -> exists k cf' inp', wsteps k env cf inp = Some (cf', inp') /\ RelH m' cf' inp')).
Proof.
  intros ae m cf inp HR Hok. pose proof (proj1 HR) as Hcr. destruct m as [c q o k]. destruct c. cbn in Hcr. subst.
  exact (Hstep_mk ae st reconsume cur ignore_lf
           (mkgfr discard_bom temp_buf tag_kind tag_name tag_self tag_dup tag_attrs attr_name attr_value comment dt_name dt_pub dt_sys
                  dt_quirks pi_target pi_data last_start) line q o k cf inp HR Hok).
Qed.

Lemma Heof_html : forall (m : M) cf, RelH m cf [] -> okH (st (mc m)) -> mq m = [] ->
  exists j mF js cfF, (forall f, eof_loopH (j + f) m = (mF, SSuspend)) /\ wrun js env cf [] = Some cfF /\
                      flat_i (mout mF) = flat_s (wout cfF).
Proof.
  intros m cf HR Hok Hq. pose proof HR as (Hcr & Hin & Hfl & HS).
  assert (Hrc : reconsume (mc m) = false).
  { unfold linput in Hin. destruct (reconsume (mc m)); [discriminate Hin|reflexivity]. }
  destruct m as [c q o k]. destruct c. cbn in Hcr, Hq, Hrc. subst.
  destruct (eof_all _ Hok cur ignore_lf
              (mkgfr discard_bom temp_buf tag_kind tag_name tag_self tag_dup tag_attrs attr_name attr_value comment dt_name dt_pub dt_sys
                     dt_quirks pi_target pi_data last_start) line o k cf HS Hfl) as (mF & js & cfF & A & B & C).
  exists 4%nat, mF, js, cfF. split; [exact A|split; assumption].
Qed.
End R.

(* ---------------------------------------------------------------- the refinement theorem, as far as the obligations are discharged *)
Definition covered_states : list hstate :=
  [HData; HPlaintext; HTagOpen; HEndTagOpen; HTagName; HSelfClosingStartTag; HBogusComment; HRawData KRcdata; HRawData KRawtext; HRawData KScriptData; HRawData (KScriptDataEscaped KEscaped);
   HRawData (KScriptDataEscaped KDoubleEscaped); HRawLessThanSign KRcdata; HRawLessThanSign KRawtext; HRawLessThanSign KScriptData;
   HRawLessThanSign (KScriptDataEscaped KEscaped); HRawLessThanSign (KScriptDataEscaped KDoubleEscaped);
   HRawEndTagOpen KRcdata; HRawEndTagOpen KRawtext; HRawEndTagOpen KScriptData; HRawEndTagOpen (KScriptDataEscaped KEscaped);
   HRawEndTagName KRcdata; HRawEndTagName KRawtext; HRawEndTagName KScriptData; HRawEndTagName (KScriptDataEscaped KEscaped);
   HScriptDataEscapeStart KEscaped; HScriptDataEscapeStartDash; HScriptDataEscapedDash KEscaped; HScriptDataEscapedDashDash KEscaped;
   HScriptDataEscapeStart KDoubleEscaped; HScriptDataEscapedDash KDoubleEscaped; HScriptDataEscapedDashDash KDoubleEscaped;
   HScriptDataDoubleEscapeEnd].
Lemma covered_states_ok : forallb covered covered_states = true /\ length covered_states = 33%nat.
Proof. split; reflexivity. Qed.

(* For every input text, start state among Data / PLAINTEXT / RCDATA / RAWTEXT / script data (escaped, double escaped), last
   start tag name, entity and C1 tables, SIMD sets, sink that never answers Script, and fuel: if feeding the whole text and then
   end() both return normally, and every machine the feed visits (at step boundaries) is in one of the 28 [covered] states
   with no character reference pending, then the formal WHATWG tokenizer, run on the preprocessed text from the corresponding
   state, stops, and the interpreter has delivered exactly its tokens: parse errors dropped, character tokens compared
   character by character (U+0000 as its own token).
   _partial: the states not covered yet - tag open / tag name / attributes (so: any text in which a tag or an appropriate end
   tag starts), comments, DOCTYPE, CDATA sections, character references - make the visiting hypothesis fail; no Script /
   encoding suspension (one feed call). *)
Theorem html_refines_whatwg_partial :
  forall simd ent c1 sk env, e_script env = None ->
  (forall n, lookup_resp n (sk_resp sk) <> Some RespScript) -> (forall n, lookup_resp n (sk_resp sk) <> Some RespEncoding) ->
  (forall n, lookup_sw n (e_switches env) = sw_of_resp (lookup_resp n (sk_resp sk))) ->
  forall s0 w last text fuel m2 m3,
  covered s0 = true -> wstate_of_start s0 = Some w ->
  let m1 := RecordSet.set mq (fun q => q ++ text) (mkmach (init_cfg s0 last false) ([] : list N) [] 0) in
  (forall n m', iter html_flavour html_table simd ent c1 sk n m1 = Some m' -> cref (mc m') = None /\ covered (st (mc m')) = true) ->
  feed [] fq_next fq_peek (@app N) (fun q => q) fq_run1 html_flavour true html_table simd ent c1 sk fuel m1 = (m2, SSuspend) ->
  tok_end [] fq_next fq_peek (@app N) (fun q => q) fq_run1 html_flavour true html_table simd ent c1 sk fuel m2 = (m3, SSuspend) ->
  drive_flat html_flavour true html_table simd ent c1 sk fuel [] [text] (mkmach (init_cfg s0 last false) [] [] 0) [] = (m3, [SSuspend; SSuspend]) /\
  exists fs cfF, wrun fs env (winit w last) (preprocess text) = Some cfF /\ flat_i (mout m3) = flat_s (wout cfF).
Proof.
  intros [[sg ss] sn] ent c1 sk env Hscript Hquiet Hnoenc Henv s0 w last text fuel m2 m3 Hcov Hw m1 Hvis Hfeed Hend.
  split; [exact (drive_one html_flavour html_table (sg, ss, sn) ent c1 sk fuel [] text _ m2 m3 SSuspend Hfeed Hend)|].
  eapply (feed_end_refine html_table (sg, ss, sn) ent c1 sk env SR okH) with (m1 := m1) (m2 := m2) (fuel := fuel);
    try exact Hfeed; try exact Hend; try exact Hvis; try reflexivity.
  { intros ae m cf inp HR Hok. eapply Hstep_html; eassumption. }
  { intros m cf HR Hok Hq. eapply Heof_html; eassumption. }
  split; [reflexivity|]. split; [reflexivity|]. split; [reflexivity|].
  unfold SR, clean_attr. cbn. split; [reflexivity|]. split; [split; reflexivity|].
  destruct s0; try discriminate Hcov; try (cbn in Hw; discriminate Hw); try (cbn in Hw; injection Hw as <-; reflexivity);
    repeat match goal with k0 : kind |- _ => destruct k0; try discriminate Hcov; try discriminate Hw; try (cbn in Hw; injection Hw as <-; reflexivity) end.
Qed.

(* non-vacuity (a test, by computation): script data, last start tag "script", a text that walks through the escaped and double
   escaped states, their dashes, less-than signs, an end tag that is not appropriate, CR LF, CR and U+0000: every machine
   the feed visits is in a covered state (so the theorem applies), and the tokens agree *)
Import String.
Definition rex_text : list N :=
  s2n "a<!--<script>x-</script>y--<</scripty>z-->"%string ++ [13; 10; 0; 13] ++ s2n "</scrip"%string ++ [60].
Definition rex_last : option str := Some (s2n "script").
Definition rex_m1 : mach hstate (list N) :=
  RecordSet.set mq (fun q => q ++ rex_text) (mkmach (init_cfg (HRawData KScriptData) rex_last false) [] [] 0).
Definition rex_env : wenv := mkwenv [] None false whatwg_entities.
Example refine_example :
  forallb (fun n => match iter html_flavour html_table html_simd0 html_ent html_c1 nosink n rex_m1 with
                    | Some m' => match cref (mc m') with None => covered (st (mc m')) | Some _ => false end
                    | None => true end) (seq 0 80) = true /\
  iter html_flavour html_table html_simd0 html_ent html_c1 nosink 60 rex_m1 = None /\
  (let r := drive_flat html_flavour true html_table html_simd0 html_ent html_c1 nosink 200 [] [rex_text]
              (mkmach (init_cfg (HRawData KScriptData) rex_last false) [] [] 0) [] in
   snd r = [SSuspend; SSuspend] /\
   exists cfF, wrun 200 rex_env (winit WScriptData rex_last) (preprocess rex_text) = Some cfF /\
               flat_i (mout (fst r)) = flat_s (wout cfF) /\ List.length (flat_s (wout cfF)) = 54%nat).
Proof.
  split; [vm_compute; reflexivity|]. split; [vm_compute; reflexivity|].
  split; [vm_compute; reflexivity|]. eexists. split; [vm_compute; reflexivity|]. split; vm_compute; reflexivity.
Qed.
