(* C02, table part: the data tables REGENERATED from html5ever's tree builder (Gen/GenTagSets.v, GenQuirks.v,
   GenAdjust.v, GenDispatch.v) equal the lists of the WHATWG standard (TreeTables/WhatwgLists.v,
   WhatwgDispatch.v), up to the named exception lists of TreeTables/Deviations.v.
   The lemmas "..._except" state agreement OUTSIDE the exception list, so they keep holding when html5ever repairs a
   deviation; that each listed deviation is present right now (exactness, refutations) is stated separately in
   Inst/FindingsTreeTables.v, which is expected to break when a deviation is repaired.
   Every lemma is closed by vm_compute on a decidable comparison + the soundness lemma of TreeTables/TableChecks.v,
   so it breaks deterministically when the corresponding cell of the Rust source changes; Inst/WitnessTreeTables.v
   then prints the differing elements. *)
From Coq Require Import String List Bool Arith.
From HV Require Import TreeTables.Types TreeTables.TableChecks TreeTables.WhatwgLists TreeTables.WhatwgDispatch
  TreeTables.Deviations TreeTables.Quirks Gen.GenTagSets Gen.GenQuirks Gen.GenAdjust Gen.GenDispatch.
Import ListNotations.
Local Open Scope string_scope.
Local Open Scope list_scope.

Definition emem := mem ename_eqb.
Notation "a =e= b" := (forall n : ename, emem n a = emem n b) (at level 70).
Notation "a =s= b" := (forall n : string, smem n a = smem n b) (at level 70).
Definition up_to {A} (m : A -> list A -> bool) (std extra missing : list A) (n : A) : bool :=
  (m n std && negb (m n missing)) || m n extra.

Ltac by_eset := apply (set_eqb_except_nil ename_eqb ename_eqb_ok); vm_compute; reflexivity.
Ltac by_sset := apply (set_eqb_except_nil String.eqb string_eqb_ok); vm_compute; reflexivity.
Ltac by_eout := unfold emem; apply (set_eqb_outside_sound ename_eqb ename_eqb_ok); vm_compute; reflexivity.
Ltac by_sout := unfold smem; apply (set_eqb_outside_sound String.eqb string_eqb_ok); vm_compute; reflexivity.
Ltac by_eexc := unfold up_to, emem; apply (set_eqb_except_sound ename_eqb ename_eqb_ok); vm_compute; reflexivity.
Ltac by_sexc := unfold up_to, smem; apply (set_eqb_except_sound String.eqb string_eqb_ok); vm_compute; reflexivity.

(* ================================================================== tag sets (GenTagSets.v) *)
Lemma special_tag_is_whatwg_except : forall n, emem n (special_extra ++ special_missing) = false ->
  emem n ts_special_tag = emem n whatwg_special.
Proof. by_eout. Qed.
(* restricted to HTML element names the only differences are isindex / keygen / search *)
Lemma special_tag_html_names : forall n, smem n ["isindex"; "keygen"; "search"] = false ->
  smem n (map snd (filter (fun e => ns_eqb (fst e) NsHtml) ts_special_tag)) = smem n whatwg_special_html.
Proof. by_sout. Qed.

Lemma default_scope_is_whatwg_except : forall n, emem n scope_missing = false ->
  emem n ts_default_scope = emem n whatwg_scope.
Proof. by_eout. Qed.
Lemma list_item_scope_is_whatwg_except : forall n, emem n scope_missing = false ->
  emem n ts_list_item_scope = emem n whatwg_list_item_scope.
Proof. by_eout. Qed.
Lemma button_scope_is_whatwg_except : forall n, emem n scope_missing = false ->
  emem n ts_button_scope = emem n whatwg_button_scope.
Proof. by_eout. Qed.
Lemma html_default_scope_is_whatwg : ts_html_default_scope =e= html whatwg_scope_html.
Proof. by_eset. Qed.
Lemma table_scope_is_whatwg : ts_table_scope =e= whatwg_table_scope.
Proof. by_eset. Qed.
(* html5ever uses table_scope also for "clear the stack back to a table context" *)
Lemma table_scope_is_whatwg_table_context : ts_table_scope =e= whatwg_table_context.
Proof. by_eset. Qed.
Lemma table_body_context_is_whatwg : ts_table_body_context =e= whatwg_table_body_context.
Proof. by_eset. Qed.
Lemma table_row_context_is_whatwg : ts_table_row_context =e= whatwg_table_row_context.
Proof. by_eset. Qed.
Lemma td_th_is_whatwg : ts_td_th =e= whatwg_cells.
Proof. by_eset. Qed.
Lemma cursory_implied_end_is_whatwg : ts_cursory_implied_end =e= whatwg_implied_end.
Proof. by_eset. Qed.
Lemma thorough_implied_end_is_whatwg : ts_thorough_implied_end =e= whatwg_implied_end_thoroughly.
Proof. by_eset. Qed.
Lemma heading_tag_is_whatwg : ts_heading_tag =e= whatwg_headings.
Proof. by_eset. Qed.
Lemma mathml_text_integration_point_is_whatwg : ts_mathml_text_integration_point =e= whatwg_mathml_text_integration_points.
Proof. by_eset. Qed.
Lemma svg_html_integration_point_is_whatwg : ts_svg_html_integration_point =e= whatwg_svg_html_integration_points.
Proof. by_eset. Qed.
(* local sets *)
Lemma foster_target_is_whatwg : ts_appropriate_place_for_insertion__foster_target =e= whatwg_foster_targets.
Proof. by_eset. Qed.
Lemma body_end_ok_is_whatwg_except : forall n, emem n body_end_ok_missing = false ->
  emem n ts_check_body_end__body_end_ok = emem n whatwg_body_end_ok.
Proof. by_eout. Qed.
Lemma close_p_implied_is_whatwg : ts_close_p_element__implied =e= whatwg_implied_end_except_p.
Proof. by_eset. Qed.
Lemma table_text_current_is_whatwg_except : forall n, emem n table_text_current_missing = false ->
  emem n ts_process_chars_in_table__table_outer = emem n whatwg_table_text_current.
Proof. by_eout. Qed.
Lemma form_associatable_is_whatwg : ts_insert_element__form_associatable =e= whatwg_form_associated.
Proof. by_eset. Qed.
Lemma listed_is_whatwg : ts_insert_element__listed =e= whatwg_listed.
Proof. by_eset. Qed.
Lemma close_list_is_whatwg : ts_step_InBody__close_list =e= whatwg_li_close.
Proof. by_eset. Qed.
Lemma close_defn_is_whatwg : ts_step_InBody__close_defn =e= whatwg_dd_dt_close.
Proof. by_eset. Qed.
Lemma extra_special_is_whatwg_except : forall n, emem n (special_extra ++ special_missing) = false ->
  emem n ts_step_InBody__extra_special = emem n whatwg_special_except_address_div_p.
Proof. by_eout. Qed.
Lemma table_body_sections_is_whatwg_except : forall n, emem n (table_body_sections_extra ++ table_body_sections_missing) = false ->
  emem n ts_step_InTableBody__table_outer = emem n whatwg_table_body_sections.
Proof. by_eout. Qed.
(* every declare_tag_set! / set predicate of the source is covered by one of the lemmas above: a set the translator
   finds under a name that is not listed here breaks this lemma.  (A subset statement, so that it survives the order
   of declarations; ts_html_special_tag is the HTML part of ts_special_tag once the latter is a fn over all
   namespaces - covered by special_tag_html_names.) *)
Definition covered_tag_sets : list string := [
  "ts_html_default_scope"; "ts_list_item_scope"; "ts_button_scope"; "ts_table_scope"; "ts_table_body_context";
  "ts_table_row_context"; "ts_td_th"; "ts_cursory_implied_end"; "ts_thorough_implied_end"; "ts_heading_tag";
  "ts_special_tag"; "ts_html_special_tag"; "ts_appropriate_place_for_insertion__foster_target";
  "ts_check_body_end__body_end_ok";
  "ts_close_p_element__implied"; "ts_process_chars_in_table__table_outer"; "ts_insert_element__form_associatable";
  "ts_insert_element__listed"; "ts_step_InBody__close_list"; "ts_step_InBody__close_defn";
  "ts_step_InBody__extra_special"; "ts_step_InTableBody__table_outer"; "ts_mathml_text_integration_point";
  "ts_svg_html_integration_point"; "ts_default_scope"].
Lemma tag_sets_census :
  forallb (fun n => smem n covered_tag_sets) (map fst tag_sets) = true /\
  forallb (fun n => smem n (map fst tag_sets)) (filter (fun n => negb (String.eqb n "ts_html_special_tag")) covered_tag_sets) = true.
Proof. vm_compute. split; reflexivity. Qed.

(* ================================================================== quirks (GenQuirks.v) *)
Lemma quirky_public_prefixes_is_whatwg_except : forall n, smem n quirks_prefix_missing = false ->
  smem n quirky_public_prefixes = smem n (map lower whatwg_quirks_public_prefixes).
Proof. by_sout. Qed.
Lemma quirky_public_matches_is_whatwg : quirky_public_matches =s= map lower whatwg_quirks_public_ids.
Proof. by_sset. Qed.
Lemma quirky_system_matches_is_whatwg : quirky_system_matches =s= map lower whatwg_quirks_system_ids.
Proof. by_sset. Qed.
Lemma limited_quirky_public_prefixes_is_whatwg :
  limited_quirky_public_prefixes =s= map lower whatwg_limited_quirks_public_prefixes.
Proof. by_sset. Qed.
Lemma html4_public_prefixes_is_whatwg : html4_public_prefixes =s= map lower whatwg_html401_public_prefixes.
Proof. by_sset. Qed.

(* the decision arms: same arms in the same order once the srcdoc arm is left out; its position differs (D7) *)
Lemma quirks_arms_are_whatwg_modulo_srcdoc :
  list_eqb qarm_eqb (filter not_srcdoc quirks_arms) (filter not_srcdoc whatwg_quirks_decision) = true.
Proof. vm_compute. reflexivity. Qed.
Definition doctype_triple_eqb := pair_eqb (pair_eqb (opt_eqb String.eqb) (opt_eqb String.eqb)) (opt_eqb String.eqb).
Lemma doctype_triple_eqb_ok : eqb_ok doctype_triple_eqb.
Proof. repeat apply pair_eqb_ok; apply opt_eqb_ok, string_eqb_ok. Qed.
Lemma doctype_ok_triples_is_whatwg_except : forall t, mem doctype_triple_eqb t doctype_ok_extra = false ->
  mem doctype_triple_eqb t doctype_ok_triples = mem doctype_triple_eqb t whatwg_doctype_ok_triples.
Proof. apply (set_eqb_outside_sound doctype_triple_eqb doctype_triple_eqb_ok). vm_compute. reflexivity. Qed.

(* --- what the table equalities mean: the regenerated decision = the decision of the standard, for every DOCTYPE
   token of a document that is not an iframe srcdoc document and whose public identifier does not start with the
   missing Silmaril prefix (D6).  [gen_quirks_mode] is the meaning of the regenerated tables. *)
Definition gen_quirks_mode (d : doctype) (srcdoc : bool) : qmode := eval_quirks quirks_tables quirks_arms d srcdoc.

(* per table: the identifiers on which the regenerated table may differ from the standard's (D6) *)
Definition quirks_table_exceptions (t : string) : list string :=
  if String.eqb "QUIRKY_PUBLIC_PREFIXES" t then quirks_prefix_missing else [].

Definition tables_agree_outside_b (names : list string) (T T' : list (string * list string)) : bool :=
  list_eqb String.eqb (map fst T) names && list_eqb String.eqb (map fst T') names
  && forallb (fun t => set_eqb_outside String.eqb (table_named T t) (table_named T' t) (quirks_table_exceptions t)) names.

Lemma table_named_absent : forall T t, smem t (map fst T) = false -> table_named T t = [].
Proof.
  induction T as [|[m l] T IH]; intros t H; simpl in *; [reflexivity|].
  apply orb_false_iff in H. destruct H as [H1 H2]. rewrite String.eqb_sym, H1. now apply IH.
Qed.

Lemma tables_agree_outside_sound : forall names T T', tables_agree_outside_b names T T' = true ->
  forall t x, smem x (quirks_table_exceptions t) = false -> smem x (table_named T t) = smem x (table_named T' t).
Proof.
  intros names T T' H t x Hx. unfold tables_agree_outside_b in H.
  apply andb_true_iff in H. destruct H as [H H3]. apply andb_true_iff in H. destruct H as [H1 H2].
  apply (list_eqb_ok String.eqb string_eqb_ok) in H1. apply (list_eqb_ok String.eqb string_eqb_ok) in H2.
  destruct (smem t names) eqn:E.
  - rewrite forallb_forall in H3.
    apply (set_eqb_outside_sound String.eqb string_eqb_ok _ _ (quirks_table_exceptions t)); [|exact Hx].
    apply H3. now apply (mem_In String.eqb string_eqb_ok).
  - rewrite (table_named_absent T t), (table_named_absent T' t); congruence.
Qed.

Lemma gen_quirks_tables_agree : forall t x, smem x (quirks_table_exceptions t) = false ->
  smem x (table_named quirks_tables t) = smem x (table_named whatwg_quirks_tables t).
Proof.
  apply (tables_agree_outside_sound ["QUIRKY_PUBLIC_PREFIXES"; "QUIRKY_PUBLIC_MATCHES"; "QUIRKY_SYSTEM_MATCHES";
                                     "LIMITED_QUIRKY_PUBLIC_PREFIXES"; "HTML4_PUBLIC_PREFIXES"]).
  vm_compute. reflexivity.
Qed.

Definition silmaril_lower : string := "+//silmaril//dtd html pro v0r11 19970101//".
Definition public_has_silmaril_prefix (d : doctype) : bool :=
  match dt_public d with Some p => String.prefix silmaril_lower (lower p) | None => false end.

(* the prefix table is only used for prefix tests *)
Definition cond_ok (c : qcond) : bool :=
  match c with QcPublicIs t | QcSystemIs t => negb (String.eqb "QUIRKY_PUBLIC_PREFIXES" t) | _ => true end.

Lemma eval_gen_tables_is_eval_whatwg_tables : forall arms d s, forallb (fun a => cond_ok (fst a)) arms = true ->
  public_has_silmaril_prefix d = false ->
  eval_quirks quirks_tables arms d s = eval_quirks whatwg_quirks_tables arms d s.
Proof.
  intros arms d s OK H. induction arms as [|[c r] t IH]; [reflexivity|].
  cbn [forallb fst] in OK. apply andb_true_iff in OK. destruct OK as [OK1 OK2].
  cbn [eval_quirks]. rewrite (IH OK2).
  assert (qcond_holds quirks_tables d s c = qcond_holds whatwg_quirks_tables d s c) as E.
  { destruct c as [| | |t0|t0|t0|]; cbn [qcond_holds]; try reflexivity.
    - cbn [cond_ok] in OK1. apply negb_true_iff in OK1. destruct (dt_public d); [|reflexivity].
      apply gen_quirks_tables_agree. unfold quirks_table_exceptions. now rewrite OK1.
    - cbn [cond_ok] in OK1. apply negb_true_iff in OK1. destruct (dt_system d); [|reflexivity].
      apply gen_quirks_tables_agree. unfold quirks_table_exceptions. now rewrite OK1.
    - unfold public_has_silmaril_prefix in H. destruct (dt_public d) as [p|]; [|reflexivity].
      unfold has_prefix_in.
      apply (existsb_outside_ext String.eqb string_eqb_ok _ _ _ (quirks_table_exceptions t0)).
      + apply gen_quirks_tables_agree.
      + intros x Hx. unfold quirks_table_exceptions in Hx.
        destruct (String.eqb "QUIRKY_PUBLIC_PREFIXES" t0); [|discriminate].
        (* quirks_prefix_missing is [] since the Silmaril prefix was added in /repo, [silmaril_lower] before *)
        unfold quirks_prefix_missing in Hx. cbn [mem] in Hx.
        first [ discriminate Hx
              | rewrite orb_false_r in Hx; apply String.eqb_eq in Hx; subst x; exact H ]. }
  now rewrite E.
Qed.

Theorem gen_quirks_mode_is_whatwg_outside_findings : forall d,
  public_has_silmaril_prefix d = false -> gen_quirks_mode d false = whatwg_quirks_mode d false.
Proof.
  intros d H. unfold gen_quirks_mode.
  rewrite (eval_gen_tables_is_eval_whatwg_tables _ _ _ (eq_refl : forallb (fun a => cond_ok (fst a)) quirks_arms = true) H).
  rewrite eval_quirks_drop_srcdoc.
  assert (filter not_srcdoc quirks_arms = filter not_srcdoc whatwg_quirks_decision) as E by (vm_compute; reflexivity).
  rewrite E, <- eval_quirks_drop_srcdoc. apply whatwg_decision_list_is_function.
Qed.

(* ================================================================== adjustment tables (GenAdjust.v) *)
Definition ss_lookup := lookup (V := string) String.eqb.
Definition sq_lookup := lookup (V := qname) String.eqb.
Definition st_lookup := lookup (V := tsel) String.eqb.

Lemma svg_tag_adjust_is_whatwg : forall n, ss_lookup n svg_tag_adjust = ss_lookup n whatwg_svg_tag_adjust.
Proof. apply (map_eqb_sound String.eqb String.eqb string_eqb_ok string_eqb_ok). vm_compute. reflexivity. Qed.
Lemma svg_attr_adjust_is_whatwg : forall n, sq_lookup n svg_attr_adjust = sq_lookup n whatwg_svg_attr_adjust.
Proof. apply (map_eqb_sound String.eqb qname_eqb string_eqb_ok qname_eqb_ok). vm_compute. reflexivity. Qed.
Lemma mathml_attr_adjust_is_whatwg : forall n, sq_lookup n mathml_attr_adjust = sq_lookup n whatwg_mathml_attr_adjust.
Proof. apply (map_eqb_sound String.eqb qname_eqb string_eqb_ok qname_eqb_ok). vm_compute. reflexivity. Qed.

Definition sq_eqb : string * qname -> string * qname -> bool := pair_eqb String.eqb qname_eqb.
Lemma sq_eqb_ok : eqb_ok sq_eqb.
Proof. apply pair_eqb_ok; [apply string_eqb_ok | apply qname_eqb_ok]. Qed.
(* as sets of (name, qualified name) pairs, up to the prefix of the xmlns attribute (D9) *)
Lemma foreign_attr_adjust_is_whatwg_except : forall p, mem sq_eqb p (foreign_attr_extra ++ foreign_attr_missing) = false ->
  mem sq_eqb p foreign_attr_adjust = mem sq_eqb p whatwg_foreign_attr_adjust.
Proof. apply (set_eqb_outside_sound sq_eqb sq_eqb_ok). vm_compute. reflexivity. Qed.
(* namespace and local name of every adjusted attribute agree; the adjusted names (keys) agree *)
Definition drop_prefix (x : string * qname) : string * (ns * string) := (fst x, (snd (fst (snd x)), snd (snd x))).
Lemma foreign_attr_adjust_is_whatwg_modulo_prefix : forall n,
  lookup String.eqb n (map drop_prefix foreign_attr_adjust) = lookup String.eqb n (map drop_prefix whatwg_foreign_attr_adjust).
Proof. apply (map_eqb_sound String.eqb ename_eqb string_eqb_ok ename_eqb_ok). vm_compute. reflexivity. Qed.

Lemma tokstate_for_context_is_whatwg : forall n, st_lookup n tokstate_for_context = st_lookup n whatwg_tokstate_for_context.
Proof. apply (map_eqb_sound String.eqb tsel_eqb string_eqb_ok tsel_eqb_ok). vm_compute. reflexivity. Qed.
Lemma tokstate_default_is_whatwg : tokstate_default = whatwg_tokstate_default /\ tokstate_context_ns = NsHtml.
Proof. split; reflexivity. Qed.

Lemma foreign_breakout_start_is_whatwg : foreign_breakout_start =s= whatwg_breakout_start.
Proof. by_sset. Qed.
Lemma foreign_breakout_end_is_whatwg : foreign_breakout_end =s= whatwg_breakout_end.
Proof. by_sset. Qed.
Lemma foreign_font_attrs_is_whatwg : foreign_font_attrs =e= whatwg_breakout_font_attrs.
Proof. by_eset. Qed.
Lemma foreign_breakout_stop_is_whatwg_except : forall n, smem n breakout_stop_missing = false ->
  smem n foreign_breakout_stop = smem n whatwg_breakout_stop.
Proof. by_sout. Qed.
Lemma is_foreign_mathml_tip_start_exceptions_is_whatwg :
  is_foreign_mathml_tip_start_exceptions =s= whatwg_mathml_tip_start_exceptions.
Proof. by_sset. Qed.
Lemma is_foreign_annotation_xml_is_whatwg :
  is_foreign_annotation_xml_elem = whatwg_annotation_xml_elem /\
  (is_foreign_annotation_xml_start_html =s= whatwg_annotation_xml_start_html).
Proof. split; [reflexivity | by_sset]. Qed.
Lemma annotation_xml_integration_point_is_whatwg :
  annotation_xml_attr = whatwg_annotation_xml_attr /\ (annotation_xml_encodings =s= whatwg_annotation_xml_encodings).
Proof. split; [reflexivity | by_sset]. Qed.

Definition reset_arm_eqb : list string * string * string -> list string * string * string -> bool :=
  pair_eqb (pair_eqb (fun a b => set_eqb String.eqb a b) String.eqb) String.eqb.
(* same steps in the same order (the names inside one step as a set) *)
Lemma reset_mode_arms_is_whatwg : list_eqb reset_arm_eqb reset_mode_arms whatwg_reset_mode_steps = true.
Proof. vm_compute. reflexivity. Qed.

Lemma ser_void_elements_is_whatwg : ser_void_elements =s= whatwg_serializes_as_void.
Proof. by_sset. Qed.
(* relative to the void elements of 13.1.2 the serializer knows exactly the five obsolete elements more *)
Lemma ser_void_elements_is_whatwg_void_plus_obsolete : forall n,
  smem n ser_void_elements = up_to smem whatwg_void_elements whatwg_serializes_as_void_only [] n.
Proof. by_sexc. Qed.
Lemma ser_rawtext_parents_is_whatwg : ser_rawtext_parents =s= whatwg_ser_rawtext_parents.
Proof. by_sset. Qed.
Lemma ser_rawtext_parents_if_scripting_is_whatwg : ser_rawtext_parents_if_scripting =s= whatwg_ser_rawtext_parents_if_scripting.
Proof. by_sset. Qed.

(* ================================================================== dispatch census (GenDispatch.v) *)
Lemma insertion_modes_is_whatwg : insertion_modes =s= whatwg_insertion_modes.
Proof. by_sset. Qed.
Lemma dispatch_modes_census : map fst dispatch = whatwg_insertion_modes ++ ["Foreign"] /\ map fst whatwg_cases = map fst dispatch
                              /\ map fst whatwg_renumbering = map fst dispatch.
Proof. vm_compute. repeat split; reflexivity. Qed.
(* html5ever has no "in select" / "in select in table" insertion mode (removed from the standard in 2025) *)
Lemma legacy_select_modes_absent : forall m, smem m legacy_insertion_modes_extra = true -> smem m insertion_modes = false.
Proof.
  assert (forallb (fun m => negb (smem m insertion_modes)) legacy_insertion_modes_extra = true) as H by (vm_compute; reflexivity).
  intros m Hm. rewrite forallb_forall in H. apply negb_true_iff. apply H. now apply (mem_In String.eqb string_eqb_ok).
Qed.
Lemma doctype_processed_in_is_whatwg : doctype_processed_in =s= whatwg_doctype_processed_in.
Proof. by_sset. Qed.

(* For one mode: every token (any tag name) goes to an arm a of rules.rs and to case(s) c of the standard with
   (a, c) in the documented renumbering *)
Definition census_agrees (g : list arm) (s : list scase) (r : list (nat * nat)) : Prop :=
  forall k, comparable k = true ->
  exists a, arm_of g k = Some a /\ cases_of s k <> [] /\ forall c, In c (cases_of s k) -> In (a, c) r.
Ltac census := unfold census_agrees; apply dispatch_ok_sound; vm_compute; reflexivity.

Lemma census_Initial : census_agrees arms_Initial cases_Initial renum_Initial. Proof. census. Qed.
Lemma census_BeforeHtml : census_agrees arms_BeforeHtml cases_BeforeHtml renum_BeforeHtml. Proof. census. Qed.
Lemma census_BeforeHead : census_agrees arms_BeforeHead cases_BeforeHead renum_BeforeHead. Proof. census. Qed.
Lemma census_InHead : census_agrees arms_InHead cases_InHead renum_InHead. Proof. census. Qed.
Lemma census_InHeadNoscript : census_agrees arms_InHeadNoscript cases_InHeadNoscript renum_InHeadNoscript. Proof. census. Qed.
Lemma census_AfterHead : census_agrees arms_AfterHead cases_AfterHead renum_AfterHead. Proof. census. Qed.
Lemma census_InBody : census_agrees arms_InBody cases_InBody renum_InBody. Proof. census. Qed.
Lemma census_Text : census_agrees arms_Text cases_Text renum_Text. Proof. census. Qed.
Lemma census_InTable : census_agrees arms_InTable cases_InTable renum_InTable. Proof. census. Qed.
Lemma census_InTableText : census_agrees arms_InTableText cases_InTableText renum_InTableText. Proof. census. Qed.
Lemma census_InCaption : census_agrees arms_InCaption cases_InCaption renum_InCaption. Proof. census. Qed.
Lemma census_InColumnGroup : census_agrees arms_InColumnGroup cases_InColumnGroup renum_InColumnGroup. Proof. census. Qed.
Lemma census_InTableBody : census_agrees arms_InTableBody cases_InTableBody renum_InTableBody. Proof. census. Qed.
Lemma census_InRow : census_agrees arms_InRow cases_InRow renum_InRow. Proof. census. Qed.
Lemma census_InCell : census_agrees arms_InCell cases_InCell renum_InCell. Proof. census. Qed.
Lemma census_InTemplate : census_agrees arms_InTemplate cases_InTemplate renum_InTemplate. Proof. census. Qed.
Lemma census_AfterBody : census_agrees arms_AfterBody cases_AfterBody renum_AfterBody. Proof. census. Qed.
Lemma census_InFrameset : census_agrees arms_InFrameset cases_InFrameset renum_InFrameset. Proof. census. Qed.
Lemma census_AfterFrameset : census_agrees arms_AfterFrameset cases_AfterFrameset renum_AfterFrameset. Proof. census. Qed.
Lemma census_AfterAfterBody : census_agrees arms_AfterAfterBody cases_AfterAfterBody renum_AfterAfterBody. Proof. census. Qed.
Lemma census_AfterAfterFrameset : census_agrees arms_AfterAfterFrameset cases_AfterAfterFrameset renum_AfterAfterFrameset. Proof. census. Qed.
Lemma census_Foreign : census_agrees arms_Foreign cases_Foreign renum_Foreign. Proof. census. Qed.

(* all modes at once, and exactness: every documented pair is realised by some token *)
Fixpoint assoc_cases (d : list (string * list scase)) (m : string) : list scase :=
  match d with [] => [] | (n, a) :: t => if String.eqb n m then a else assoc_cases t m end.
Fixpoint assoc_renum (d : list (string * list (nat * nat))) (m : string) : list (nat * nat) :=
  match d with [] => [] | (n, a) :: t => if String.eqb n m then a else assoc_renum t m end.
Lemma census_all_modes_checked :
  forallb (fun m => dispatch_ok (assoc_arms dispatch m) (assoc_cases whatwg_cases m) (assoc_renum whatwg_renumbering m))
          (map fst dispatch) = true.
Proof. vm_compute. reflexivity. Qed.
Theorem census_all_modes : forall m, In m (map fst dispatch) ->
  census_agrees (assoc_arms dispatch m) (assoc_cases whatwg_cases m) (assoc_renum whatwg_renumbering m) /\
  forall p, In p (assoc_renum whatwg_renumbering m) ->
            exists k, In p (pairs_of (assoc_arms dispatch m) (assoc_cases whatwg_cases m) k).
Proof.
  intros m Hm. pose proof census_all_modes_checked as H. rewrite forallb_forall in H. specialize (H m Hm).
  split; [unfold census_agrees; now apply dispatch_ok_sound | now apply dispatch_ok_exact].
Qed.

(* where the renumbering is not one-to-one (machine-checked documentation of WhatwgDispatch.v) *)
Example in_body_arms_with_several_cases :
  arms_with_several_cases renum_InBody = [(1, [1; 2]); (15, [16; 17]); (22, [23; 24]); (49, [44; 53]); (50, [26; 54])].
Proof. vm_compute. reflexivity. Qed.
Example in_body_cases_with_several_arms : cases_with_several_arms renum_InBody = [(12, [10; 11]); (54, [20; 50])].
Proof. vm_compute. reflexivity. Qed.
Example one_to_one_modes :
  filter (fun m => match arms_with_several_cases (assoc_renum whatwg_renumbering m),
                         cases_with_several_arms (assoc_renum whatwg_renumbering m) with [], [] => true | _, _ => false end)
         (map fst dispatch)
  = ["Initial"; "BeforeHtml"; "BeforeHead"; "AfterHead"; "InTableText"; "InColumnGroup"; "InTableBody"; "InRow";
     "InCell"; "AfterBody"; "InFrameset"; "AfterFrameset"].
Proof. vm_compute. reflexivity. Qed.

(* unsplit character runs *)
Lemma split_discipline_all_modes :
  forallb (fun m => split_discipline (assoc_arms dispatch m) (assoc_nats split_arms m)) (map fst dispatch) = true.
Proof. vm_compute. reflexivity. Qed.

(* formatting elements: the "in body" arms that create formatting elements / run the adoption agency *)
Definition gen_formatting_start : list string :=
  start_names (arm_containing arms_InBody (AStart "a")) ++ start_names (arm_containing arms_InBody (AStart "b"))
  ++ start_names (arm_containing arms_InBody (AStart "nobr")).
Definition gen_formatting_end : list string := end_names (arm_containing arms_InBody (AEnd "a")).
Lemma formatting_start_is_whatwg : gen_formatting_start =s= whatwg_formatting.
Proof. by_sset. Qed.
Lemma formatting_end_is_whatwg : gen_formatting_end =s= whatwg_formatting.
Proof. by_sset. Qed.

(* ================================================================== non-vacuity *)
Example tables_non_empty :
  forallb (fun p => Nat.leb (fst p) (snd p))
    [(80, length ts_special_tag); (18, length ts_default_scope); (54, length quirky_public_prefixes);
     (37, length svg_tag_adjust); (58, length svg_attr_adjust); (11, length foreign_attr_adjust);
     (22, length dispatch); (40, length arms_InBody); (18, length ser_void_elements);
     (200, length (flat_map snd dispatch))] = true.
Proof. vm_compute. reflexivity. Qed.
Example special_tag_sample : emem (NsHtml, "table") ts_special_tag = true /\ emem (NsHtml, "span") ts_special_tag = false.
Proof. vm_compute. split; reflexivity. Qed.
Example in_body_dispatch_sample :
  arm_of arms_InBody (KStart "menu") = Some 11 /\ cases_of cases_InBody (KStart "menu") = [12] /\
  arm_of arms_InBody (KStart "blink") = Some 49 /\ cases_of cases_InBody (KStart "blink") = [53] /\
  cases_of cases_InBody (KStart "noscript") = [44; 53].
Proof. vm_compute. repeat split; reflexivity. Qed.
