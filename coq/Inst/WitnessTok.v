(* Prints, for each reflective check, the list of offending states of the REGENERATED tables
   (always compiles; the check scripts read this output to name the failing cells). *)
From Coq Require Import List NArith String.
From HV Require Import TokIR.IR TokIR.Interp TokIR.Checks Gen.GenHtmlTok Gen.GenXmlTok.
Import ListNotations. Local Open Scope string_scope.
Definition W_html_sets_adequate := sets_adequate hstate_beq true html_table.
Definition W_xml_sets_adequate := sets_adequate xstate_beq false xml_table.
Definition W_html_raw_discard_safe := raw_discard_safe html_table.
Definition W_xml_raw_discard_safe := raw_discard_safe xml_table.
Definition W_html_eof_rank_ok := eof_rank_ok html_table.
Definition W_xml_eof_rank_ok := eof_rank_ok xml_table.
Definition W_html_charref_states_ok := charref_states_ok html_flavour html_table.
Definition W_xml_charref_states_ok := charref_states_ok xml_flavour xml_table.
Definition W_html_reads_first := reads_first html_table.
Definition W_xml_reads_first := reads_first xml_table.
Definition W_html_no_fall := no_fall html_table.
Definition W_xml_no_fall := no_fall xml_table.
Definition W_simd_consistent :=
  simd_consistent (match html_step HData with BPop s _ _ _ => s | _ => [] end)
                  simd_first_guard simd_tail_stop simd_tail_newline simd_lane_stop simd_lane_newline.
Eval vm_compute in ("html_sets_adequate", W_html_sets_adequate).
Eval vm_compute in ("xml_sets_adequate", W_xml_sets_adequate).
Eval vm_compute in ("html_raw_discard_safe", W_html_raw_discard_safe).
Eval vm_compute in ("xml_raw_discard_safe", W_xml_raw_discard_safe).
Eval vm_compute in ("html_eof_rank_ok", W_html_eof_rank_ok).
Eval vm_compute in ("xml_eof_rank_ok", W_xml_eof_rank_ok).
Eval vm_compute in ("html_charref_states_ok", W_html_charref_states_ok).
Eval vm_compute in ("xml_charref_states_ok", W_xml_charref_states_ok).
Eval vm_compute in ("html_reads_first", W_html_reads_first).
Eval vm_compute in ("xml_reads_first", W_xml_reads_first).
Eval vm_compute in ("html_no_fall", W_html_no_fall).
Eval vm_compute in ("xml_no_fall", W_xml_no_fall).
Eval vm_compute in ("simd_consistent", W_simd_consistent).
From HV Require Import Golden.GoldenHtmlTok Golden.GoldenXmlTok.
Eval vm_compute in ("html_golden_diff", table_diff hstate_beq html_table g_html_table).
Eval vm_compute in ("xml_golden_diff", table_diff xstate_beq xml_table g_xml_table).
