(* C07: the default-mode lexing theorems of Inst/InstSerLex.v / InstSerLexTag.v with the explicit fuel bound of
   TokIR/Termination.v in place of the `regular` hypothesis (Inst/InstBulkTerm.v). *)
From Coq Require Import List NArith Bool Lia Arith.
From HV Require Import TokIR.IR TokIR.Interp TokIR.Checks TokIR.BulkSim Gen.GenHtmlTok.
From HV Require Import HtmlSer.SerSpec HtmlSer.SerProofs HtmlSer.SerLex HtmlSer.SerLexTag Inst.InstSerLex Inst.InstSerLexTag.
From HV Require Import TokIR.QueueSim Inst.InstBulk Inst.InstTermination Inst.InstBulkTerm.
Import ListNotations.
Local Open Scope N_scope.

Lemma fresh_one_regular c1 sk last fuel (x : list N) :
  (html_fuel (length x) <= fuel)%nat -> (4 <= fuel)%nat ->
  regular (snd (drive_chunked html_flavour false html_table html_simd hent c1 sk fuel [] [x]
                              (mkmach (init_cfg HData last false) [] [] 0) [])).
Proof.
  intros Hf HD. apply html_default_regular_fresh; [|exact HD]. rewrite one_chunk_bound. exact Hf.
Qed.

Theorem html_escaped_text_lexes_back_default_mode_total : forall c1 sk last s fuel, ~ In 0 s -> ~ In 13 s ->
  (html_fuel (length (escape_spec false s)) <= fuel)%nat -> (4 <= fuel)%nat ->
  let rf := drive_chunked html_flavour false html_table html_simd hent c1 sk fuel [] [escape_spec false s]
              (mkmach (init_cfg HData last false) [] [] 0) [] in
  snd rf = [SSuspend; SSuspend] /\ st (mc (fst rf)) = HData /\
  exists l k l' k', obs (mout (fst rf)) = (TEof, l', k') :: match s with [] => [] | _ => [(TChars s, l, k)] end.
Proof.
  intros c1 sk last s fuel N0 N13 Hf HD.
  apply (html_escaped_text_lexes_back_default_mode c1 sk last s fuel N0 N13). apply fresh_one_regular; assumption.
Qed.

Theorem html_escaped_attr_lexes_back_default_mode_total : forall c1 sk last s fuel,
  lookup_resp [97] (sk_resp sk) = None -> ~ In 0 s -> ~ In 13 s ->
  (html_fuel (length (pre6 ++ escape_spec true s ++ [34; 62]%N)) <= fuel)%nat -> (4 <= fuel)%nat ->
  let rf := drive_chunked html_flavour false html_table html_simd hent c1 sk fuel [] [pre6 ++ escape_spec true s ++ [34; 62]]
              (mkmach (init_cfg HData last false) [] [] 0) [] in
  snd rf = [SSuspend; SSuspend] /\ st (mc (fst rf)) = HData /\
  exists l k l' k', obs (mout (fst rf)) = [(TEof, l', k'); (TTag TStartTag [97] false [([98], s)] false, l, k)].
Proof.
  intros c1 sk last s fuel Hsk N0 N13 Hf HD.
  apply (html_escaped_attr_lexes_back_default_mode c1 sk last s fuel Hsk N0 N13). apply fresh_one_regular; assumption.
Qed.

Theorem html_items_lex_back_default_mode_total : forall c1 sk last its fuel, Forall (item_ok sk) its -> follow its [] ->
  (html_fuel (length (render_items its)) <= fuel)%nat -> (4 <= fuel)%nat ->
  let rf := drive_chunked html_flavour false html_table html_simd hent c1 sk fuel [] [render_items its]
              (mkmach (init_cfg HData last false) [] [] 0) [] in
  snd rf = [SSuspend; SSuspend] /\ st (mc (fst rf)) = HData /\
  exists l' k' o, obs (mout (fst rf)) = (TEof, l', k') :: o /\ deliv (items_tokens its) [] o.
Proof.
  intros c1 sk last its fuel Hok Hfo Hf HD.
  apply (html_items_lex_back_default_mode c1 sk last its fuel Hok Hfo). apply fresh_one_regular; assumption.
Qed.
