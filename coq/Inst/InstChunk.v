(* Instantiation of the chunk-independence theorem (TokIR/Chunk.v) on the REGENERATED tokenizer tables:
   every arm body of every state has one of the shapes the suspend/resume argument needs. *)
From Coq Require Import List NArith Bool.
From HV Require Import TokIR.IR TokIR.Interp TokIR.Checks TokIR.Chunk TokIR.ChunkInv TokIR.ChunkExec Gen.GenHtmlTok Gen.GenXmlTok.
Import ListNotations.

Lemma html_shape_all : forall s, shape html_flavour (html_step s) = true.
Proof. intros s. destruct s; try reflexivity; destruct k; try reflexivity; destruct k; reflexivity. Qed.
Lemma html_no_eof_all : forall s, no_eof (html_step s) = true.
Proof. intros s. destruct s; try reflexivity; destruct k; try reflexivity; destruct k; reflexivity. Qed.
Lemma xml_shape_all : forall s, shape xml_flavour (xml_step s) = true.
Proof. intros s. destruct s; try reflexivity; destruct k; try reflexivity; destruct k; reflexivity. Qed.
Lemma xml_no_eof_all : forall s, no_eof (xml_step s) = true.
Proof. intros s. destruct s; try reflexivity; destruct k; try reflexivity; destruct k; reflexivity. Qed.

(* html5ever tokenizer, exact_errors = true, reference (flat-queue) semantics: the machine reached - tokens with
   parse errors and line numbers, tokenizer configuration, unread input - does not depend on how the input was
   cut into chunks, nor on script pauses with injected text happening at the same logical positions *)
Theorem html_chunking_independent :
  forall simd ent c1 sk inj cs1 cs2 m m1 m2,
  all_nonempty cs1 -> all_nonempty cs2 -> cs1 <> [] -> cs2 <> [] -> concat cs1 = concat cs2 ->
  feed_chunks html_flavour true html_table simd ent c1 sk inj m cs1 m1 ->
  feed_chunks html_flavour true html_table simd ent c1 sk inj m cs2 m2 -> m1 = m2.
Proof.
  intros simd ent c1 sk inj cs1 cs2 m m1 m2.
  exact (chunking_independent html_flavour true html_table simd ent c1 sk eq_refl html_shape_all html_no_eof_all
                              inj cs1 cs2 m m1 m2).
Qed.

(* for html the side condition carried by the run relation is always true: the relation IS the fuelled loop *)
Theorem html_run_is_relation :
  forall simd ent c1 sk fuel m m' r,
  run [] fq_next fq_peek (@app N) (fun q => q) fq_run1 html_flavour true html_table simd ent c1 sk false fuel m = (m', r) ->
  oruns html_flavour true html_table simd ent c1 sk m m' r \/ r = SPanic 98.
Proof.
  intros simd ent c1 sk fuel m m' r.
  apply (run_is_oruns html_flavour true html_table simd ent c1 sk).
  intros m0. apply step_ok_html. reflexivity.
Qed.

Theorem xml_chunking_independent_partial :
  forall simd ent c1 sk inj cs1 cs2 m m1 m2,
  all_nonempty cs1 -> all_nonempty cs2 -> cs1 <> [] -> cs2 <> [] -> concat cs1 = concat cs2 ->
  feed_chunks xml_flavour true xml_table simd ent c1 sk inj m cs1 m1 ->
  feed_chunks xml_flavour true xml_table simd ent c1 sk inj m cs2 m2 -> m1 = m2.
Proof.
  intros simd ent c1 sk inj cs1 cs2 m m1 m2.
  exact (chunking_independent xml_flavour true xml_table simd ent c1 sk eq_refl xml_shape_all xml_no_eof_all
                              inj cs1 cs2 m m1 m2).
Qed.

(* ---------------------------------------------------------------- xml: the side condition is an invariant
   TokIR/ChunkInv.v: if every step body starts with a consuming read or with eat, and no arm reconsumes in a state
   whose body starts with eat, then J (the reconsume flag is set only in states that do not start with eat) is kept
   by every step, by appending input and by injecting script text, and J implies the side condition [step_ok] that
   the run relation of Chunk.v carries.  Both conditions are decided here on the REGENERATED xml table. *)
Lemma xml_rfirst_all : forall s, rfirst (xml_step s) = true.
Proof. intros s. destruct s; try reflexivity; destruct k; reflexivity. Qed.
Lemma xml_rt_ok_all : forall s, rt_ok xml_table (xml_step s) = true.
Proof. intros s. destruct s; try reflexivity; destruct k; reflexivity. Qed.

(* every machine the tokenizer starts from satisfies J (the flag is clear) *)
Lemma xml_J_init : forall s0 last bom q o k, J xml_table (mkmach (init_cfg s0 last bom) q o k).
Proof. intros. intros H. discriminate H. Qed.

Theorem xml_step_keeps_J : forall ex simd ent c1 sk m m' r,
  J xml_table m ->
  step [] fq_next fq_peek (@app N) (fun q => q) fq_run1 xml_flavour ex xml_table simd ent c1 sk false m = (m', r) ->
  J xml_table m'.
Proof.
  intros ex simd ent c1 sk m m' r.
  exact (step_J xml_flavour ex xml_table simd ent c1 sk xml_rfirst_all xml_rt_ok_all m m' r).
Qed.

(* for xml, on every machine satisfying J - hence on every machine reachable from an initial one - the run relation
   IS the fuelled executable loop, and the loop leads to a J-machine again *)
Theorem xml_run_is_relation :
  forall simd ent c1 sk fuel m m' r,
  J xml_table m ->
  run [] fq_next fq_peek (@app N) (fun q => q) fq_run1 xml_flavour true xml_table simd ent c1 sk false fuel m = (m', r) ->
  (oruns xml_flavour true xml_table simd ent c1 sk m m' r /\ J xml_table m') \/ r = SPanic 98.
Proof.
  intros simd ent c1 sk fuel m m' r.
  exact (run_is_oruns_J xml_flavour true xml_table simd ent c1 sk xml_rfirst_all xml_rt_ok_all fuel m m' r).
Qed.

Theorem xml_feed_chunks_keeps_J :
  forall simd ent c1 sk inj cs m m',
  feed_chunks xml_flavour true xml_table simd ent c1 sk inj m cs m' -> J xml_table m -> J xml_table m'.
Proof.
  intros simd ent c1 sk inj cs m m'.
  exact (feed_chunks_J xml_flavour true xml_table simd ent c1 sk xml_rfirst_all xml_rt_ok_all inj cs m m').
Qed.

(* ---------------------------------------------------------------- the executable driver (TokIR/ChunkExec.v)
   Two chunkings of one input, fed with the fuelled driver functions [feed_loop] / [drive] (= drive_flat) and ended
   with end(), reach the same final machine and the same result of end(), provided every feed call of both runs ended
   regularly (done, script pause or encoding indicator: no panic value, no fuel exhaustion) and the BOM flag is clear
   (BOM handling looks at the first character of the stream only and is exercised by the check's oracles). *)
Definition nobom_of {S} (m : mach S (list N)) : Prop := discard_bom (mc m) = false.

Lemma html_Hrun simd ent c1 sk : forall fuel (m m' : mach hstate (list N)) r, True ->
  run [] fq_next fq_peek (@app N) (fun q => q) fq_run1 html_flavour true html_table simd ent c1 sk false fuel m = (m', r) ->
  (oruns html_flavour true html_table simd ent c1 sk m m' r /\ True) \/ r = SPanic 98.
Proof. intros f m0 m' r _ H. destruct (html_run_is_relation simd ent c1 sk f m0 m' r H) as [A|A]; [left; auto|right; exact A]. Qed.
Lemma run_nobom {S} (fl : flavour S) tb simd ent c1 sk : forall fuel (m : mach S (list N)),
  nobom m -> nobom (fst (run [] fq_next fq_peek (@app N) (fun q => q) fq_run1 fl true tb simd ent c1 sk false fuel m)).
Proof.
  intros f m0 H0. unfold nobom in *.
  pose proof (run_db fl true tb simd ent c1 sk f m0) as G. unfold dbom in G. rewrite G. exact H0.
Qed.
Lemma inj_nobom {S} : forall inj (m : mach S (list N)), nobom m -> nobom (RecordSet.set mq (app inj) m).
Proof. intros i m0 H0. destruct m0; exact H0. Qed.

Theorem html_drive_chunking_independent :
  forall simd ent c1 sk fuel inj cs1 cs2 (m : mach hstate (list N)),
  discard_bom (mc m) = false ->
  all_nonempty cs1 -> all_nonempty cs2 -> cs1 <> [] -> cs2 <> [] -> concat cs1 = concat cs2 ->
  all_done (tl (snd (drive_flat html_flavour true html_table simd ent c1 sk fuel inj cs1 m []))) ->
  all_done (tl (snd (drive_flat html_flavour true html_table simd ent c1 sk fuel inj cs2 m []))) ->
  fst (drive_flat html_flavour true html_table simd ent c1 sk fuel inj cs1 m []) =
  fst (drive_flat html_flavour true html_table simd ent c1 sk fuel inj cs2 m []) /\
  hd SSuspend (snd (drive_flat html_flavour true html_table simd ent c1 sk fuel inj cs1 m [])) =
  hd SSuspend (snd (drive_flat html_flavour true html_table simd ent c1 sk fuel inj cs2 m [])).
Proof.
  intros simd ent c1 sk fuel inj cs1 cs2 m HB.
  exact (drive_chunking_independent html_flavour html_table simd ent c1 sk (fun _ => True)
           (html_Hrun simd ent c1 sk) (fun _ _ _ => I) (fun _ _ _ => I) html_shape_all html_no_eof_all
           (run_nobom html_flavour html_table simd ent c1 sk) inj_nobom fuel inj cs1 cs2 m I HB).
Qed.

Theorem xml_drive_chunking_independent :
  forall simd ent c1 sk fuel inj cs1 cs2 (m : mach xstate (list N)),
  J xml_table m -> discard_bom (mc m) = false ->
  all_nonempty cs1 -> all_nonempty cs2 -> cs1 <> [] -> cs2 <> [] -> concat cs1 = concat cs2 ->
  all_done (tl (snd (drive_flat xml_flavour true xml_table simd ent c1 sk fuel inj cs1 m []))) ->
  all_done (tl (snd (drive_flat xml_flavour true xml_table simd ent c1 sk fuel inj cs2 m []))) ->
  fst (drive_flat xml_flavour true xml_table simd ent c1 sk fuel inj cs1 m []) =
  fst (drive_flat xml_flavour true xml_table simd ent c1 sk fuel inj cs2 m []) /\
  hd SSuspend (snd (drive_flat xml_flavour true xml_table simd ent c1 sk fuel inj cs1 m [])) =
  hd SSuspend (snd (drive_flat xml_flavour true xml_table simd ent c1 sk fuel inj cs2 m [])).
Proof.
  intros simd ent c1 sk fuel inj cs1 cs2 m HJ HB.
  exact (drive_chunking_independent xml_flavour xml_table simd ent c1 sk (J xml_table)
           (xml_run_is_relation simd ent c1 sk)
           (fun x m0 H0 => proj1 (J_ext xml_table simd ent x m0) H0) (fun i m0 H0 => J_inj xml_table i m0 H0)
           xml_shape_all xml_no_eof_all
           (run_nobom xml_flavour xml_table simd ent c1 sk) inj_nobom fuel inj cs1 cs2 m HJ HB).
Qed.

(* ... including the byte order mark: from a machine with an empty queue, whatever its discard_bom flag, as long as
   neither chunking starts with a chunk that is the mark alone *)
Theorem html_drive_chunking_independent_bom :
  forall simd ent c1 sk fuel inj cs1 cs2 (m : mach hstate (list N)),
  mq m = [] ->
  all_nonempty cs1 -> all_nonempty cs2 -> cs1 <> [] -> cs2 <> [] -> concat cs1 = concat cs2 ->
  hd [] cs1 <> [BOM] -> hd [] cs2 <> [BOM] ->
  all_done (tl (snd (drive_flat html_flavour true html_table simd ent c1 sk fuel inj cs1 m []))) ->
  all_done (tl (snd (drive_flat html_flavour true html_table simd ent c1 sk fuel inj cs2 m []))) ->
  fst (drive_flat html_flavour true html_table simd ent c1 sk fuel inj cs1 m []) =
  fst (drive_flat html_flavour true html_table simd ent c1 sk fuel inj cs2 m []) /\
  hd SSuspend (snd (drive_flat html_flavour true html_table simd ent c1 sk fuel inj cs1 m [])) =
  hd SSuspend (snd (drive_flat html_flavour true html_table simd ent c1 sk fuel inj cs2 m [])).
Proof.
  intros simd ent c1 sk fuel inj cs1 cs2 m Hq.
  exact (drive_chunking_independent_bom html_flavour html_table simd ent c1 sk (fun _ => True)
           (html_Hrun simd ent c1 sk) (fun _ _ _ => I) (fun _ _ _ => I) html_shape_all html_no_eof_all
           (run_nobom html_flavour html_table simd ent c1 sk) inj_nobom (fun _ _ => I) (fun _ _ _ => I)
           fuel inj cs1 cs2 m I Hq).
Qed.

Lemma J_clear {S} (tb : table S) (m : mach S (list N)) : J tb m -> J tb (clear_bom m).
Proof. destruct m as [cf q o k]; destruct cf; exact (fun H => H). Qed.
Lemma J_took {S} (tb : table S) n (m : mach S (list N)) : J tb m -> J tb (took n m).
Proof. destruct m; exact (fun H => H). Qed.

Theorem xml_drive_chunking_independent_bom :
  forall simd ent c1 sk fuel inj cs1 cs2 (m : mach xstate (list N)),
  J xml_table m -> mq m = [] ->
  all_nonempty cs1 -> all_nonempty cs2 -> cs1 <> [] -> cs2 <> [] -> concat cs1 = concat cs2 ->
  hd [] cs1 <> [BOM] -> hd [] cs2 <> [BOM] ->
  all_done (tl (snd (drive_flat xml_flavour true xml_table simd ent c1 sk fuel inj cs1 m []))) ->
  all_done (tl (snd (drive_flat xml_flavour true xml_table simd ent c1 sk fuel inj cs2 m []))) ->
  fst (drive_flat xml_flavour true xml_table simd ent c1 sk fuel inj cs1 m []) =
  fst (drive_flat xml_flavour true xml_table simd ent c1 sk fuel inj cs2 m []) /\
  hd SSuspend (snd (drive_flat xml_flavour true xml_table simd ent c1 sk fuel inj cs1 m [])) =
  hd SSuspend (snd (drive_flat xml_flavour true xml_table simd ent c1 sk fuel inj cs2 m [])).
Proof.
  intros simd ent c1 sk fuel inj cs1 cs2 m HJ Hq.
  exact (drive_chunking_independent_bom xml_flavour xml_table simd ent c1 sk (J xml_table)
           (xml_run_is_relation simd ent c1 sk)
           (fun x m0 H0 => proj1 (J_ext xml_table simd ent x m0) H0) (fun i m0 H0 => J_inj xml_table i m0 H0)
           xml_shape_all xml_no_eof_all
           (run_nobom xml_flavour xml_table simd ent c1 sk) inj_nobom (J_clear xml_table) (J_took xml_table)
           fuel inj cs1 cs2 m HJ Hq).
Qed.
