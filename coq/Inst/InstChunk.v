(* Instantiation of the chunk-independence theorem (TokIR/Chunk.v) on the REGENERATED tokenizer tables:
   every arm body of every state has one of the shapes the suspend/resume argument needs. *)
From Coq Require Import List NArith Bool.
From HV Require Import TokIR.IR TokIR.Interp TokIR.Checks TokIR.Chunk Gen.GenHtmlTok Gen.GenXmlTok.
Import ListNotations.

Lemma html_shape_all : forall s, shape html_flavour (html_step s) = true.
Proof. intros s. destruct s; try reflexivity; destruct k; try reflexivity; destruct k; reflexivity. Qed.
Lemma html_no_eof_all : forall s, no_eof (html_step s) = true.
Proof. intros s. destruct s; try reflexivity; destruct k; try reflexivity; destruct k; reflexivity. Qed.
Lemma xml_shape_all : forall s, shape xml_flavour (xml_step s) = true.
Proof. intros s. destruct s; try reflexivity; destruct k; try reflexivity; destruct k; reflexivity. Qed.
Lemma xml_no_eof_all : forall s, no_eof (xml_step s) = true.
Proof. intros s. destruct s; try reflexivity; destruct k; try reflexivity; destruct k; reflexivity. Qed.

(* html5ever tokenizer, exact_errors = true, reference (flat-queue) semantics: the machine reached - tokens with
   parse errors and line numbers, tokenizer configuration, unread input - does not depend on how the input was
   cut into chunks, nor on script pauses with injected text happening at the same logical positions *)
Theorem html_chunking_independent :
  forall simd ent c1 sk inj cs1 cs2 m m1 m2,
  all_nonempty cs1 -> all_nonempty cs2 -> cs1 <> [] -> cs2 <> [] -> concat cs1 = concat cs2 ->
  feed_chunks html_flavour true html_table simd ent c1 sk inj m cs1 m1 ->
  feed_chunks html_flavour true html_table simd ent c1 sk inj m cs2 m2 -> m1 = m2.
Proof.
  intros simd ent c1 sk inj cs1 cs2 m m1 m2.
  exact (chunking_independent html_flavour true html_table simd ent c1 sk eq_refl html_shape_all html_no_eof_all
                              inj cs1 cs2 m m1 m2).
Qed.

(* for html the side condition carried by the run relation is always true: the relation IS the fuelled loop *)
Theorem html_run_is_relation :
  forall simd ent c1 sk fuel m m' r,
  run [] fq_next fq_peek (@app N) (fun q => q) fq_run1 html_flavour true html_table simd ent c1 sk false fuel m = (m', r) ->
  oruns html_flavour true html_table simd ent c1 sk m m' r \/ r = SPanic 98.
Proof.
  intros simd ent c1 sk fuel m m' r.
  apply (run_is_oruns html_flavour true html_table simd ent c1 sk).
  intros m0. apply step_ok_html. reflexivity.
Qed.

Theorem xml_chunking_independent_partial :
  forall simd ent c1 sk inj cs1 cs2 m m1 m2,
  all_nonempty cs1 -> all_nonempty cs2 -> cs1 <> [] -> cs2 <> [] -> concat cs1 = concat cs2 ->
  feed_chunks xml_flavour true xml_table simd ent c1 sk inj m cs1 m1 ->
  feed_chunks xml_flavour true xml_table simd ent c1 sk inj m cs2 m2 -> m1 = m2.
Proof.
  intros simd ent c1 sk inj cs1 cs2 m m1 m2.
  exact (chunking_independent xml_flavour true xml_table simd ent c1 sk eq_refl xml_shape_all xml_no_eof_all
                              inj cs1 cs2 m m1 m2).
Qed.
