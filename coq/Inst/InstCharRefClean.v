(* C14 / C04: the premise of CharRef/CrInterp.v's whole-reference theorems on the REGENERATED html table: right after every
   ConsumeCharRef terminator the machine is [CrInterp.clean] (reconsume = false, ignore_lf = false) and its reference
   state is a fresh cr_new.  CI (reconsume set and CR pending -> current_char = LF) holds of every fresh tokenizer and is
   kept by every step. *)
From Coq Require Import List NArith Bool.
From HV Require Import TokIR.IR TokIR.Interp TokIR.Checks TokIR.LineInv TokIR.Termination TokIR.CharRefClean.
From HV Require Import Gen.GenHtmlTok Inst.InstLine Inst.InstTermination.
From HV Require CharRef.CrInterp.
Import ListNotations.

Lemma html_cchk_all : forall s, cchk IUnk (t_step html_table s) = true.
Proof. intros s. destruct s; try reflexivity; destruct k; try reflexivity; destruct k; reflexivity. Qed.

Definition HtmlCI (m : mach hstate (list N)) : Prop := CI m.

Lemma html_CI_init s0 last q o k : HtmlCI (mkmach (init_cfg s0 last false) q o k).
Proof. apply CI_init. Qed.

Section Html.
Variable simd : list N * list N * list N.
Variable ent : list N -> option (N * N).
Variable c1 : N -> option N.
Variable sk : sinkcfg.
Notation stepH := (step [] fq_next fq_peek (@app N) (fun q => q) fq_run1 html_flavour true html_table simd ent c1 sk).

Lemma html_step_keeps_CI a m : HtmlTI m -> HtmlCI m -> HtmlCI (fst (stepH a m)).
Proof. exact (step_keeps_CI html_flavour html_table simd ent c1 sk eq_refl html_clean html_cchk_all a m). Qed.

(* the lemma asked for: usable as the premise [clean m'] (and the cr_new premise) of C14_interp_whole & co. *)
Lemma html_consume_charref_clean a m :
  HtmlTI m -> HtmlCI m -> cref (mc m) = None -> cref (mc (fst (stepH a m))) <> None ->
  CrInterp.clean (fst (stepH a m)) /\ exists in_attr ad, cref (mc (fst (stepH a m))) = Some (cr_new in_attr ad).
Proof.
  intros HI HC Hn Hs.
  destruct (consume_charref_clean html_flavour html_table simd ent c1 sk eq_refl html_clean html_cchk_all a m HI HC Hn Hs)
    as (A & B & D).
  split; [split; assumption|exact D].
Qed.
End Html.
