(* C04: instantiation of TokIR/Termination.v on the REGENERATED html tokenizer table: the rank is computed from the
   table (longest chain of arms that may end without consuming), the progress check and the EOF depth are decided
   here; a source change that introduces a non-consuming cycle breaks html_progress_all, not the generic proof. *)
From Coq Require Import List NArith Bool Lia.
From HV Require Import TokIR.IR TokIR.Interp TokIR.Checks TokIR.LineInv TokIR.Termination Gen.GenHtmlTok Inst.InstLine.
Import ListNotations.

Definition html_rank : hstate -> nat := rankn html_table 4.
Lemma html_rank_le : forall s, (html_rank s <= 4)%nat.
Proof. intros s. apply rankn_le. Qed.
Lemma html_progress_all : forall s, pchk html_rank s false (t_step html_table s) = true.
Proof. intros s. destruct s; try (vm_compute; reflexivity); destruct k; try (vm_compute; reflexivity); destruct k; vm_compute; reflexivity. Qed.
Lemma html_eof_notag_all : forall s, notag (t_eof html_table s) = true.
Proof. intros s. destruct s; try reflexivity; destruct k; try reflexivity; destruct k; reflexivity. Qed.
Lemma html_eof_depth_all : forall s, edepth html_table 4 s = true.
Proof. intros s. destruct s; try (vm_compute; reflexivity); destruct k; try (vm_compute; reflexivity); destruct k; vm_compute; reflexivity. Qed.

(* invariant, measure and bound on the html table *)
Definition HtmlTI (m : mach hstate (list N)) : Prop := TI html_table html_clean m.
Definition html_unread (m : mach hstate (list N)) : nat := Tl html_table m.
Definition html_fuel (T : nat) : nat := run_bound 4 T.
Lemma html_fuel_eq T : html_fuel T = ((T + 1) * (2 * T + 10))%nat.
Proof. unfold html_fuel, run_bound, Lc. f_equal. lia. Qed.

Lemma html_TI_init s0 last q o k : HtmlTI (mkmach (init_cfg s0 last false) q o k).
Proof. apply TI_init. Qed.
Lemma html_unread_init s0 last q o k : html_unread (mkmach (init_cfg s0 last false) q o k) = length q.
Proof.
  unfold html_unread, Tl, stash, wn, rcn, qn, tn, LineInv.vtmp, LineInv.vcr, LineInv.vrc. cbn.
  destruct (LineInv.eatS html_table s0); lia.
Qed.

Section Html.
Variable simd : list N * list N * list N.
Variable ent : list N -> option (N * N).
Variable c1 : N -> option N.
Variable sk : sinkcfg.

Notation runH := (run [] fq_next fq_peek (@app N) (fun q => q) fq_run1 html_flavour true html_table simd ent c1 sk).
Notation endH := (tok_end [] fq_next fq_peek (@app N) (fun q => q) fq_run1 html_flavour true html_table simd ent c1 sk).

Lemma html_run_terminates a fuel m : HtmlTI m -> (html_fuel (html_unread m) <= fuel)%nat ->
  HtmlTI (fst (runH a fuel m)) /\ (html_unread (fst (runH a fuel m)) <= html_unread m)%nat /\
  snd (runH a fuel m) <> SPanic 98 /\ snd (runH a fuel m) <> SPanic 97.
Proof.
  exact (run_terminates html_flavour html_table simd ent c1 sk eq_refl html_clean html_rank 4 html_rank_le
           html_eat_clean_all html_start_ok_all html_progress_all a fuel m).
Qed.

Lemma html_end_terminates fuel m : HtmlTI m -> (html_fuel (html_unread m) <= fuel)%nat -> (4 <= fuel)%nat ->
  snd (endH fuel m) <> SPanic 98 /\ snd (endH fuel m) <> SPanic 97.
Proof.
  exact (tok_end_terminates html_flavour html_table simd ent c1 sk eq_refl html_clean html_rank 4 html_rank_le
           html_eat_clean_all html_start_ok_all html_progress_all 4 html_eof_ok_all html_eof_notag_all
           html_eof_depth_all fuel m).
Qed.

Lemma oks_no_fuel_panic log : oks log -> ~ In (SPanic 98) log /\ ~ In (SPanic 97) log.
Proof.
  intros H. unfold oks in H. rewrite Forall_forall in H. split; intros X; destruct (H _ X) as [A B]; congruence.
Qed.

(* the driver from any machine satisfying the invariant: total = unread at the start + all chunks + everything that
   script pauses can inject (feed_loop allows 50 pauses per chunk) *)
Lemma html_drive_terminates_from fuel inj chunks m :
  HtmlTI m ->
  (html_fuel (html_unread m + length (concat chunks) + length chunks * (50 * length inj)) <= fuel)%nat ->
  (4 <= fuel)%nat ->
  ~ In (SPanic 98) (snd (drive_flat html_flavour true html_table simd ent c1 sk fuel inj chunks m [])) /\
  ~ In (SPanic 97) (snd (drive_flat html_flavour true html_table simd ent c1 sk fuel inj chunks m [])).
Proof.
  intros HI Hf HD. apply oks_no_fuel_panic.
  exact (drive_terminates html_flavour html_table simd ent c1 sk eq_refl html_clean html_rank 4 html_rank_le
           html_eat_clean_all html_start_ok_all html_progress_all 4 html_eof_ok_all html_eof_notag_all
           html_eof_depth_all fuel inj chunks m [] HI Hf HD (Forall_nil _)).
Qed.

(* ... and from a fresh tokenizer *)
Lemma html_drive_terminates fuel inj chunks s0 last :
  (html_fuel (length (concat chunks) + length chunks * (50 * length inj)) <= fuel)%nat -> (4 <= fuel)%nat ->
  ~ In (SPanic 98) (snd (drive_flat html_flavour true html_table simd ent c1 sk fuel inj chunks
                                    (mkmach (init_cfg s0 last false) [] [] 0%N) [])) /\
  ~ In (SPanic 97) (snd (drive_flat html_flavour true html_table simd ent c1 sk fuel inj chunks
                                    (mkmach (init_cfg s0 last false) [] [] 0%N) [])).
Proof.
  intros Hf HD. apply html_drive_terminates_from; [apply html_TI_init| |exact HD].
  rewrite html_unread_init. exact Hf.
Qed.
End Html.

(* non-vacuity (a test, by computation): 12 characters "<a b>&amp;</a>"-like input run with exactly the bound *)
Definition term_ex_input : list N := [60;97;32;98;62;38;97;109;112;59;13;10]%N.
Lemma term_ex : html_fuel (length term_ex_input) = 442%nat /\
  snd (drive_flat html_flavour true html_table (simd_first_guard, simd_tail_stop, simd_tail_newline)
                  (fun _ => None) (fun _ => None) {| sk_resp := []; sk_foreign := false |}
                  (html_fuel (length term_ex_input)) [] [term_ex_input]
                  (mkmach (init_cfg HData None false) [] [] 0%N) []) = [SSuspend; SSuspend].
Proof. vm_compute. split; reflexivity. Qed.
