(* C04: instantiation of TokIR/NoPanic.v on the REGENERATED html tokenizer table. *)
From Coq Require Import List NArith Bool Lia.
From HV Require Import TokIR.IR TokIR.Interp TokIR.Checks TokIR.Chunk TokIR.ChunkExec TokIR.LineInv TokIR.Termination TokIR.NoPanic.
From HV Require Import Gen.GenHtmlTok Inst.InstChunk Inst.InstLine Inst.InstTermination.
Import ListNotations.

Lemma html_state_ok_all : forall s, state_ok html_flavour html_table s = true.
Proof. intros s. destruct s; try (vm_compute; reflexivity); destruct k; try (vm_compute; reflexivity); destruct k; vm_compute; reflexivity. Qed.
Lemma html_noeof_all : forall s, noeofb (t_step html_table s) = true.
Proof. intros s. destruct s; try reflexivity; destruct k; try reflexivity; destruct k; reflexivity. Qed.

(* the state's parameters are ones the table has real arms for; the sink's raw-text switches are such states *)
Definition html_kind_ok (s : hstate) : bool := wk html_table s.
Definition html_sink_ok (sk : sinkcfg) : bool := sk_wk html_flavour html_table sk.
Definition html_sink_never_pauses (sk : sinkcfg) : bool := sk_quiet sk.
Definition HtmlK (m : mach hstate (list N)) : Prop := K html_flavour html_table m.

Lemma html_kind_ok_listed : forallb html_kind_ok html_states = true.
Proof. vm_compute. reflexivity. Qed.

Section Html.
Variable simd : list N * list N * list N.
Variable ent : list N -> option (N * N).
Variable c1 : N -> option N.
Variable sk : sinkcfg.
Hypothesis Hsk : html_sink_ok sk = true.

Notation driveH := (drive_flat html_flavour true html_table simd ent c1 sk).
Notation fresh s0 last := (mkmach (init_cfg s0 last false) [] [] 0%N).

Lemma html_total_from fuel inj chunks m :
  HtmlTI m -> HtmlK m ->
  (html_fuel (html_unread m + length (concat chunks) + length chunks * (50 * length inj)) <= fuel)%nat -> (4 <= fuel)%nat ->
  log_ok (snd (driveH fuel inj chunks m [])).
Proof.
  intros HI HK Hf HD.
  exact (drive_total_ok html_flavour html_table simd ent c1 sk eq_refl html_state_ok_all eq_refl eq_refl Hsk
           html_clean html_rank 4 4 html_rank_le html_eat_clean_all html_start_ok_all html_progress_all
           html_eof_ok_all html_eof_notag_all html_eof_depth_all html_noeof_all fuel inj chunks m [] HI HK Hf HD (Forall_nil _)).
Qed.

(* all input is consumed: feed() answering "done" leaves the queue empty; also for the driver's feed loop with script
   pauses and injected text *)
Lemma html_feed_consumes fuel m :
  HtmlTI m -> HtmlK m -> (html_fuel (html_unread m) <= fuel)%nat ->
  snd (feed [] fq_next fq_peek (@app N) (fun q => q) fq_run1 html_flavour true html_table simd ent c1 sk fuel m) = SSuspend ->
  mq (fst (feed [] fq_next fq_peek (@app N) (fun q => q) fq_run1 html_flavour true html_table simd ent c1 sk fuel m)) = [].
Proof.
  intros HI HK Hf.
  exact (feed_consumes html_flavour html_table simd ent c1 sk eq_refl html_state_ok_all eq_refl eq_refl Hsk
           html_clean html_rank 4 html_rank_le html_eat_clean_all html_start_ok_all html_progress_all
           html_noeof_all fuel m HI HK Hf).
Qed.
Lemma html_feed_loop_consumes fuel inj n m log :
  HtmlTI m -> HtmlK m -> (html_fuel (html_unread m + n * length inj) <= fuel)%nat ->
  let r := feed_loop [] fq_next fq_peek (@app N) (fun q => q) fq_run1 html_flavour true html_table simd ent c1 sk n fuel inj m log in
  hd (SPanic 0) (snd r) = SSuspend -> mq (fst r) = [].
Proof.
  intros HI HK Hf.
  exact (feed_loop_consumes html_flavour html_table simd ent c1 sk eq_refl html_state_ok_all eq_refl eq_refl Hsk
           html_clean html_rank 4 html_rank_le html_eat_clean_all html_start_ok_all html_progress_all
           html_noeof_all fuel inj n m log HI HK Hf).
Qed.

(* terminates and never panics: the answer of end() is "done" (or the assert site 4, see NoPanic.v), every feed entry is
   done / script pause / encoding indicator, or the driver model's pause limit 96 *)
Lemma html_tokenizer_total fuel inj chunks s0 last :
  html_kind_ok s0 = true ->
  (html_fuel (length (concat chunks) + length chunks * (50 * length inj)) <= fuel)%nat -> (4 <= fuel)%nat ->
  log_ok (snd (driveH fuel inj chunks (fresh s0 last) [])).
Proof.
  intros Hk Hf HD. apply html_total_from; [apply html_TI_init|apply K_init; exact Hk| |exact HD].
  rewrite html_unread_init. exact Hf.
Qed.

(* a sink that never answers Script / EncodingIndicator: every entry of the log is "done" *)
Lemma html_tokenizer_total_quiet fuel inj chunks s0 last :
  html_sink_never_pauses sk = true -> html_kind_ok s0 = true ->
  (html_fuel (length (concat chunks)) <= fuel)%nat -> (4 <= fuel)%nat ->
  Forall (eq SSuspend) (snd (driveH fuel inj chunks (fresh s0 last) [])).
Proof.
  intros Hq Hk Hf HD.
  apply (drive_quiet html_flavour html_table simd ent c1 sk eq_refl html_state_ok_all eq_refl eq_refl Hsk
           html_clean html_rank 4 4 html_rank_le html_eat_clean_all html_start_ok_all html_progress_all
           html_eof_ok_all html_eof_notag_all html_eof_depth_all html_noeof_all fuel inj Hq chunks (fresh s0 last) []);
    [apply html_TI_init|apply K_init; exact Hk| |exact HD|constructor].
  change (Tl html_table (fresh s0 last)) with (html_unread (fresh s0 last)). rewrite html_unread_init. exact Hf.
Qed.

(* ChunkExec's hypothesis: every feed call ended regularly *)
Lemma log_ok_all_done log : log_ok log -> ~ In (SPanic 96) log -> all_done (tl log).
Proof.
  intros (r & rest & -> & _ & H) N96. cbn [tl]. unfold all_done. rewrite Forall_forall in *. intros x Hx.
  destruct (H x Hx) as [F|F]; [exact F|]. exfalso. apply N96. right. rewrite <- F. exact Hx.
Qed.
Lemma quiet_all_done log : Forall (eq SSuspend) log -> all_done (tl log).
Proof.
  intros H. destruct log as [|r rest]; [constructor|]. cbn [tl]. inversion H; subst. unfold all_done.
  rewrite Forall_forall in *. intros x Hx. left. symmetry. auto.
Qed.

(* C03's driver theorem with the fuel bound instead of the regularity hypotheses *)
Lemma html_drive_chunking_independent_total fuel inj cs1 cs2 s0 last :
  html_kind_ok s0 = true ->
  all_nonempty cs1 -> all_nonempty cs2 -> cs1 <> [] -> cs2 <> [] -> concat cs1 = concat cs2 ->
  (html_fuel (length (concat cs1) + length cs1 * (50 * length inj)) <= fuel)%nat ->
  (html_fuel (length (concat cs2) + length cs2 * (50 * length inj)) <= fuel)%nat -> (4 <= fuel)%nat ->
  ~ In (SPanic 96) (snd (driveH fuel inj cs1 (fresh s0 last) [])) ->
  ~ In (SPanic 96) (snd (driveH fuel inj cs2 (fresh s0 last) [])) ->
  fst (driveH fuel inj cs1 (fresh s0 last) []) = fst (driveH fuel inj cs2 (fresh s0 last) []) /\
  hd SSuspend (snd (driveH fuel inj cs1 (fresh s0 last) [])) = hd SSuspend (snd (driveH fuel inj cs2 (fresh s0 last) [])).
Proof.
  intros Hk A1 A2 N1 N2 E F1 F2 HD P1 P2.
  apply (html_drive_chunking_independent simd ent c1 sk fuel inj cs1 cs2 (fresh s0 last) eq_refl A1 A2 N1 N2 E).
  - apply log_ok_all_done; [apply html_tokenizer_total; assumption|exact P1].
  - apply log_ok_all_done; [apply html_tokenizer_total; assumption|exact P2].
Qed.

Lemma html_drive_chunking_independent_quiet fuel inj cs1 cs2 s0 last :
  html_sink_never_pauses sk = true -> html_kind_ok s0 = true ->
  all_nonempty cs1 -> all_nonempty cs2 -> cs1 <> [] -> cs2 <> [] -> concat cs1 = concat cs2 ->
  (html_fuel (length (concat cs1)) <= fuel)%nat -> (4 <= fuel)%nat ->
  fst (driveH fuel inj cs1 (fresh s0 last) []) = fst (driveH fuel inj cs2 (fresh s0 last) []) /\
  hd SSuspend (snd (driveH fuel inj cs1 (fresh s0 last) [])) = hd SSuspend (snd (driveH fuel inj cs2 (fresh s0 last) [])).
Proof.
  intros Hq Hk A1 A2 N1 N2 E F1 HD.
  apply (html_drive_chunking_independent simd ent c1 sk fuel inj cs1 cs2 (fresh s0 last) eq_refl A1 A2 N1 N2 E).
  - apply quiet_all_done. apply html_tokenizer_total_quiet; assumption.
  - apply quiet_all_done. apply html_tokenizer_total_quiet; try assumption. rewrite <- E. exact F1.
Qed.
End Html.

(* non-vacuity (a test, by computation): a sink with a raw-text switch and a script pause; the log has no panic entry *)
Definition np_sk : sinkcfg := {| sk_resp := [([115]%N, RespRawData KRawtext); ([97]%N, RespScript)]; sk_foreign := false |}.
Definition np_input : list (list N) := [[60;115;62;120;60;47;115;62;38;35]; [52;56;59;60;47;97;62;60;33;45]]%N.
Lemma np_ex : html_sink_ok np_sk = true /\ html_kind_ok HData = true /\
  snd (drive_flat html_flavour true html_table (simd_first_guard, simd_tail_stop, simd_tail_newline)
                  (fun _ => None) (fun _ => None) np_sk (html_fuel 20) [] np_input
                  (mkmach (init_cfg HData None false) [] [] 0%N) []) = [SSuspend; SSuspend; SScript; SSuspend].
Proof. vm_compute. repeat split; reflexivity. Qed.
