(* C04, third clause: instantiation of TokIR/Consumed.v on the REGENERATED html and xml tokenizer tables. *)
From Coq Require Import List NArith Bool.
From HV Require Import TokIR.IR TokIR.Interp TokIR.Checks TokIR.NoPanic TokIR.Consumed TokIR.SingleEof.
From HV Require Import TokIR.LineInv Gen.GenHtmlTok Gen.GenXmlTok Inst.InstLine Inst.InstTermX Inst.InstNoPanic.
Import ListNotations.

Lemma xml_noeof_all : forall s, noeofb (t_step xml_table s) = true.
Proof. intros s. destruct s; try reflexivity; destruct k; try reflexivity; destruct k; reflexivity. Qed.

Lemma newest_is_eof_means {S : Type} (m : mach S (list N)) :
  newest_is_eof m <-> exists l k o, mout m = (TEof, l, k) :: o.
Proof.
  unfold newest_is_eof. destruct (mout m) as [|[[t l] k] o].
  - split; [intros []|intros (l & k & o & H); discriminate H].
  - destruct t; try (split; [intros []|intros (l' & k' & o' & H); discriminate H]).
    split; [intros _; exists l, k, o; reflexivity|intros _; exact I].
Qed.

Section Both.
Variable simd : list N * list N * list N.
Variable ent : list N -> option (N * N).
Variable c1 : N -> option N.
Variable sk : sinkcfg.

Theorem html_feed_done_queue_empty fuel m :
  let r := feed [] fq_next fq_peek (@app N) (fun q => q) fq_run1 html_flavour true html_table simd ent c1 sk fuel m in
  snd r = SSuspend -> mq (fst r) = [].
Proof. exact (feed_susp_q html_flavour html_table simd ent c1 sk html_noeof_all fuel m). Qed.
Theorem html_feed_loop_done_queue_empty fuel inj n m log :
  let r := feed_loop [] fq_next fq_peek (@app N) (fun q => q) fq_run1 html_flavour true html_table simd ent c1 sk n fuel inj m log in
  hd (SPanic 0) (snd r) = SSuspend -> mq (fst r) = [].
Proof. exact (feed_loop_susp_q html_flavour html_table simd ent c1 sk html_noeof_all fuel inj n m log). Qed.
Theorem xml_feed_done_queue_empty fuel m :
  let r := feed [] fq_next fq_peek (@app N) (fun q => q) fq_run1 xml_flavour true xml_table simd ent c1 sk fuel m in
  snd r = SSuspend -> mq (fst r) = [].
Proof. exact (feed_susp_q xml_flavour xml_table simd ent c1 sk xml_noeof_all fuel m). Qed.
Theorem xml_feed_loop_done_queue_empty fuel inj n m log :
  let r := feed_loop [] fq_next fq_peek (@app N) (fun q => q) fq_run1 xml_flavour true xml_table simd ent c1 sk n fuel inj m log in
  hd (SPanic 0) (snd r) = SSuspend -> mq (fst r) = [].
Proof. exact (feed_loop_susp_q xml_flavour xml_table simd ent c1 sk xml_noeof_all fuel inj n m log). Qed.
(* Tokenizer::end answering normally has delivered the EOF token, and nothing after it *)
Theorem html_end_delivers_eof_last fuel m :
  let r := tok_end [] fq_next fq_peek (@app N) (fun q => q) fq_run1 html_flavour true html_table simd ent c1 sk fuel m in
  snd r = SSuspend -> newest_is_eof (fst r).
Proof. exact (tok_end_last html_flavour html_table simd ent c1 sk html_eof_ok_all fuel m). Qed.
Theorem xml_end_delivers_eof_last fuel m :
  let r := tok_end [] fq_next fq_peek (@app N) (fun q => q) fq_run1 xml_flavour true xml_table simd ent c1 sk fuel m in
  snd r = SSuspend -> newest_is_eof (fst r).
Proof. exact (tok_end_last xml_flavour xml_table simd ent c1 sk xml_eof_ok_all fuel m). Qed.
(* exactly one EOF token: none before end(), one more after an end() that returns normally *)
Theorem html_feed_delivers_no_eof fuel m :
  eofs (fst (feed [] fq_next fq_peek (@app N) (fun q => q) fq_run1 html_flavour true html_table simd ent c1 sk fuel m)) = eofs m.
Proof. exact (feed_eofs html_flavour html_table simd ent c1 sk html_noeof_all fuel m). Qed.
Theorem xml_feed_delivers_no_eof fuel m :
  eofs (fst (feed [] fq_next fq_peek (@app N) (fun q => q) fq_run1 xml_flavour true xml_table simd ent c1 sk fuel m)) = eofs m.
Proof. exact (feed_eofs xml_flavour xml_table simd ent c1 sk xml_noeof_all fuel m). Qed.
Theorem html_end_delivers_one_eof fuel m :
  let r := tok_end [] fq_next fq_peek (@app N) (fun q => q) fq_run1 html_flavour true html_table simd ent c1 sk fuel m in
  snd r = SSuspend -> eofs (fst r) = Datatypes.S (eofs m).
Proof. exact (tok_end_eofs html_flavour html_table simd ent c1 sk html_noeof_all html_eof_ok_all fuel m). Qed.
Theorem xml_end_delivers_one_eof fuel m :
  let r := tok_end [] fq_next fq_peek (@app N) (fun q => q) fq_run1 xml_flavour true xml_table simd ent c1 sk fuel m in
  snd r = SSuspend -> eofs (fst r) = Datatypes.S (eofs m).
Proof. exact (tok_end_eofs xml_flavour xml_table simd ent c1 sk xml_noeof_all xml_eof_ok_all fuel m). Qed.
Theorem html_driver_exactly_one_eof fuel inj chunks s0 last :
  let r := drive_flat html_flavour true html_table simd ent c1 sk fuel inj chunks (mkmach (init_cfg s0 last false) [] [] 0%N) [] in
  hd (SPanic 0) (snd r) = SSuspend -> eofs (fst r) = 1%nat.
Proof. exact (drive_eofs html_flavour html_table simd ent c1 sk html_noeof_all html_eof_ok_all fuel inj chunks _ []). Qed.
Theorem xml_driver_exactly_one_eof fuel inj chunks s0 last :
  let r := drive_flat xml_flavour true xml_table simd ent c1 sk fuel inj chunks (mkmach (init_cfg s0 last false) [] [] 0%N) [] in
  hd (SPanic 0) (snd r) = SSuspend -> eofs (fst r) = 1%nat.
Proof. exact (drive_eofs xml_flavour xml_table simd ent c1 sk xml_noeof_all xml_eof_ok_all fuel inj chunks _ []). Qed.
End Both.

(* non-vacuity (a test, by computation): "x&am" in the Data state - the reference is still pending when the input runs
   out: feed answers Done, the queue is empty, the two characters read for the reference sit in its own buffer *)
Example consumed_ex :
  let r := feed [] fq_next fq_peek (@app N) (fun q => q) fq_run1 html_flavour true html_table
                (simd_first_guard, simd_tail_stop, simd_tail_newline) (fun _ => None) (fun _ => None)
                {| sk_resp := []; sk_foreign := false |} 100
                (mkmach (init_cfg HData None false) [120; 38; 97; 109]%N [] 0%N) in
  snd r = SSuspend /\ mq (fst r) = [] /\
  match cref (mc (fst r)) with Some cr => cr_buf cr = [97; 109]%N | None => False end.
Proof. vm_compute. repeat split. Qed.
