(* C04, third clause: instantiation of TokIR/Consumed.v on the REGENERATED html and xml tokenizer tables. *)
From Coq Require Import List NArith Bool.
From HV Require Import TokIR.IR TokIR.Interp TokIR.Checks TokIR.NoPanic TokIR.Consumed.
From HV Require Import Gen.GenHtmlTok Gen.GenXmlTok Inst.InstNoPanic.
Import ListNotations.

Lemma xml_noeof_all : forall s, noeofb (t_step xml_table s) = true.
Proof. intros s. destruct s; try reflexivity; destruct k; try reflexivity; destruct k; reflexivity. Qed.

Section Both.
Variable simd : list N * list N * list N.
Variable ent : list N -> option (N * N).
Variable c1 : N -> option N.
Variable sk : sinkcfg.

Theorem html_feed_done_queue_empty fuel m :
  let r := feed [] fq_next fq_peek (@app N) (fun q => q) fq_run1 html_flavour true html_table simd ent c1 sk fuel m in
  snd r = SSuspend -> mq (fst r) = [].
Proof. exact (feed_susp_q html_flavour html_table simd ent c1 sk html_noeof_all fuel m). Qed.
Theorem html_feed_loop_done_queue_empty fuel inj n m log :
  let r := feed_loop [] fq_next fq_peek (@app N) (fun q => q) fq_run1 html_flavour true html_table simd ent c1 sk n fuel inj m log in
  hd (SPanic 0) (snd r) = SSuspend -> mq (fst r) = [].
Proof. exact (feed_loop_susp_q html_flavour html_table simd ent c1 sk html_noeof_all fuel inj n m log). Qed.
Theorem xml_feed_done_queue_empty fuel m :
  let r := feed [] fq_next fq_peek (@app N) (fun q => q) fq_run1 xml_flavour true xml_table simd ent c1 sk fuel m in
  snd r = SSuspend -> mq (fst r) = [].
Proof. exact (feed_susp_q xml_flavour xml_table simd ent c1 sk xml_noeof_all fuel m). Qed.
Theorem xml_feed_loop_done_queue_empty fuel inj n m log :
  let r := feed_loop [] fq_next fq_peek (@app N) (fun q => q) fq_run1 xml_flavour true xml_table simd ent c1 sk n fuel inj m log in
  hd (SPanic 0) (snd r) = SSuspend -> mq (fst r) = [].
Proof. exact (feed_loop_susp_q xml_flavour xml_table simd ent c1 sk xml_noeof_all fuel inj n m log). Qed.
End Both.
