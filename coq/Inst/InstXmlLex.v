(* Instantiation of the lexing theorems of XmlNs/XLex*.v on the REGENERATED xml tokenizer table and
   on the entity table as compiled into web_atoms (Gen/GenEntities.v). *)
From Coq Require Import List NArith Bool.
From HV Require Import TokIR.IR TokIR.Interp Gen.GenXmlTok Gen.GenEntities XmlNs.XLexBase.
Import ListNotations.
Local Open Scope N_scope.

(* the nine arm bodies the theorems rely on are those of the regenerated table *)
Lemma xml_bodies_ok : xml_bodies xml_table.
Proof. constructor; reflexivity. Qed.

(* ... and the arm bodies of the comment, processing-instruction and doctype states (XLexMisc) *)
From HV Require Import XmlNs.XLexMisc.
Lemma xml_misc_bodies_ok : xml_misc_bodies xml_table.
Proof. constructor; reflexivity. Qed.

(* NAMED_ENTITIES.get as a lookup in the generated list *)
Definition gen_ent (k : list N) : option (N * N) :=
  match find (fun kv => str_eqb (fst kv) k) entities with Some kv => Some (snd kv) | None => None end.

(* no key of the table continues the name [n] by one more character *)
Definition is_ext (n k : list N) : bool :=
  match rev k with [] => false | _ :: r => str_eqb (rev r) n end.
Definition no_ext (n : list N) : bool := forallb (fun kv => negb (is_ext n (fst kv))) entities.

Lemma str_eqb_eq : forall a b, str_eqb a b = true -> a = b.
Proof.
  induction a as [|x a IH]; destruct b as [|y b]; simpl; intro H; try discriminate; auto.
  apply andb_true_iff in H. destruct H as [H1 H2]. apply N.eqb_eq in H1. apply IH in H2. congruence.
Qed.
Lemma str_eqb_refl : forall a, str_eqb a a = true.
Proof. induction a; simpl; auto. rewrite N.eqb_refl. auto. Qed.

Lemma no_ext_none : forall n, no_ext n = true -> forall x, gen_ent (n ++ [x]) = None.
Proof.
  intros n H x. unfold gen_ent.
  destruct (find (fun kv => str_eqb (fst kv) (n ++ [x])) entities) as [kv|] eqn:F; auto.
  apply find_some in F. destruct F as [I E]. destruct kv as [k0 v0]. simpl in E. apply str_eqb_eq in E. subst k0.
  unfold no_ext in H. rewrite forallb_forall in H. specialize (H _ I). simpl in H.
  unfold is_ext in H. rewrite rev_app_distr in H. simpl in H. rewrite rev_involutive, str_eqb_refl in H. discriminate.
Qed.

Theorem gen_ent_five : ent_five gen_ent.
Proof.
  constructor; vm_compute; reflexivity.
Qed.

(* ---------------------------------------------------------------- the theorems, instantiated *)
From HV Require Import XmlNs.XLex XmlNs.XLexTag XmlNs.XLexSer.
From HV Require XmlNs.XTreeModel XmlNs.XSerModel XmlNs.XSerSpec XmlNs.XRoundTrip.

Section I.
Variable simd : list N * list N * list N.
Variable c1 : N -> option N.
Variable sk : sinkcfg.

(* the reference interpreter on the regenerated table with the compiled entity table *)
Definition xml_steps := XLexBase.xsteps xml_table simd gen_ent c1 sk.
Definition xml_run := XLexBase.xrun xml_table simd gen_ent c1 sk.

Theorem xml_steps_run : forall m m', xml_steps m m' -> exists n, forall fuel, xml_run (n + fuel) m = xml_run fuel m'.
Proof. exact (xsteps_run xml_table simd gen_ent c1 sk). Qed.

Theorem xml_text_lex : forall s b cu tk tn ta an av rest o k, XSerSpec.no_nul s = true ->
  exists o' k',
    xml_steps (mkM b XData false cu false None tk tn ta an av (XSerModel.escape false s ++ 60 :: rest) o k)
              (mkM b XTagState false 60 false None tk tn ta an av rest o' k') /\
    otoks o' = rev (exp_text s) ++ otoks o.
Proof. exact (text_then_tag xml_table xml_bodies_ok simd gen_ent c1 sk gen_ent_five). Qed.

Theorem xml_attr_tag_lex : forall s b cu tk tn ta rest o k, XSerSpec.no_nul s = true ->
  exists b' o' k',
    xml_steps (mkM b XData false cu false None tk tn ta [] []
                   ([60; 97; 32; 98; 61; 34] ++ XSerModel.escape true s ++ [34; 62] ++ rest) o k)
              (mkM b' XData false 62 false None TStartTag [] [] [] [] rest o' k') /\
    otoks o' = TTag TStartTag [97] false [([98], s)] false :: rev (err_toks s) ++ otoks o.
Proof. exact (attr_tag_lex xml_table xml_bodies_ok simd gen_ent c1 sk gen_ent_five). Qed.

Theorem xml_start_item_lex : forall name decls attrs b cu tk tn ta rest o k,
  tag_name_ok (XSerModel.qual name) = true -> forallb raw_ok (XRoundTrip.item_raws decls attrs) = true ->
  exists tas o' k',
    xml_steps (mkM b XData false cu false None tk tn ta [] []
                   (XSerModel.render_item (XSerModel.IStart name decls attrs) ++ rest) o k)
              (mkM b XData false 62 false None TStartTag [] [] [] [] rest o' k') /\
    otoks o' = TTag TStartTag (XSerModel.qual name) false tas false
               :: rev (tag_errs_of (XSerModel.qual name) (XRoundTrip.item_raws decls attrs)) ++ otoks o /\
    XTreeModel.tokenize (XSerModel.item_rtoken (XSerModel.IStart name decls attrs)) =
    XTreeModel.TTag XTreeModel.StartTag (XTreeModel.process_qname (XSerModel.qual name)) (map conv_attr tas)
                    (XSerModel.qual name, XRoundTrip.item_raws decls attrs).
Proof. exact (start_item_lex xml_table xml_bodies_ok simd gen_ent c1 sk gen_ent_five). Qed.

Theorem xml_end_item_lex : sk_resp sk = [] -> forall name b cu tk tn ta rest o k,
  etag_name_ok (XSerModel.qual name) = true ->
  exists o' k',
    xml_steps (mkM b XData false cu false None tk tn ta [] []
                   (XSerModel.render_item (XSerModel.IEnd name) ++ rest) o k)
              (mkM b XData false 62 false None TEndTag [] [] [] [] rest o' k') /\
    otoks o' = TTag TEndTag (XSerModel.qual name) false [] false :: rev (bad_errs (XSerModel.qual name)) ++ otoks o /\
    XTreeModel.tokenize (XSerModel.item_rtoken (XSerModel.IEnd name)) =
    XTreeModel.TTag XTreeModel.EndTag (XTreeModel.process_qname (XSerModel.qual name)) [] (XSerModel.qual name, []).
Proof. intro NS. exact (end_item_lex xml_table xml_bodies_ok simd gen_ent c1 sk NS). Qed.

(* ---- comments, processing instructions, the doctype; whole documents (XLexMisc, XLexDoc, XLexRound) *)
Theorem xml_comment_lex : forall s b cu tk tn ta an av rest o k,
  bg_clean b -> comment_ok s = true -> exists o' k',
    xml_steps (mkM b XData false cu false None tk tn ta an av ([60; 33; 45; 45] ++ s ++ [45; 45; 62] ++ rest) o k)
              (mkM b XData false 62 false None tk tn ta an av rest o' k') /\
    otoks o' = rev (comment_toks s) ++ otoks o.
Proof. exact (comment_lex xml_table xml_bodies_ok xml_misc_bodies_ok simd gen_ent c1 sk). Qed.

Theorem xml_pi_lex : forall t d b cu tk tn ta an av rest o k,
  bg_clean b -> pi_target_ok t = true -> pi_data_ok d = true -> exists o' k',
    xml_steps (mkM b XData false cu false None tk tn ta an av ([60; 63] ++ t ++ [32] ++ d ++ [63; 62] ++ rest) o k)
              (mkM b XData false 62 false None tk tn ta an av rest o' k') /\
    otoks o' = rev (pi_toks t d) ++ otoks o.
Proof. exact (pi_lex xml_table xml_bodies_ok xml_misc_bodies_ok simd gen_ent c1 sk). Qed.

Theorem xml_doctype_lex : forall n b cu tk tn ta an av rest o k,
  bg_clean b -> doctype_name_ok n = true -> exists o' k',
    xml_steps (mkM b XData false cu false None tk tn ta an av
                   ([60; 33; 68; 79; 67; 84; 89; 80; 69; 32] ++ n ++ [62] ++ rest) o k)
              (mkM b XData false 62 false None tk tn ta an av rest o' k') /\
    otoks o' = rev (doctype_toks n) ++ otoks o.
Proof. exact (doctype_lex xml_table xml_bodies_ok xml_misc_bodies_ok simd gen_ent c1 sk). Qed.

End I.

From HV Require Import XmlNs.XLexDoc XmlNs.XLexTree XmlNs.XLexHyps XmlNs.XLexRound.

Section D.
Variable simd : list N * list N * list N.
Variable c1 : N -> option N.
Variable sk : sinkcfg.
Hypothesis NoScript : sk_resp sk = [].

(* the driver of the reference semantics on the regenerated table: one chunk, then the end of the input *)
Definition xml_drive := XLexDoc.xdrive xml_table simd gen_ent c1 sk.

Theorem xml_doc_tokens : forall kids bom,
  XRoundTrip.rt_hyps kids = true -> lex_hyps kids = true ->
  exists n, forall f, exists m',
    xml_drive (n + S f)%nat [] [XSerModel.serialize kids] (init_m bom) [] = (m', [SSuspend; SSuspend]) /\
    rev (otoks (mout m')) = flat_map lex_item (XSerModel.ser_doc kids) ++ [TEof].
Proof. exact (doc_tokens xml_table xml_bodies_ok xml_misc_bodies_ok simd gen_ent c1 sk gen_ent_five NoScript). Qed.

Theorem xml_roundtrip_through_tokenizer : forall kids bom,
  XRoundTrip.rt_hyps kids = true -> lex_hyps kids = true ->
  exists n, forall f, exists m',
    xml_drive (n + S f)%nat [] [XSerModel.serialize kids] (init_m bom) [] = (m', [SSuspend; SSuspend]) /\
    map XTreeModel.erase (XTreeModel.parse_tokens (conv_toks (rev (otoks (mout m'))))) =
    map XRoundTrip.strip_ids kids.
Proof. exact (roundtrip_through_tokenizer xml_table xml_bodies_ok xml_misc_bodies_ok simd gen_ent c1 sk gen_ent_five NoScript). Qed.
End D.
