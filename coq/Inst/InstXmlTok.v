(* Instantiation of the reflective checks on the REGENERATED tokenizer tables (vm_compute).
   Each lemma breaks deterministically when the corresponding cell of the Rust source changes. *)
From Coq Require Import List NArith Bool.
From HV Require Import TokIR.IR TokIR.Interp TokIR.Checks Gen.GenXmlTok.
Import ListNotations.

Lemma xml_sets_adequate : sets_adequate xstate_beq false xml_table = []. Proof. vm_compute. reflexivity. Qed.
Lemma xml_raw_discard_safe : raw_discard_safe xml_table = []. Proof. vm_compute. reflexivity. Qed.
Lemma xml_eof_rank_ok : eof_rank_ok xml_table = []. Proof. vm_compute. reflexivity. Qed.
Lemma xml_charref_states_ok : charref_states_ok xml_flavour xml_table = []. Proof. vm_compute. reflexivity. Qed.
Lemma xml_reads_first : reads_first xml_table = []. Proof. vm_compute. reflexivity. Qed.
Lemma xml_no_fall : no_fall xml_table = []. Proof. vm_compute. reflexivity. Qed.
