(* C04: instantiation of TokIR/NoPanicX.v on the REGENERATED xml tokenizer table. *)
From Coq Require Import List NArith Bool Lia.
From HV Require Import TokIR.IR TokIR.Interp TokIR.Checks TokIR.LineInv TokIR.Termination TokIR.NoPanic Gen.GenXmlTok Inst.InstTermX.
From HV Require TokIR.TermX TokIR.NoPanicX.
Import ListNotations.

Lemma xml_state_ok_all : forall s, state_ok xml_flavour xml_table s = true.
Proof. intros s. destruct s; try (vm_compute; reflexivity); destruct k; vm_compute; reflexivity. Qed.
Definition xml_kind_ok (s : xstate) : bool := wk xml_table s.
Lemma xml_kind_ok_listed : forallb xml_kind_ok xml_states = true.
Proof. vm_compute. reflexivity. Qed.

Section Xml.
Variable simd : list N * list N * list N.
Variable ent : list N -> option (N * N).
Variable c1 : N -> option N.
Variable sk : sinkcfg.
Notation driveX := (drive_flat xml_flavour true xml_table simd ent c1 sk).
Notation fresh s0 last := (mkmach (init_cfg s0 last false) [] [] 0%N).

(* terminates and never panics: end() answers "done"; every feed entry is done / script pause / encoding indicator, or the
   driver model's limit of 50 pauses per chunk *)
Lemma xml_tokenizer_total fuel inj chunks s0 last :
  xml_kind_ok s0 = true ->
  (xml_fuel (length (concat chunks) + length chunks * (50 * length inj)) <= fuel)%nat -> (4 <= fuel)%nat ->
  NoPanicX.log_okx (snd (driveX fuel inj chunks (fresh s0 last) [])).
Proof.
  intros Hk Hf HD.
  apply (NoPanicX.drive_total_ok xml_flavour xml_table simd ent c1 sk eq_refl xml_state_ok_all xml_clean xml_rank 4 4
           xml_rank_le xml_eat_clean_all xml_start_ok_all xml_progress_all xml_eof_ok_all xml_eof_depth_all
           fuel inj chunks (fresh s0 last) []); [apply xml_TI_init|apply K_init; exact Hk| |exact HD|constructor].
  unfold drive_total. change (Tl xml_table (fresh s0 last)) with (xml_unread (fresh s0 last)).
  rewrite xml_unread_init. exact Hf.
Qed.

Lemma xml_tokenizer_total_quiet fuel inj chunks s0 last :
  sk_quiet sk = true -> xml_kind_ok s0 = true ->
  (xml_fuel (length (concat chunks)) <= fuel)%nat -> (4 <= fuel)%nat ->
  Forall (eq SSuspend) (snd (driveX fuel inj chunks (fresh s0 last) [])).
Proof.
  intros Hq Hk Hf HD.
  apply (NoPanicX.drive_quiet xml_flavour xml_table simd ent c1 sk eq_refl xml_state_ok_all xml_clean xml_rank 4 4
           xml_rank_le xml_eat_clean_all xml_start_ok_all xml_progress_all xml_eof_ok_all xml_eof_depth_all
           fuel inj Hq chunks (fresh s0 last) []); [apply xml_TI_init|apply K_init; exact Hk| |exact HD|constructor].
  change (Tl xml_table (fresh s0 last)) with (xml_unread (fresh s0 last)). rewrite xml_unread_init. exact Hf.
Qed.
End Xml.

(* non-vacuity (a test, by computation): a sink that pauses on </a> *)
Definition xnp_sk : sinkcfg := {| sk_resp := [([97]%N, RespScript)]; sk_foreign := false |}.
Definition xnp_input : list (list N) := [[60;97;62;38;35;52;56;59;60;47;97;62]; [60;33;45;45;120]]%N.
Lemma xnp_ex : xml_kind_ok XData = true /\
  snd (drive_flat xml_flavour true xml_table ([], [], []) (fun _ => None) (fun _ => None) xnp_sk (xml_fuel 17) [] xnp_input
                  (mkmach (init_cfg XData None false) [] [] 0%N) []) = [SSuspend; SSuspend; SSuspend; SScript].
Proof. vm_compute. split; reflexivity. Qed.
