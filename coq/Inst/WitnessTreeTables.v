(* Prints, per table, the elements on which the REGENERATED table and the list of the standard (with the named
   exceptions of TreeTables/Deviations.v applied) differ.  Always compiles (definitions + Eval only);
   lib/treetables.py reads the output to name the failing table and cells when Inst/InstTreeTables.v breaks.
   Output format per table:  ("name", (only in html5ever, only in the standard)).
   "FAILING ..." groups: differences that are NOT covered by a named exception (Inst/InstTreeTables.v is broken);
   "STALE ..." groups: a named exception is no longer exactly present (Inst/FindingsTreeTables.v is broken,
   e.g. because html5ever repaired the deviation). *)
From Coq Require Import String List Bool Arith.
From HV Require Import TreeTables.Types TreeTables.TableChecks TreeTables.WhatwgLists TreeTables.WhatwgDispatch
  TreeTables.Deviations TreeTables.Quirks Gen.GenTagSets Gen.GenQuirks Gen.GenAdjust Gen.GenDispatch.
Import ListNotations.
Local Open Scope string_scope.
Local Open Scope list_scope.

Section W.
Context {A : Type} (e : A -> A -> bool).
(* expected contents of the implementation's table = (standard \ missing) + extra *)
Definition expected (std extra missing : list A) : list A := diff e std missing ++ extra.
Definition wit (gen std extra missing : list A) : list A * list A :=
  (diff e gen (expected std extra missing), diff e (expected std extra missing) gen).
(* differences outside the exceptions *)
Definition rwit (gen std extra missing : list A) : list A * list A :=
  (diff e (diff e gen std) (extra ++ missing), diff e (diff e std gen) (extra ++ missing)).
Definition both (gen std extra missing : list A) := (rwit gen std extra missing, wit gen std extra missing).
(* ordered comparison: when the two lists have the same elements in a different order, both lists are printed *)
Definition owit (gen std : list A) : list A * list A :=
  if list_eqb e gen std then ([], [])
  else match wit gen std [] [] with ([], []) => (gen, std) | w => w end.
End W.
Definition ew := both ename_eqb.
Definition sw := both String.eqb.

Definition W_tag_sets := [
  ("special_tag_is_whatwg_except", ew ts_special_tag whatwg_special special_extra special_missing);
  ("default_scope_is_whatwg_except", ew ts_default_scope whatwg_scope [] scope_missing);
  ("list_item_scope_is_whatwg_except", ew ts_list_item_scope whatwg_list_item_scope [] scope_missing);
  ("button_scope_is_whatwg_except", ew ts_button_scope whatwg_button_scope [] scope_missing);
  ("html_default_scope_is_whatwg", ew ts_html_default_scope (html whatwg_scope_html) [] []);
  ("table_scope_is_whatwg", ew ts_table_scope whatwg_table_scope [] []);
  ("table_body_context_is_whatwg", ew ts_table_body_context whatwg_table_body_context [] []);
  ("table_row_context_is_whatwg", ew ts_table_row_context whatwg_table_row_context [] []);
  ("td_th_is_whatwg", ew ts_td_th whatwg_cells [] []);
  ("cursory_implied_end_is_whatwg", ew ts_cursory_implied_end whatwg_implied_end [] []);
  ("thorough_implied_end_is_whatwg", ew ts_thorough_implied_end whatwg_implied_end_thoroughly [] []);
  ("heading_tag_is_whatwg", ew ts_heading_tag whatwg_headings [] []);
  ("mathml_text_integration_point_is_whatwg", ew ts_mathml_text_integration_point whatwg_mathml_text_integration_points [] []);
  ("svg_html_integration_point_is_whatwg", ew ts_svg_html_integration_point whatwg_svg_html_integration_points [] []);
  ("foster_target_is_whatwg", ew ts_appropriate_place_for_insertion__foster_target whatwg_foster_targets [] []);
  ("body_end_ok_is_whatwg_except", ew ts_check_body_end__body_end_ok whatwg_body_end_ok [] body_end_ok_missing);
  ("close_p_implied_is_whatwg", ew ts_close_p_element__implied whatwg_implied_end_except_p [] []);
  ("table_text_current_is_whatwg_except", ew ts_process_chars_in_table__table_outer whatwg_table_text_current [] table_text_current_missing);
  ("form_associatable_is_whatwg", ew ts_insert_element__form_associatable whatwg_form_associated [] []);
  ("listed_is_whatwg", ew ts_insert_element__listed whatwg_listed [] []);
  ("close_list_is_whatwg", ew ts_step_InBody__close_list whatwg_li_close [] []);
  ("close_defn_is_whatwg", ew ts_step_InBody__close_defn whatwg_dd_dt_close [] []);
  ("extra_special_is_whatwg_except", ew ts_step_InBody__extra_special whatwg_special_except_address_div_p special_extra special_missing);
  ("table_body_sections_is_whatwg_except", ew ts_step_InTableBody__table_outer whatwg_table_body_sections table_body_sections_extra table_body_sections_missing);
  ("foreign_font_attrs_is_whatwg", ew foreign_font_attrs whatwg_breakout_font_attrs [] [])].

Definition W_string_sets := [
  ("quirky_public_prefixes_is_whatwg_except", sw quirky_public_prefixes (map lower whatwg_quirks_public_prefixes) [] quirks_prefix_missing);
  ("quirky_public_matches_is_whatwg", sw quirky_public_matches (map lower whatwg_quirks_public_ids) [] []);
  ("quirky_system_matches_is_whatwg", sw quirky_system_matches (map lower whatwg_quirks_system_ids) [] []);
  ("limited_quirky_public_prefixes_is_whatwg", sw limited_quirky_public_prefixes (map lower whatwg_limited_quirks_public_prefixes) [] []);
  ("html4_public_prefixes_is_whatwg", sw html4_public_prefixes (map lower whatwg_html401_public_prefixes) [] []);
  ("foreign_breakout_start_is_whatwg", sw foreign_breakout_start whatwg_breakout_start [] []);
  ("foreign_breakout_end_is_whatwg", sw foreign_breakout_end whatwg_breakout_end [] []);
  ("foreign_breakout_stop_is_whatwg_except", sw foreign_breakout_stop whatwg_breakout_stop [] breakout_stop_missing);
  ("is_foreign_mathml_tip_start_exceptions_is_whatwg", sw is_foreign_mathml_tip_start_exceptions whatwg_mathml_tip_start_exceptions [] []);
  ("is_foreign_annotation_xml_is_whatwg", sw is_foreign_annotation_xml_start_html whatwg_annotation_xml_start_html [] []);
  ("annotation_xml_integration_point_is_whatwg", sw annotation_xml_encodings whatwg_annotation_xml_encodings [] []);
  ("ser_void_elements_is_whatwg", sw ser_void_elements whatwg_serializes_as_void [] []);
  ("ser_void_elements_is_whatwg_void_plus_obsolete", sw ser_void_elements whatwg_void_elements whatwg_serializes_as_void_only []);
  ("legacy_select_modes_absent", ((filter (fun m => smem m insertion_modes) legacy_insertion_modes_extra, []), ([], [])));
  ("ser_rawtext_parents_is_whatwg", sw ser_rawtext_parents whatwg_ser_rawtext_parents [] []);
  ("ser_rawtext_parents_if_scripting_is_whatwg", sw ser_rawtext_parents_if_scripting whatwg_ser_rawtext_parents_if_scripting [] []);
  ("insertion_modes_is_whatwg", sw insertion_modes whatwg_insertion_modes [] []);
  ("doctype_processed_in_is_whatwg", sw doctype_processed_in whatwg_doctype_processed_in [] []);
  ("formatting_start_is_whatwg",
   sw (start_names (arm_containing arms_InBody (AStart "a")) ++ start_names (arm_containing arms_InBody (AStart "b"))
       ++ start_names (arm_containing arms_InBody (AStart "nobr"))) whatwg_formatting [] []);
  ("formatting_end_is_whatwg", sw (end_names (arm_containing arms_InBody (AEnd "a"))) whatwg_formatting [] [])].

Definition W_string_maps : list (string * (list (string * string) * list (string * string))) := [
  ("svg_tag_adjust_is_whatwg", wit (pair_eqb String.eqb String.eqb) svg_tag_adjust whatwg_svg_tag_adjust [] [])].
Definition sqw := both (pair_eqb String.eqb qname_eqb).
Definition W_qname_maps := [
  ("svg_attr_adjust_is_whatwg", sqw svg_attr_adjust whatwg_svg_attr_adjust [] []);
  ("mathml_attr_adjust_is_whatwg", sqw mathml_attr_adjust whatwg_mathml_attr_adjust [] []);
  ("foreign_attr_adjust_is_whatwg_except", sqw foreign_attr_adjust whatwg_foreign_attr_adjust foreign_attr_extra foreign_attr_missing)].
Definition W_tokstate : list (string * (list (string * tsel) * list (string * tsel))) := [
  ("tokstate_for_context_is_whatwg", wit (pair_eqb String.eqb tsel_eqb) tokstate_for_context whatwg_tokstate_for_context [] [])].
Definition reset_arm_eqb : list string * string * string -> list string * string * string -> bool :=
  pair_eqb (pair_eqb (fun a b => set_eqb String.eqb a b) String.eqb) String.eqb.
Definition W_reset := [("reset_mode_arms_is_whatwg", owit reset_arm_eqb reset_mode_arms whatwg_reset_mode_steps)].
Definition W_quirks_arms :=
  [("quirks_arms_are_whatwg_modulo_srcdoc",
    owit qarm_eqb (filter not_srcdoc quirks_arms) (filter not_srcdoc whatwg_quirks_decision))].
Definition W_stale_srcdoc :=
  [("quirks_arms_srcdoc_position",
    if list_eqb Bool.eqb (map (fun a => qcond_eqb (fst a) QcSrcdoc) (firstn 3 quirks_arms)) [false; false; true]
    then ([], []) else (quirks_arms, whatwg_quirks_decision))].
Definition doctype_triple_eqb := pair_eqb (pair_eqb (opt_eqb String.eqb) (opt_eqb String.eqb)) (opt_eqb String.eqb).
Definition W_doctype_ok :=
  [("doctype_ok_triples_is_whatwg_except", both doctype_triple_eqb doctype_ok_triples whatwg_doctype_ok_triples doctype_ok_extra [])].

Fixpoint assoc_cases (d : list (string * list scase)) (m : string) : list scase :=
  match d with [] => [] | (n, a) :: t => if String.eqb n m then a else assoc_cases t m end.
Fixpoint assoc_renum (d : list (string * list (nat * nat))) (m : string) : list (nat * nat) :=
  match d with [] => [] | (n, a) :: t => if String.eqb n m then a else assoc_renum t m end.
(* per mode: ((arm, case) pairs observed but not documented, documented but not observed, keys nobody handles) *)
Definition W_census := map (fun m => (String.append "census_" m,
  dispatch_witness (assoc_arms dispatch m) (assoc_cases whatwg_cases m) (assoc_renum whatwg_renumbering m))) (map fst dispatch).
Definition W_split := filter (fun m => negb (split_discipline (assoc_arms dispatch m) (assoc_nats split_arms m))) (map fst dispatch).

Definition nonempty2 {A B} (x : string * (list A * list B)) : bool :=
  match snd x with ([], []) => false | _ => true end.
Definition nonempty3 {A B C} (x : string * (list A * list B * list C)) : bool :=
  match snd x with ([], [], []) => false | _ => true end.
Definition robust {A} (l : list (string * ((list A * list A) * (list A * list A)))) :=
  filter nonempty2 (map (fun x => (fst x, fst (snd x))) l).
Definition stale {A} (l : list (string * ((list A * list A) * (list A * list A)))) :=
  filter nonempty2 (map (fun x => (fst x, snd (snd x))) l).

(* only the failing entries are printed *)
Eval vm_compute in ("FAILING tag sets", robust W_tag_sets).
Eval vm_compute in ("FAILING string sets", robust W_string_sets).
Eval vm_compute in ("FAILING string maps", filter nonempty2 W_string_maps).
Eval vm_compute in ("FAILING qname maps", robust W_qname_maps).
Eval vm_compute in ("FAILING tokstate", filter nonempty2 W_tokstate).
Eval vm_compute in ("FAILING reset", filter nonempty2 W_reset).
Eval vm_compute in ("FAILING quirks arms", filter nonempty2 W_quirks_arms).
Eval vm_compute in ("FAILING doctype ok", robust W_doctype_ok).
Eval vm_compute in ("FAILING census", filter nonempty3 W_census).
Eval vm_compute in ("FAILING split discipline", W_split).
Eval vm_compute in ("STALE tag sets", stale W_tag_sets).
Eval vm_compute in ("STALE string sets", stale W_string_sets).
Eval vm_compute in ("STALE qname maps", stale W_qname_maps).
Eval vm_compute in ("STALE doctype ok", stale W_doctype_ok).
Eval vm_compute in ("STALE srcdoc position", filter nonempty2 W_stale_srcdoc).
Eval vm_compute in ("SIZES", (length ts_special_tag, length quirky_public_prefixes, length svg_tag_adjust, length svg_attr_adjust,
                              length dispatch, length (flat_map snd dispatch))).
