(* C01 in the REAL default configuration: the WHATWG refinement theorem of Inst/InstWhatwgRefine.v (reference
   semantics) transported to exact_errors = false / chunked queue / bulk reads / SIMD scan through the default-mode
   simulation.  The observation [flat_i] of C01 (errors dropped, character tokens compared character by character)
   factors through the observation [obs] of the simulation. *)
From Coq Require Import List NArith Bool Lia Arith.
From HV Require Import TokIR.IR TokIR.Interp TokIR.Checks TokIR.Chunk TokIR.QueueSim TokIR.BulkSim TokIR.BulkTerm.
From HV Require Import TokIR.Termination Gen.GenHtmlTok TokIR.WhatwgSpec TokIR.WhatwgRefine HtmlSer.SerLex.
From HV Require Import CharRef.CrInterpInst Inst.InstBulk Inst.InstTermination Inst.InstBulkTerm Inst.InstWhatwg Inst.InstWhatwgRefine.
Import ListNotations.

Lemma flat_i_ocons x o : flat_i (ocons x o) = flat_i (x :: o).
Proof.
  destruct x as [[t l] k]. destruct t; try reflexivity.
  unfold ocons. destruct o as [|[[y ly] ky] o']; [reflexivity|]. destruct y; try reflexivity.
  cbn [flat_i fst atoms_of]. rewrite map_app, app_assoc. reflexivity.
Qed.
Lemma flat_i_obs o : flat_i (obs o) = flat_i o.
Proof.
  induction o as [|x o IH]; [reflexivity|]. rewrite obs_cons, flat_i_ocons.
  cbn [flat_i]. rewrite IH. reflexivity.
Qed.
Lemma obs_eq_flat_i a b : obs a = obs b -> flat_i a = flat_i b.
Proof. intros E. rewrite <- (flat_i_obs a), <- (flat_i_obs b), E. reflexivity. Qed.

Local Open Scope N_scope.

(* the default-mode run of a text delivers - up to the C01 observation - the tokens of the WHATWG tokenizer, whenever the
   reference run (any fuel above fuel0; it terminates by C04) only visits covered states *)
Theorem html_default_mode_refines_whatwg_partial :
  forall ent c1 sk env, e_script env = None ->
  (forall n, lookup_resp n (sk_resp sk) <> Some RespScript) -> (forall n, lookup_resp n (sk_resp sk) <> Some RespEncoding) ->
  (forall n, lookup_sw n (e_switches env) = sw_of_resp (lookup_resp n (sk_resp sk))) ->
  forall s0 w last text fuel,
  covered s0 = true -> wstate_of_start s0 = Some w ->
  (html_fuel (length text) <= fuel)%nat -> (4 <= fuel)%nat ->
  let fast := drive_chunked html_flavour false html_table html_simd ent c1 sk fuel [] [text]
                (mkmach (init_cfg s0 last false) [] [] 0) [] in
  let m1 := RecordUpdate.RecordSet.set mq (fun q => q ++ text) (mkmach (init_cfg s0 last false) ([] : list N) [] 0) in
  (forall n m', iter html_flavour html_table html_simd ent c1 sk n m1 = Some m' -> cref (mc m') = None /\ covered (st (mc m')) = true) ->
  exists fuel0, forall fuelr m2 m3, (fuel0 <= fuelr)%nat ->
  feed [] fq_next fq_peek (@app N) (fun q => q) fq_run1 html_flavour true html_table html_simd ent c1 sk fuelr m1 = (m2, SSuspend) ->
  tok_end [] fq_next fq_peek (@app N) (fun q => q) fq_run1 html_flavour true html_table html_simd ent c1 sk fuelr m2 = (m3, SSuspend) ->
  snd fast = [SSuspend; SSuspend] /\
  exists fs cfF, wrun fs env (winit w last) (preprocess text) = Some cfF /\ flat_i (mout (fst fast)) = flat_s (wout cfF).
Proof.
  intros ent c1 sk env Hscript Hquiet Hnoenc Henv s0 w last text fuel Hcov Hw Hf HD fast m1 Hvis.
  assert (Hf' : (html_fuel (length text + 50 * length (@nil N)) <= fuel)%nat)
    by (cbn [length]; replace (length text + 50 * 0)%nat with (length text) by lia; exact Hf).
  destruct (html_default_mode_is_reference_up_to_obs_total ent c1 sk [] s0 last text fuel Hf' HD) as (fuel0 & A).
  exists fuel0. intros fuelr m2 m3 Hge Hfeed Hend.
  destruct (A fuelr Hge) as (Eo & Es).
  destruct (html_refines_whatwg_partial html_simd ent c1 sk env Hscript Hquiet Hnoenc Henv s0 w last text fuelr m2 m3 Hcov Hw Hvis Hfeed Hend)
    as (Ed & fs & cfF & Hrun & Hflat).
  rewrite Ed in Eo, Es. cbn [fst snd] in Eo, Es.
  split; [exact Es|]. exists fs, cfF. split; [exact Hrun|].
  rewrite <- Hflat. apply obs_eq_flat_i. exact Eo.
Qed.

(* non-vacuity (a test, by computation): the script-data text of Inst/InstWhatwgRefine.v run in default mode, fuel exactly
   html_fuel |text|: the observation equals the specification's 54 items *)
Example default_refine_example :
  let fast := drive_chunked html_flavour false html_table html_simd html_ent html_c1 nosink (html_fuel (length rex_text)) [] [rex_text]
                (mkmach (init_cfg (HRawData KScriptData) rex_last false) [] [] 0) [] in
  snd fast = [SSuspend; SSuspend] /\
  exists cfF, wrun 200 rex_env (winit WScriptData rex_last) (preprocess rex_text) = Some cfF /\
              flat_i (mout (fst fast)) = flat_s (wout cfF) /\ List.length (flat_s (wout cfF)) = 54%nat.
Proof.
  split; [vm_compute; reflexivity|]. eexists. split; [vm_compute; reflexivity|]. split; vm_compute; reflexivity.
Qed.
