(* C02, table part: the deviations of TreeTables/Deviations.v are PRESENT in the regenerated tables, exactly as listed
   (no more, no less), and the two quirks-mode defect classes are real.  This file is expected to break when
   html5ever repairs one of the deviations (the robust statements are in Inst/InstTreeTables.v); the check then
   reports which finding no longer reproduces. *)
From Coq Require Import String List Bool Arith.
From HV Require Import TreeTables.Types TreeTables.TableChecks TreeTables.WhatwgLists TreeTables.WhatwgDispatch
  TreeTables.Deviations TreeTables.Quirks Gen.GenTagSets Gen.GenQuirks Gen.GenAdjust Gen.GenDispatch Inst.InstTreeTables.
Import ListNotations.
Local Open Scope string_scope.
Local Open Scope list_scope.

Lemma special_tag_deviation_exact : forall n,
  emem n ts_special_tag = up_to emem whatwg_special special_extra special_missing n.
Proof. by_eexc. Qed.
Lemma default_scope_deviation_exact : forall n,
  emem n ts_default_scope = up_to emem whatwg_scope [] scope_missing n.
Proof. by_eexc. Qed.
Lemma list_item_scope_deviation_exact : forall n,
  emem n ts_list_item_scope = up_to emem whatwg_list_item_scope [] scope_missing n.
Proof. by_eexc. Qed.
Lemma button_scope_deviation_exact : forall n,
  emem n ts_button_scope = up_to emem whatwg_button_scope [] scope_missing n.
Proof. by_eexc. Qed.
Lemma body_end_ok_deviation_exact : forall n,
  emem n ts_check_body_end__body_end_ok = up_to emem whatwg_body_end_ok [] body_end_ok_missing n.
Proof. by_eexc. Qed.
Lemma table_text_current_deviation_exact : forall n,
  emem n ts_process_chars_in_table__table_outer = up_to emem whatwg_table_text_current [] table_text_current_missing n.
Proof. by_eexc. Qed.
Lemma extra_special_deviation_exact : forall n,
  emem n ts_step_InBody__extra_special = up_to emem whatwg_special_except_address_div_p special_extra special_missing n.
Proof. by_eexc. Qed.
Lemma table_body_sections_deviation_exact : forall n,
  emem n ts_step_InTableBody__table_outer = up_to emem whatwg_table_body_sections table_body_sections_extra table_body_sections_missing n.
Proof. by_eexc. Qed.
Lemma quirky_public_prefixes_deviation_exact : forall n,
  smem n quirky_public_prefixes = up_to smem (map lower whatwg_quirks_public_prefixes) [] quirks_prefix_missing n.
Proof. by_sexc. Qed.
Lemma foreign_breakout_stop_deviation_exact : forall n,
  smem n foreign_breakout_stop = up_to smem whatwg_breakout_stop [] breakout_stop_missing n.
Proof. by_sexc. Qed.
Lemma special_tag_exceptions_genuine :
  (forall n, emem n special_extra = true -> emem n ts_special_tag = true /\ emem n whatwg_special = false) /\
  (forall n, emem n special_missing = true -> emem n whatwg_special = true /\ emem n ts_special_tag = false).
Proof. apply (set_eqb_except_exact ename_eqb ename_eqb_ok). vm_compute. reflexivity. Qed.
Lemma doctype_ok_triples_deviation_exact :
  set_eqb_except doctype_triple_eqb doctype_ok_triples whatwg_doctype_ok_triples doctype_ok_extra [] = true.
Proof. vm_compute. reflexivity. Qed.
Lemma foreign_attr_adjust_deviation_exact : forall p,
  mem sq_eqb p foreign_attr_adjust = up_to (mem sq_eqb) whatwg_foreign_attr_adjust foreign_attr_extra foreign_attr_missing p.
Proof. unfold up_to. apply (set_eqb_except_sound sq_eqb sq_eqb_ok). vm_compute. reflexivity. Qed.
(* repaired in /repo (fix: bec9d13): the srcdoc arm now comes first, as in the standard *)
Lemma quirks_arms_srcdoc_position :
  map (fun a => qcond_eqb (fst a) QcSrcdoc) (firstn 1 quirks_arms) = [true] /\
  map (fun a => qcond_eqb (fst a) QcSrcdoc) (firstn 1 whatwg_quirks_decision) = [true].
Proof. vm_compute. split; reflexivity. Qed.

(* the two former defect classes (quirks mode of the Silmaril doctype; of a srcdoc document) are repaired: the
   regenerated decision procedure now agrees with the standard on the two witnesses (before the fix: commits these
   were refutations, gen = QNoQuirks / QQuirks) *)
Definition dt_silmaril : doctype :=
  {| dt_name := Some "html"; dt_public := Some "+//Silmaril//dtd html Pro v0r11 19970101//EN"; dt_system := None;
     dt_force := false |}.
Definition dt_foo : doctype := {| dt_name := Some "foo"; dt_public := None; dt_system := None; dt_force := false |}.
Theorem gen_quirks_mode_repaired_silmaril :
  gen_quirks_mode dt_silmaril false = QQuirks /\ whatwg_quirks_mode dt_silmaril false = QQuirks.
Proof. vm_compute. split; reflexivity. Qed.
Theorem gen_quirks_mode_repaired_srcdoc :
  gen_quirks_mode dt_foo true = QNoQuirks /\ whatwg_quirks_mode dt_foo true = QNoQuirks.
Proof. vm_compute. split; reflexivity. Qed.


(* exact sizes of the regenerated tables at the time of writing *)
Example table_sizes :
  (length ts_special_tag, length ts_default_scope, length quirky_public_prefixes, length svg_tag_adjust,
   length svg_attr_adjust, length foreign_attr_adjust, length dispatch, length arms_InBody, length ser_void_elements,
   length (flat_map snd dispatch))
  = (91, 19, 55, 37, 58, 11, 22, 51, 18, 212).
Proof. vm_compute. reflexivity. Qed.
