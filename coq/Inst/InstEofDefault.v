(* C04, fourth clause in the REAL default configuration (exact_errors = false, chunked BufferQueue, bulk reads, SIMD
   scan): exactly one EOF token.  The count of EOF tokens is a function of the observation [obs] of the default-mode
   simulation (errors erased, character runs merged - EOF tokens untouched), so TokIR/SingleEof.v transports. *)
From Coq Require Import List NArith Bool Lia Arith.
From HV Require Import TokIR.IR TokIR.Interp TokIR.Checks TokIR.Chunk TokIR.QueueSim TokIR.BulkSim TokIR.BulkTerm TokIR.SingleEof.
From HV Require Import TokIR.Termination Gen.GenHtmlTok Gen.GenXmlTok.
From HV Require Import Inst.InstBulk Inst.InstTermination Inst.InstTermX Inst.InstBulkTerm Inst.InstConsumed.
Import ListNotations.

Lemma eofc_ocons x o : eofc (ocons x o) = eofc (x :: o).
Proof.
  destruct x as [[t l] k]. destruct t; try reflexivity.
  unfold ocons. destruct o as [|[[y ly] ky] o']; [reflexivity|]. destruct y; reflexivity.
Qed.
Lemma eofc_obs o : eofc (obs o) = eofc o.
Proof. induction o as [|x o IH]; [reflexivity|]. rewrite obs_cons, eofc_ocons. cbn [eofc]. rewrite IH. reflexivity. Qed.

Notation freshq s0 last := (mkmach (init_cfg s0 last false) ([] : queue) [] 0%N).
Notation freshl s0 last := (mkmach (init_cfg s0 last false) ([] : list N) [] 0%N).

Theorem html_default_mode_exactly_one_eof ent c1 sk fuel inj chunks s0 last :
  (html_fuel (length (concat chunks) + length chunks * (50 * length inj)) <= fuel)%nat -> (4 <= fuel)%nat ->
  let fast := drive_chunked html_flavour false html_table html_simd ent c1 sk fuel inj chunks (freshq s0 last) [] in
  hd (SPanic 0) (snd fast) = SSuspend -> eofc (mout (fst fast)) = 1%nat.
Proof.
  intros Hf HD fast Hs.
  pose proof (html_default_regular_fresh ent c1 sk fuel inj chunks s0 last Hf HD) as Hreg.
  destruct (html_bulk_chunked_reference ent c1 sk fuel inj chunks (freshq s0 last) [] (Forall_nil _) Hreg) as (k & A).
  destruct (A 0%nat) as (A1 & A2 & _). subst fast.
  pose proof (html_driver_exactly_one_eof html_simd ent c1 sk (k + 0) inj chunks s0 last) as H1. cbv zeta in H1.
  change (freshl s0 last) with (mkmach (mc (freshq s0 last)) (qflat (mq (freshq s0 last))) (mout (freshq s0 last)) (mcons (freshq s0 last))) in H1.
  rewrite A1 in H1. specialize (H1 Hs). unfold eofs in H1.
  rewrite <- (eofc_obs (mout _)), <- A2, eofc_obs. exact H1.
Qed.

Theorem xml_default_mode_exactly_one_eof simd ent c1 sk fuel inj chunks s0 last :
  (xml_fuel (length (concat chunks) + length chunks * (50 * length inj)) <= fuel)%nat -> (4 <= fuel)%nat ->
  let fast := drive_chunked xml_flavour false xml_table simd ent c1 sk fuel inj chunks (freshq s0 last) [] in
  hd (SPanic 0) (snd fast) = SSuspend -> eofc (mout (fst fast)) = 1%nat.
Proof.
  intros Hf HD fast Hs.
  pose proof (xml_default_regular_fresh simd ent c1 sk fuel inj chunks s0 last Hf HD) as Hreg.
  destruct (xml_bulk_chunked_reference simd ent c1 sk fuel inj chunks (freshq s0 last) [] (Forall_nil _) Hreg) as (k & A).
  destruct (A 0%nat) as (A1 & A2 & _). subst fast.
  pose proof (xml_driver_exactly_one_eof simd ent c1 sk (k + 0) inj chunks s0 last) as H1. cbv zeta in H1.
  change (freshl s0 last) with (mkmach (mc (freshq s0 last)) (qflat (mq (freshq s0 last))) (mout (freshq s0 last)) (mcons (freshq s0 last))) in H1.
  rewrite A1 in H1. specialize (H1 Hs). unfold eofs in H1.
  rewrite <- (eofc_obs (mout _)), <- A2, eofc_obs. exact H1.
Qed.
