(* C07 against the REAL tokenizer model: TokIR/Interp.v on the html table regenerated from html5ever/src/tokenizer/mod.rs,
   reference semantics (flat queue, exact_errors = true), named character references looked up in the entity table
   regenerated from the compiled PHF map (Gen/GenEntities.v).  Generic part: HtmlSer/SerLex.v. *)
From Coq Require Import List NArith Bool Lia Arith.
From RecordUpdate Require Import RecordSet.
From HV Require Import TokIR.IR TokIR.Interp TokIR.Checks TokIR.BulkSim Gen.GenHtmlTok.
From HV Require Import CharRef.CRModel Gen.GenEntities HtmlSer.SerSpec HtmlSer.SerProofs HtmlSer.SerLex TokIR.QueueSim Inst.InstBulk.
Import ListNotations RecordSetNotations.
Local Open Scope N_scope.

Lemma last_or_nil {A} (s : list A) : s = [] \/ exists s' c, s = s' ++ [c].
Proof.
  destruct s as [|a t]; [left; reflexivity|right].
  destruct (@exists_last A (a :: t)) as (s' & c & E); [discriminate|]. exists s', c. exact E.
Qed.

Definition hent : list N -> option (N * N) := alookup entities.
Definition HAV : hstate := HAttributeValue KDoubleQuoted.

Section L.
Variables sg ss sn : list N.
Variable c1 : N -> option N.
Variable sk : sinkcfg.
Notation simd := (sg, ss, sn).
Notation M := (mach hstate (list N)).
Notation iterH := (iter html_flavour html_table simd hent c1 sk).
Notation stepH := (step [] fq_next fq_peek (@app N) (fun q => q) fq_run1 html_flavour true html_table simd hent c1 sk).
Notation runH := (run [] fq_next fq_peek (@app N) (fun q => q) fq_run1 html_flavour true html_table simd hent c1 sk).
Notation tok_endH := (tok_end [] fq_next fq_peek (@app N) (fun q => q) fq_run1 html_flavour true html_table simd hent c1 sk).

(* a machine in a clean state s (no pending reference, reconsume and ignore_lf clear), all other fields arbitrary *)
Definition mk (s : hstate) cu bom tmp tk tn tself tdup ta an av cm dn dp ds dq pt pd ls ln (q : list N) o k : M :=
  mkmach (mkcfg s false cu false bom tmp tk tn tself tdup ta an av cm dn dp ds dq pt pd ls None ln) q o k.
Lemma St_mk s (m : M) : St s m ->
  exists cu bom tmp tk tn tself tdup ta an av cm dn dp ds dq pt pd ls ln,
    m = mk s cu bom tmp tk tn tself tdup ta an av cm dn dp ds dq pt pd ls ln (mq m) (mout m) (mcons m).
Proof.
  intros (A & B & C & D). destruct m as [cf q o k]. destruct cf. cbn in A, B, C, D. subst.
  do 19 eexists. reflexivity.
Qed.

(* ---------------------------------------------------------------- the five references, by computation on a symbolic machine:
   & , the name, ; and then ANY character x (looked at and put back by the longest-match logic: no entity of the
   regenerated table extends one of the five names past its semicolon) *)
Section Sym.
Variables (cu : N) (bom : bool) (tmp : str) (tk : tagkind) (tn : str) (tself tdup : bool) (ta : list (str * str))
          (an av cm : str) (dn dp ds : option str) (dq : bool) (pt pd : str) (ls : option str) (ln : N)
          (x : N) (q : list N) (o : list (token * N * N)) (k : N).
Let M0 (s : hstate) (qq : list N) : M := mk s cu bom tmp tk tn tself tdup ta an av cm dn dp ds dq pt pd ls ln qq o k.

Ltac esc_tac n :=
  match goal with |- exists _ _, iter _ _ _ _ _ _ _ ?m0 = _ /\ _ =>
    let r := eval vm_compute in (iterH n m0) in
    match r with
    | Some ?m' => exists n, m'; split; [vm_compute; reflexivity|]; split; [reflexivity|]; split;
                  [exists (cur (mc m')), (line (mc m')); reflexivity|]
    end
  end.

Lemma e_amp_t : exists n m', iterH n (M0 HData (r_amp ++ x :: q)) = Some m' /\ mq m' = x :: q /\ EffS false [38] (M0 HData (r_amp ++ x :: q)) m'.
Proof. esc_tac 7%nat. eexists; eexists; reflexivity. Qed.
Lemma e_nbsp_t : exists n m', iterH n (M0 HData (r_nbsp ++ x :: q)) = Some m' /\ mq m' = x :: q /\ EffS false [160] (M0 HData (r_nbsp ++ x :: q)) m'.
Proof. esc_tac 8%nat. eexists; eexists; reflexivity. Qed.
Lemma e_lt_t : exists n m', iterH n (M0 HData (r_lt ++ x :: q)) = Some m' /\ mq m' = x :: q /\ EffS false [60] (M0 HData (r_lt ++ x :: q)) m'.
Proof. esc_tac 6%nat. eexists; eexists; reflexivity. Qed.
Lemma e_gt_t : exists n m', iterH n (M0 HData (r_gt ++ x :: q)) = Some m' /\ mq m' = x :: q /\ EffS false [62] (M0 HData (r_gt ++ x :: q)) m'.
Proof. esc_tac 6%nat. eexists; eexists; reflexivity. Qed.

Lemma e_amp_a : exists n m', iterH n (M0 HAV (r_amp ++ x :: q)) = Some m' /\ mq m' = x :: q /\ EffS true [38] (M0 HAV (r_amp ++ x :: q)) m'.
Proof. esc_tac 7%nat. reflexivity. Qed.
Lemma e_nbsp_a : exists n m', iterH n (M0 HAV (r_nbsp ++ x :: q)) = Some m' /\ mq m' = x :: q /\ EffS true [160] (M0 HAV (r_nbsp ++ x :: q)) m'.
Proof. esc_tac 8%nat. reflexivity. Qed.
Lemma e_lt_a : exists n m', iterH n (M0 HAV (r_lt ++ x :: q)) = Some m' /\ mq m' = x :: q /\ EffS true [60] (M0 HAV (r_lt ++ x :: q)) m'.
Proof. esc_tac 6%nat. reflexivity. Qed.
Lemma e_gt_a : exists n m', iterH n (M0 HAV (r_gt ++ x :: q)) = Some m' /\ mq m' = x :: q /\ EffS true [62] (M0 HAV (r_gt ++ x :: q)) m'.
Proof. esc_tac 6%nat. reflexivity. Qed.
Lemma e_quot_a : exists n m', iterH n (M0 HAV (r_quot ++ x :: q)) = Some m' /\ mq m' = x :: q /\ EffS true [34] (M0 HAV (r_quot ++ x :: q)) m'.
Proof. esc_tac 8%nat. reflexivity. Qed.

(* the reference is the LAST thing in the input: the sub-tokenizer waits for more (a longer name could follow) and end()
   resolves it *)
Definition LastOK (v : N) (m : M) : Prop :=
  exists n mE mF, iterH n m = Some mE /\ stepH false mE = (mE, SSuspend) /\ (forall f, tok_endH (Datatypes.S f) mE = (mF, SSuspend)) /\
    st (mc mF) = HData /\ exists l kk l' k', obs (mout mF) = (TEof, l', k') :: ocons (TChars [v], l, kk) (obs (mout m)).
Ltac last_tac n :=
  match goal with |- LastOK _ ?m0 =>
    let r := eval vm_compute in (iterH n m0) in
    match r with
    | Some ?mE =>
      let r2 := eval vm_compute in (tok_endH 1 mE) in
      match r2 with
      | (?mF, SSuspend) =>
        exists n, mE, mF; split; [vm_compute; reflexivity|]; split; [vm_compute; reflexivity|];
        split; [intros f; vm_compute; reflexivity|]; split; [reflexivity|]; do 4 eexists; reflexivity
      end
    end
  end.
Lemma l_amp : LastOK 38 (M0 HData r_amp). Proof. last_tac 6%nat. Qed.
Lemma l_nbsp : LastOK 160 (M0 HData r_nbsp). Proof. last_tac 7%nat. Qed.
Lemma l_lt : LastOK 60 (M0 HData r_lt). Proof. last_tac 5%nat. Qed.
Lemma l_gt : LastOK 62 (M0 HData r_gt). Proof. last_tac 5%nat. Qed.

(* a clean Data state with nothing left to read: the step suspends, end() delivers the EOF token *)
Lemma end_clean_sym :
  stepH false (M0 HData []) = (M0 HData [], SSuspend) /\
  exists mF, (forall f, tok_endH (Datatypes.S f) (M0 HData []) = (mF, SSuspend)) /\ st (mc mF) = HData /\
             exists l' k', mout mF = (TEof, l', k') :: o.
Proof.
  split; [vm_compute; reflexivity|].
  let r2 := eval vm_compute in (tok_endH 1 (M0 HData [])) in
  match r2 with (?mF, SSuspend) => exists mF; split; [intros f; vm_compute; reflexivity|]; split; [reflexivity|]; do 2 eexists; reflexivity end.
Qed.
End Sym.

(* ---------------------------------------------------------------- ordinary characters: the bulk-state lemma of TokIR/BulkSim.v *)
Definition kchar_of (b : body hstate) : body hstate := match b with BPop _ _ _ k => k | _ => b end.
Lemma data_resolve c : c <> 0 -> c <> 38 -> c <> 60 ->
  strip_err (resolve c (kchar_of (html_step HData))) = BCmd (xcmd true) (BEnd Stay).
Proof.
  intros A B C. apply N.eqb_neq in A, B, C. cbn [html_step kchar_of resolve]. unfold memb, existsb. rewrite A, B, C. reflexivity.
Qed.
Lemma av_resolve c : c <> 0 -> c <> 38 -> c <> 34 ->
  strip_err (resolve c (kchar_of (html_step HAV))) = BCmd (xcmd false) (BEnd Stay).
Proof.
  intros A B C. apply N.eqb_neq in A, B, C. cbn [html_step HAV kchar_of resolve]. unfold memb, existsb. rewrite A, B, C. reflexivity.
Qed.

Lemma St_pre s (m : M) : St s m -> pre s m.
Proof. intros (A & B & C & D). repeat split; assumption. Qed.

Lemma plain_text c q (m : M) : St HData m -> mq m = c :: q -> c <> 0 -> c <> 13 -> c <> 38 -> c <> 60 ->
  exists n m', iterH n m = Some m' /\ mq m' = q /\ EffS false [c] m m'.
Proof.
  intros HS Hq H0 H13 H38 H60.
  destruct (slow_step [] fq_next fq_peek (@app N) (fun q => q) fq_run1 html_flavour html_table sg ss sn hent c1 sk false
              HData _ _ _ _ true c q m eq_refl (St_pre _ _ HS)) as (m1 & E1 & R & _);
    [rewrite Hq; reflexivity|exact H13|exact H0|exact (data_resolve c H0 H38 H60)|].
  exists 1%nat, m1. split; [cbn [iter]; rewrite E1; reflexivity|].
  pose proof (Rel_mc_eq _ _ R) as Ec. destruct R as (_ & Rq & _ & Ro & _).
  destruct m as [cf q0 o k]. destruct cf.
  unfold doC, slow1 in Ec, Rq, Ro. cbn [html_flavour f_html andb] in Ec, Rq, Ro.
  destruct (c =? LF);
    (split; [rewrite Rq; reflexivity|]; split;
     [exists c, (Interp.line (mc m1)); rewrite Ec; reflexivity|rewrite Ro; do 2 eexists; reflexivity]).
Qed.

Lemma plain_attr c q (m : M) : St HAV m -> mq m = c :: q -> c <> 0 -> c <> 13 -> c <> 38 -> c <> 34 ->
  exists n m', iterH n m = Some m' /\ mq m' = q /\ EffS true [c] m m'.
Proof.
  intros HS Hq H0 H13 H38 H34.
  destruct (slow_step [] fq_next fq_peek (@app N) (fun q => q) fq_run1 html_flavour html_table sg ss sn hent c1 sk false
              HAV _ _ _ _ false c q m eq_refl (St_pre _ _ HS)) as (m1 & E1 & R & _);
    [rewrite Hq; reflexivity|exact H13|exact H0|exact (av_resolve c H0 H38 H34)|].
  exists 1%nat, m1. split; [cbn [iter]; rewrite E1; reflexivity|].
  pose proof (Rel_mc_eq _ _ R) as Ec. destruct R as (_ & Rq & _ & Ro & _).
  destruct m as [cf q0 o k]. destruct cf.
  unfold doC, slow1 in Ec, Rq, Ro. cbn [html_flavour f_html andb] in Ec, Rq, Ro.
  destruct (c =? LF);
    (split; [rewrite Rq; reflexivity|]; split;
     [exists c, (Interp.line (mc m1)); rewrite Ec; reflexivity|rewrite Ro; reflexivity]).
Qed.

Definition okc (c : N) : Prop := c <> 0 /\ c <> 13.

Ltac to_sym HS Hq :=
  let E := fresh "E" in
  match type of HS with St _ ?m =>
    destruct (St_mk _ m HS) as (cu & bom & tmp & tk & tn & tself & tdup & ta & an & av & cm & dn & dp & ds & dq & pt & pd & ls & ln & E);
    rewrite Hq in E; rewrite E
  end.

Lemma char_text : forall c x q (m : M), okc c -> St HData m -> mq m = esc_char false c ++ x :: q ->
  exists n m', iterH n m = Some m' /\ mq m' = x :: q /\ EffS false [c] m m'.
Proof.
  intros c x q m [H0 H13] HS Hq.
  destruct (N.eq_dec c 38) as [->|H38]; [change (esc_char false 38) with r_amp in Hq; to_sym HS Hq; apply e_amp_t|].
  destruct (N.eq_dec c 160) as [->|H160]; [change (esc_char false 160) with r_nbsp in Hq; to_sym HS Hq; apply e_nbsp_t|].
  destruct (N.eq_dec c 60) as [->|H60]; [change (esc_char false 60) with r_lt in Hq; to_sym HS Hq; apply e_lt_t|].
  destruct (N.eq_dec c 62) as [->|H62]; [change (esc_char false 62) with r_gt in Hq; to_sym HS Hq; apply e_gt_t|].
  assert (Ee : esc_char false c = [c]).
  { unfold esc_char. apply N.eqb_neq in H38, H160, H60, H62. rewrite H38, H160, H60, H62. reflexivity. }
  rewrite Ee in Hq. apply plain_text; assumption.
Qed.
Lemma char_attr : forall c x q (m : M), okc c -> St HAV m -> mq m = esc_char true c ++ x :: q ->
  exists n m', iterH n m = Some m' /\ mq m' = x :: q /\ EffS true [c] m m'.
Proof.
  intros c x q m [H0 H13] HS Hq.
  destruct (N.eq_dec c 38) as [->|H38]; [change (esc_char true 38) with r_amp in Hq; to_sym HS Hq; apply e_amp_a|].
  destruct (N.eq_dec c 160) as [->|H160]; [change (esc_char true 160) with r_nbsp in Hq; to_sym HS Hq; apply e_nbsp_a|].
  destruct (N.eq_dec c 60) as [->|H60]; [change (esc_char true 60) with r_lt in Hq; to_sym HS Hq; apply e_lt_a|].
  destruct (N.eq_dec c 62) as [->|H62]; [change (esc_char true 62) with r_gt in Hq; to_sym HS Hq; apply e_gt_a|].
  destruct (N.eq_dec c 34) as [->|H34]; [change (esc_char true 34) with r_quot in Hq; to_sym HS Hq; apply e_quot_a|].
  assert (Ee : esc_char true c = [c]).
  { unfold esc_char. apply N.eqb_neq in H38, H160, H60, H62, H34. rewrite H38, H160, H60, H62, H34. reflexivity. }
  rewrite Ee in Hq. apply plain_attr; assumption.
Qed.

(* whole strings, whatever follows (x = U+003C in particular): the escaped text never leaves the Data state, the escaped
   attribute value never leaves the double-quoted attribute-value state *)
Theorem text_stays_in_data : forall t x q (m : M), Forall okc t -> St HData m -> mq m = escape_spec false t ++ x :: q ->
  exists n m', iterH n m = Some m' /\ mq m' = x :: q /\ EffS false t m m' /\ St HData m'.
Proof.
  intros t x q m Hok HS Hq. rewrite escape_spec_charwise in Hq.
  exact (run_str html_flavour html_table simd hent c1 sk HData false (esc_char false) okc char_text t x q m Hok HS Hq).
Qed.
Theorem value_stays_in_attribute : forall t x q (m : M), Forall okc t -> St HAV m -> mq m = escape_spec true t ++ x :: q ->
  exists n m', iterH n m = Some m' /\ mq m' = x :: q /\ EffS true t m m' /\ St HAV m'.
Proof.
  intros t x q m Hok HS Hq. rewrite escape_spec_charwise in Hq.
  exact (run_str html_flavour html_table simd hent c1 sk HAV true (esc_char true) okc char_attr t x q m Hok HS Hq).
Qed.

(* ---------------------------------------------------------------- the end of the input *)
Notation feedH := (feed [] fq_next fq_peek (@app N) (fun q => q) fq_run1 html_flavour true html_table simd hent c1 sk).

Lemma end_clean (m : M) : St HData m -> mq m = [] ->
  stepH false m = (m, SSuspend) /\
  exists mF, (forall f, tok_endH (Datatypes.S f) m = (mF, SSuspend)) /\ st (mc mF) = HData /\
             exists l' k', mout mF = (TEof, l', k') :: mout m.
Proof. intros HS Hq. to_sym HS Hq. apply end_clean_sym. Qed.

Lemma esc_nonempty a c : exists y q', esc_char a c = y :: q'.
Proof.
  unfold esc_char. destruct (c =? 38); [do 2 eexists; reflexivity|]. destruct (c =? 160); [do 2 eexists; reflexivity|].
  destruct (c =? 60); [do 2 eexists; reflexivity|]. destruct (c =? 62); [do 2 eexists; reflexivity|].
  destruct (a && (c =? 34)); do 2 eexists; reflexivity.
Qed.

Lemma last_text c (m : M) : okc c -> St HData m -> mq m = esc_char false c -> LastOK c m.
Proof.
  intros [H0 H13] HS Hq.
  destruct (N.eq_dec c 38) as [->|H38]; [change (esc_char false 38) with r_amp in Hq; to_sym HS Hq; apply l_amp|].
  destruct (N.eq_dec c 160) as [->|H160]; [change (esc_char false 160) with r_nbsp in Hq; to_sym HS Hq; apply l_nbsp|].
  destruct (N.eq_dec c 60) as [->|H60]; [change (esc_char false 60) with r_lt in Hq; to_sym HS Hq; apply l_lt|].
  destruct (N.eq_dec c 62) as [->|H62]; [change (esc_char false 62) with r_gt in Hq; to_sym HS Hq; apply l_gt|].
  assert (Ee : esc_char false c = [c]).
  { unfold esc_char. apply N.eqb_neq in H38, H160, H60, H62. rewrite H38, H160, H60, H62. reflexivity. }
  rewrite Ee in Hq.
  destruct (plain_text c [] m HS Hq H0 H13 H38 H60) as (n & m1 & I1 & Q1 & E1).
  pose proof (EffS_St _ _ _ _ _ E1 HS) as HS1.
  destruct (end_clean m1 HS1 Q1) as (S1 & mF & T1 & T2 & l' & k' & T3).
  exists n, m1, mF. split; [exact I1|]. split; [exact S1|]. split; [exact T1|]. split; [exact T2|].
  destruct E1 as [_ (l & kk & O1)]. exists l, kk, l', k'. rewrite T3, obs_cons, O1. reflexivity.
Qed.

Lemma notin_okc s : ~ In 0 s -> ~ In 13 s -> Forall okc s.
Proof. intros A B. apply Forall_forall. intros c Hc. split; intros ->; tauto. Qed.

End L.

(* (a) TEXT.  For every string s of code points without U+0000 and U+000D, every start of the sink script, c1 table and
   last-start-tag name: the reference interpreter on the regenerated html table and entity table, started in the Data state
   on "escaping a string"(s) (not in attribute mode) as the whole input and then end(), with any fuel from some bound on,
   suspends once (input exhausted), ends regularly in the Data state, and delivers - up to [obs]: TError entries dropped
   (in exact mode: one for every control character or noncharacter of s), adjacent character tokens merged - the single
   character token with text s (nothing if s is empty) followed by the EOF token.  No tag, comment or doctype token. *)
Theorem html_escaped_text_lexes_back : forall simd c1 sk last s, ~ In 0 s -> ~ In 13 s ->
  exists fuel0, forall fuel, (fuel0 <= fuel)%nat ->
    let r := drive_flat html_flavour true html_table simd hent c1 sk fuel [] [escape_spec false s]
               (mkmach (init_cfg HData last false) [] [] 0) [] in
    snd r = [SSuspend; SSuspend] /\ st (mc (fst r)) = HData /\
    exists l k l' k', obs (mout (fst r)) = (TEof, l', k') :: match s with [] => [] | _ => [(TChars s, l, k)] end.
Proof.
  intros [[sg ss] sn] c1 sk last s N0 N13.
  set (m0 := mkmach (init_cfg HData last false) ([] : list N) [] 0).
  assert (HS0 : forall inp, St HData (m0 <| mq ::= (fun q => q ++ inp) |>)) by (intros inp; repeat split; reflexivity).
  destruct (last_or_nil s) as [->|(s' & c & ->)].
  - exists 1%nat. intros fuel Hf. destruct fuel as [|f]; [lia|].
    destruct (end_clean sg ss sn c1 sk (m0 <| mq ::= (fun q => q ++ escape_spec false []) |>) (HS0 _) eq_refl)
      as (_ & mF & T1 & T2 & l' & k' & T3).
    set (m1 := m0 <| mq ::= (fun q => q ++ escape_spec false []) |>) in *.
    pose proof (feed_empty html_flavour html_table (sg, ss, sn) hent c1 sk (Datatypes.S f) m1 eq_refl) as F.
    cbv zeta. rewrite (drive_one html_flavour html_table (sg, ss, sn) hent c1 sk (Datatypes.S f) [] _ m0 m1 mF SSuspend F (T1 f)).
    cbn [fst snd]. split; [reflexivity|]. split; [exact T2|]. exists 0, 0, l', k'. rewrite T3. reflexivity.
  - pose proof (notin_okc _ N0 N13) as Hok. apply Forall_app in Hok. destruct Hok as [Hok' Hc]. inversion Hc as [|? ? Hc' _]; subst.
    set (m1 := m0 <| mq ::= (fun q => q ++ escape_spec false (s' ++ [c])) |>).
    destruct (esc_nonempty false c) as (y & q' & Ey).
    assert (Hq1 : mq m1 = escape_spec false s' ++ y :: q').
    { change (mq m1) with ([] ++ escape_spec false (s' ++ [c])). cbn [app].
      rewrite !escape_spec_charwise, flat_map_app. cbn [flat_map]. rewrite app_nil_r, Ey. reflexivity. }
    destruct (text_stays_in_data sg ss sn c1 sk s' y q' m1 Hok' (HS0 _) Hq1) as (n1 & m' & I1 & Q1 & E1 & HS').
    rewrite <- Ey in Q1.
    destruct (last_text sg ss sn c1 sk c m' Hc' HS' Q1) as (n2 & mE & mF & I2 & S2 & T1 & T2 & l & kk & l' & k' & O2).
    exists (n1 + (n2 + 1))%nat. intros fuel Hf.
    replace fuel with (n1 + (n2 + Datatypes.S (fuel - (n1 + (n2 + 1)))))%nat by lia.
    set (j := (fuel - (n1 + (n2 + 1)))%nat).
    assert (F : feed [] fq_next fq_peek (@app N) (fun q => q) fq_run1 html_flavour true html_table (sg, ss, sn) hent c1 sk
                  (n1 + (n2 + Datatypes.S j)) m1 = (mE, SSuspend)).
    { rewrite feed_nonempty; [|rewrite Hq1; destruct (escape_spec false s'); discriminate|reflexivity].
      rewrite (run_iter _ _ _ _ _ _ _ _ _ I1), (run_iter _ _ _ _ _ _ _ _ _ I2). cbn [run]. rewrite S2. reflexivity. }
    cbv zeta. replace (n1 + (n2 + Datatypes.S j))%nat with (Datatypes.S (n1 + (n2 + j)))%nat in * by lia.
    rewrite (drive_one html_flavour html_table (sg, ss, sn) hent c1 sk _ [] _ m0 mE mF SSuspend F (T1 _)).
    cbn [fst snd]. split; [reflexivity|]. split; [exact T2|]. exists l, kk, l', k'. rewrite O2.
    destruct E1 as [_ (l1 & k1 & O1)]. rewrite O1.
    destruct (s' ++ [c]) as [|d t] eqn:Es; [destruct s'; discriminate Es|]. rewrite <- Es.
    destruct s' as [|d' t']; [reflexivity|]. rewrite ocons_chars_chars. reflexivity.
Qed.

Section B.
Variables sg ss sn : list N.
Variable c1 : N -> option N.
Variable sk : sinkcfg.
Hypothesis Hsk : lookup_resp [97] (sk_resp sk) = None.
Notation simd := (sg, ss, sn).
Notation M := (mach hstate (list N)).
Notation iterH := (iter html_flavour html_table simd hent c1 sk).
Notation stepH := (step [] fq_next fq_peek (@app N) (fun q => q) fq_run1 html_flavour true html_table simd hent c1 sk).

Definition pre6 : list N := [60; 97; 32; 98; 61; 34].     (* less-than, a, space, b, equals, quotation mark *)
Definition m6 (last : option str) (T : list N) : M :=
  ltac:(let r := eval vm_compute in (iterH 6 (mkmach (init_cfg HData last false) (pre6 ++ T) [] 0)) in
        match r with Some ?m => exact m end).
Lemma pre6_ok last T : iterH 6 (mkmach (init_cfg HData last false) (pre6 ++ T) [] 0) = Some (m6 last T).
Proof. vm_compute. reflexivity. Qed.
Lemma m6_props last T : St HAV (m6 last T) /\ mq (m6 last T) = T /\ mout (m6 last T) = [] /\ attr_value (mc (m6 last T)) = [].
Proof. repeat split; reflexivity. Qed.

Lemma suffix_ok last T a l v o' k' :
  exists m8, iterH 2 (mkmach (setclv a l v (mc (m6 last T))) [34; 62] o' k') = Some m8 /\ St HData m8 /\ mq m8 = [] /\
             exists ln kk, mout m8 = (TTag TStartTag [97] false [([98], v)] false, ln, kk) :: o'.
Proof.
  cbn [iter].
  let r := eval vm_compute in (stepH false (mkmach (setclv a l v (mc (m6 last T))) [34; 62] o' k')) in
  match r with (?m7, SContinue) =>
    replace (stepH false (mkmach (setclv a l v (mc (m6 last T))) [34; 62] o' k')) with (m7, SContinue) by (vm_compute; reflexivity)
  end.
  unfold step. lazy -[lookup_resp sk_resp]. rewrite Hsk. lazy beta iota.
  eexists. split; [reflexivity|]. split; [repeat split; reflexivity|]. split; [reflexivity|]. do 2 eexists. reflexivity.
Qed.

Theorem attr_lexes_back_B : forall last s, ~ In 0 s -> ~ In 13 s ->
  exists fuel0, forall fuel, (fuel0 <= fuel)%nat ->
    let r := drive_flat html_flavour true html_table simd hent c1 sk fuel [] [pre6 ++ escape_spec true s ++ [34; 62]]
               (mkmach (init_cfg HData last false) [] [] 0) [] in
    snd r = [SSuspend; SSuspend] /\ st (mc (fst r)) = HData /\
    exists l k l' k', obs (mout (fst r)) = [(TEof, l', k'); (TTag TStartTag [97] false [([98], s)] false, l, k)].
Proof.
  intros last s N0 N13.
  set (T := escape_spec true s ++ [34; 62]).
  set (m0 := mkmach (init_cfg HData last false) ([] : list N) [] 0).
  set (m1 := m0 <| mq ::= (fun q => q ++ (pre6 ++ T)) |>).
  assert (I6 : iterH 6 m1 = Some (m6 last T)) by exact (pre6_ok last T).
  destruct (m6_props last T) as (P1 & P2 & P3 & P4).
  destruct (value_stays_in_attribute sg ss sn c1 sk s 34 [62] (m6 last T) (notin_okc _ N0 N13) P1 P2)
    as (n1 & m' & I1 & Q1 & E1 & HS').
  destruct E1 as [(a & l & Ec) Eo]. cbn beta iota in Eo. rewrite P4 in Ec. cbn [app] in Ec. rewrite P3 in Eo.
  assert (Em : m' = mkmach (setclv a l s (mc (m6 last T))) [34; 62] (mout m') (mcons m')).
  { destruct m' as [cf q o k]. cbn in Ec, Q1 |- *. rewrite Ec, Q1. reflexivity. }
  destruct (suffix_ok last T a l s (mout m') (mcons m')) as (m8 & I2 & HS8 & Q8 & ln & kk & O8). rewrite <- Em in I2.
  destruct (end_clean sg ss sn c1 sk m8 HS8 Q8) as (S8 & mF & T1 & T2 & l' & k' & T3).
  pose proof (iter_trans _ _ _ _ _ _ _ _ _ _ _ I6 (iter_trans _ _ _ _ _ _ _ _ _ _ _ I1 I2)) as I.
  exists (6 + (n1 + 2) + 1)%nat. intros fuel Hf.
  replace fuel with (Datatypes.S (6 + (n1 + 2) + (fuel - (6 + (n1 + 2) + 1))))%nat by lia.
  set (j := (fuel - (6 + (n1 + 2) + 1))%nat).
  assert (F : feed [] fq_next fq_peek (@app N) (fun q => q) fq_run1 html_flavour true html_table simd hent c1 sk
                (Datatypes.S (6 + (n1 + 2) + j)) m1 = (m8, SSuspend)).
  { rewrite feed_nonempty; [|discriminate|reflexivity].
    replace (Datatypes.S (6 + (n1 + 2) + j)) with (6 + (n1 + 2) + Datatypes.S j)%nat by lia.
    rewrite (run_iter _ _ _ _ _ _ _ _ _ I). cbn [run]. rewrite S8. reflexivity. }
  cbv zeta. rewrite (drive_one html_flavour html_table simd hent c1 sk _ [] _ m0 m8 mF SSuspend F (T1 _)).
  cbn [fst snd]. split; [reflexivity|]. split; [exact T2|]. exists ln, kk, l', k'.
  rewrite T3, O8, !obs_cons, Eo. reflexivity.
Qed.
End B.

(* (b) ATTRIBUTE VALUES.  For every string s without U+0000 and U+000D: the reference interpreter on
   less-than a space b equals QUOT, then "escaping a string"(s) in attribute mode, then QUOT greater-than, as the whole
   input and then end(), with a sink that does not answer on the tag name a: suspends once, ends regularly in the Data state,
   and delivers - up to [obs], i.e. up to the parse errors exact mode reports for control characters and noncharacters of
   s - exactly one start tag a with the single attribute (b, s), not self-closing, no duplicate, followed by the EOF token *)
Theorem html_escaped_attr_lexes_back : forall simd c1 sk last s,
  lookup_resp [97] (sk_resp sk) = None -> ~ In 0 s -> ~ In 13 s ->
  exists fuel0, forall fuel, (fuel0 <= fuel)%nat ->
    let r := drive_flat html_flavour true html_table simd hent c1 sk fuel [] [pre6 ++ escape_spec true s ++ [34; 62]]
               (mkmach (init_cfg HData last false) [] [] 0) [] in
    snd r = [SSuspend; SSuspend] /\ st (mc (fst r)) = HData /\
    exists l k l' k', obs (mout (fst r)) = [(TEof, l', k'); (TTag TStartTag [97] false [([98], s)] false, l, k)].
Proof. intros [[sg ss] sn] c1 sk last s Hsk. exact (attr_lexes_back_B sg ss sn c1 sk Hsk last s). Qed.

(* ---------------------------------------------------------------- transported to the tokenizer's DEFAULT mode by TokIR/BulkSim.v:
   the chunked-queue interpreter with exact_errors = false (bulk reads, SIMD scan) - the one that runs against the Rust
   code - delivers the same observable tokens whenever its run ends regularly (no fuel exhaustion) *)
Lemma ceq_st {S} (a b : cfg S) : ceq a b -> st a = st b.
Proof. intros H. destruct a, b; unfold ceq, setcur in H; cbn in *; injection H; intros; subst; reflexivity. Qed.

Theorem html_escaped_text_lexes_back_default_mode : forall c1 sk last s fuel, ~ In 0 s -> ~ In 13 s ->
  let rf := drive_chunked html_flavour false html_table html_simd hent c1 sk fuel [] [escape_spec false s]
              (mkmach (init_cfg HData last false) [] [] 0) [] in
  regular (snd rf) ->
  snd rf = [SSuspend; SSuspend] /\ st (mc (fst rf)) = HData /\
  exists l k l' k', obs (mout (fst rf)) = (TEof, l', k') :: match s with [] => [] | _ => [(TChars s, l, k)] end.
Proof.
  intros c1 sk last s fuel N0 N13 rf Hreg.
  destruct (html_bulk_chunked_reference hent c1 sk fuel [] [escape_spec false s] (mkmach (init_cfg HData last false) [] [] 0) []
              (Forall_nil _) Hreg) as (k & A).
  destruct (html_escaped_text_lexes_back html_simd c1 sk last s N0 N13) as (f0 & B).
  specialize (A f0). specialize (B (k + f0)%nat ltac:(lia)). cbv zeta in A, B. fold rf in A.
  change (mkmach (mc (mkmach (init_cfg HData last false) ([] : queue) [] 0)) (qflat (mq (mkmach (init_cfg HData last false) ([] : queue) [] 0)))
            (mout (mkmach (init_cfg HData last false) ([] : queue) [] 0)) (mcons (mkmach (init_cfg HData last false) ([] : queue) [] 0)))
    with (mkmach (init_cfg HData last false) ([] : list N) [] 0) in A.
  set (rs := drive_flat html_flavour true html_table html_simd hent c1 sk (k + f0) [] [escape_spec false s]
               (mkmach (init_cfg HData last false) [] [] 0) []) in *.
  clearbody rs rf. destruct A as (A1 & A2 & A3 & _). destruct B as (B1 & B2 & B3).
  split; [rewrite <- A1; exact B1|]. split; [rewrite <- (ceq_st _ _ A3); exact B2|]. rewrite <- A2. exact B3.
Qed.

Theorem html_escaped_attr_lexes_back_default_mode : forall c1 sk last s fuel,
  lookup_resp [97] (sk_resp sk) = None -> ~ In 0 s -> ~ In 13 s ->
  let rf := drive_chunked html_flavour false html_table html_simd hent c1 sk fuel [] [pre6 ++ escape_spec true s ++ [34; 62]]
              (mkmach (init_cfg HData last false) [] [] 0) [] in
  regular (snd rf) ->
  snd rf = [SSuspend; SSuspend] /\ st (mc (fst rf)) = HData /\
  exists l k l' k', obs (mout (fst rf)) = [(TEof, l', k'); (TTag TStartTag [97] false [([98], s)] false, l, k)].
Proof.
  intros c1 sk last s fuel Hsk N0 N13 rf Hreg.
  destruct (html_bulk_chunked_reference hent c1 sk fuel [] [pre6 ++ escape_spec true s ++ [34; 62]]
              (mkmach (init_cfg HData last false) [] [] 0) [] (Forall_nil _) Hreg) as (k & A).
  destruct (html_escaped_attr_lexes_back html_simd c1 sk last s Hsk N0 N13) as (f0 & B).
  specialize (A f0). specialize (B (k + f0)%nat ltac:(lia)). cbv zeta in A, B. fold rf in A.
  change (mkmach (mc (mkmach (init_cfg HData last false) ([] : queue) [] 0)) (qflat (mq (mkmach (init_cfg HData last false) ([] : queue) [] 0)))
            (mout (mkmach (init_cfg HData last false) ([] : queue) [] 0)) (mcons (mkmach (init_cfg HData last false) ([] : queue) [] 0)))
    with (mkmach (init_cfg HData last false) ([] : list N) [] 0) in A.
  set (rs := drive_flat html_flavour true html_table html_simd hent c1 sk (k + f0) [] [pre6 ++ escape_spec true s ++ [34; 62]]
               (mkmach (init_cfg HData last false) [] [] 0) []) in *.
  clearbody rs rf. destruct A as (A1 & A2 & A3 & _). destruct B as (B1 & B2 & B3).
  split; [rewrite <- A1; exact B1|]. split; [rewrite <- (ceq_st _ _ A3); exact B2|]. rewrite <- A2. exact B3.
Qed.

(* non-vacuity (a test, by computation): s = a & b NBSP LT GT QUOT U+0001 LF c; text and attribute form *)
Definition lex_s : list N := [97; 38; 98; 160; 60; 62; 34; 1; 10; 99].
Definition lex_sk : sinkcfg := {| sk_resp := []; sk_foreign := false |}.
Example lex_example :
  let rt := drive_flat html_flavour true html_table html_simd hent (fun _ => None) lex_sk 200 [] [escape_spec false lex_s]
              (mkmach (init_cfg HData None false) [] [] 0) [] in
  let ra := drive_flat html_flavour true html_table html_simd hent (fun _ => None) lex_sk 200 [] [pre6 ++ escape_spec true lex_s ++ [34; 62]]
              (mkmach (init_cfg HData None false) [] [] 0) [] in
  map (fun e => fst (fst e)) (obs (mout (fst rt))) = [TEof; TChars lex_s] /\
  map (fun e => fst (fst e)) (obs (mout (fst ra))) = [TEof; TTag TStartTag [97] false [([98], lex_s)] false] /\
  length (escape_spec false lex_s) = 25%nat /\ length (escape_spec true lex_s) = 30%nat /\
  length (mout (fst rt)) = 12%nat.
Proof. vm_compute. repeat split; reflexivity. Qed.
