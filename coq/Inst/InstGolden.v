(* The regenerated tokenizer tables are, cell for cell, the audited golden tables (C01 change detector). *)
From Coq Require Import List NArith Bool.
From HV Require Import TokIR.IR TokIR.Interp TokIR.Checks Gen.GenHtmlTok Gen.GenXmlTok Golden.GoldenHtmlTok Golden.GoldenXmlTok.
Import ListNotations.
Lemma html_table_is_golden : table_diff hstate_beq html_table g_html_table = [] /\ html_states = g_html_states.
Proof. split; vm_compute; reflexivity. Qed.
Lemma xml_table_is_golden : table_diff xstate_beq xml_table g_xml_table = [] /\ xml_states = g_xml_states.
Proof. split; vm_compute; reflexivity. Qed.
Lemma simd_sets_are_golden :
  (simd_first_guard, simd_tail_stop, simd_tail_newline, simd_lane_stop, simd_lane_newline) =
  (g_simd_first_guard, g_simd_tail_stop, g_simd_tail_newline, g_simd_lane_stop, g_simd_lane_newline).
Proof. vm_compute. reflexivity. Qed.
