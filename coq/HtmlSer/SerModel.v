(* Executable model of html5ever/src/serialize/mod.rs (HtmlSerializer) driven by
   the Serialize impl of rcdom/lib.rs, on BYTES.

   * write_escaped: the memchr loop with byte positions (search_start,
     next_special, the cases for & QUOTE < > and 0xC2 [0xA0], what `continue`
     skips);
   * the ElemInfo stack machine: new / parent / start_elem / end_elem /
     write_text / write_comment / write_doctype / write_processing_instruction;
   * the RcDom traversal twice: as written (a VecDeque of SerializeOp popped
     from the front: run_ops / ser_deque, what the correspondence run executes)
     and as a recursive function of the tree (visit / ser, what the proofs use;
     SerProofs.ser_deque_is_ser shows they coincide).

   The model mirrors the code AS IT IS.  Two places where the code is known to
   violate C07 carry a switch so that the repaired behaviour can be executed
   and proved as well (the correspondence run detects which one the working
   tree implements):
     fix_c2 = false : the `_ => continue` arm drops the 0xC2 byte (as is)
     fix_c2 = true  : that arm writes the byte it skips
     fix_ns = false : ChildrenOnly(Some(n)) takes n.local whatever n.ns (as is)
     fix_ns = true  : only an HTML-namespace n gives the initial parent a name
   No proofs here: this file is what the correspondence run executes. *)
From Coq Require Import List NArith Bool Arith.
Import ListNotations.
Local Open Scope N_scope.

Record variant := { fix_c2 : bool; fix_ns : bool }.
Definition as_is : variant := {| fix_c2 := false; fix_ns := false |}.
Definition repaired : variant := {| fix_c2 := true; fix_ns := true |}.

(* ------------------------------------------------------------------ constants *)
Definition void_names : list (list N) :=
  [[97; 114; 101; 97] (* area *);
   [98; 97; 115; 101] (* base *);
   [98; 97; 115; 101; 102; 111; 110; 116] (* basefont *);
   [98; 103; 115; 111; 117; 110; 100] (* bgsound *);
   [98; 114] (* br *);
   [99; 111; 108] (* col *);
   [101; 109; 98; 101; 100] (* embed *);
   [102; 114; 97; 109; 101] (* frame *);
   [104; 114] (* hr *);
   [105; 109; 103] (* img *);
   [105; 110; 112; 117; 116] (* input *);
   [107; 101; 121; 103; 101; 110] (* keygen *);
   [108; 105; 110; 107] (* link *);
   [109; 101; 116; 97] (* meta *);
   [112; 97; 114; 97; 109] (* param *);
   [115; 111; 117; 114; 99; 101] (* source *);
   [116; 114; 97; 99; 107] (* track *);
   [119; 98; 114] (* wbr *)].
Definition raw_names : list (list N) :=
  [[115; 116; 121; 108; 101] (* style *);
   [115; 99; 114; 105; 112; 116] (* script *);
   [120; 109; 112] (* xmp *);
   [105; 102; 114; 97; 109; 101] (* iframe *);
   [110; 111; 101; 109; 98; 101; 100] (* noembed *);
   [110; 111; 102; 114; 97; 109; 101; 115] (* noframes *);
   [112; 108; 97; 105; 110; 116; 101; 120; 116] (* plaintext *)].
Definition s_noscript : list N := [110; 111; 115; 99; 114; 105; 112; 116]. (* noscript *)
Definition s_amp : list N := [38; 97; 109; 112; 59]. (* &amp; *)
Definition s_quot : list N := [38; 113; 117; 111; 116; 59]. (* &quot; *)
Definition s_lt : list N := [38; 108; 116; 59]. (* &lt; *)
Definition s_gt : list N := [38; 103; 116; 59]. (* &gt; *)
Definition s_nbsp : list N := [38; 110; 98; 115; 112; 59]. (* &nbsp; *)
Definition s_xml_colon : list N := [120; 109; 108; 58]. (* xml: *)
Definition s_xmlns_colon : list N := [120; 109; 108; 110; 115; 58]. (* xmlns: *)
Definition s_xlink_colon : list N := [120; 108; 105; 110; 107; 58]. (* xlink: *)
Definition s_unknown_ns : list N :=
  [117; 110; 107; 110; 111; 119; 110; 95; 110; 97; 109; 101; 115; 112; 97; 99; 101; 58]. (* unknown_namespace: *)
Definition s_xmlns : list N := [120; 109; 108; 110; 115]. (* xmlns *)
Definition s_eq_quote : list N := [61; 34]. (* = QUOTE *)
Definition s_comment_open : list N := [60; 33; 45; 45]. (* <!-- *)
Definition s_comment_close : list N := [45; 45; 62]. (* --> *)
Definition s_doctype_open : list N := [60; 33; 68; 79; 67; 84; 89; 80; 69; 32]. (* <!DOCTYPE  *)
Definition s_pi_open : list N := [60; 63]. (* <? *)
Definition s_lt_slash : list N := [60; 47]. (* </ *)

Fixpoint beq_bytes (a b : list N) : bool :=
  match a, b with
  | [], [] => true
  | x :: a', y :: b' => (x =? y) && beq_bytes a' b'
  | _, _ => false
  end.
Definition mem_name (n : list N) (l : list (list N)) : bool := existsb (beq_bytes n) l.

(* ------------------------------------------------------------------ write_escaped *)
Inductive wres := WOk (out : list N) | WPanic | WFuel.

(* memchr / memchr2 / memchr3: index of the first byte satisfying p *)
Fixpoint memchr (p : N -> bool) (l : list N) : option nat :=
  match l with
  | [] => None
  | x :: t => if p x then Some O else option_map S (memchr p t)
  end.
Definition unwrap_or (o : option nat) (d : nat) : nat := match o with Some i => i | None => d end.

(* find_next_escaped_character *)
Definition find_next (attr_mode : bool) (slice : list N) : nat :=
  let maybe_quote := if attr_mode then 0x22 else 0x3C in
  let result :=
    unwrap_or (memchr (fun b => (b =? maybe_quote) || (b =? 0x3C) || (b =? 0x3E)) slice)
              (length slice) in
  unwrap_or (memchr (fun b => (b =? 0x26) || (b =? 0xC2)) (firstn result slice)) result.

(* the `while search_start < text.len()` loop; out accumulates what write_all received *)
Fixpoint we_loop (v : variant) (fuel : nat) (attr_mode : bool) (bytes : list N)
         (search_start : nat) (out : list N) : wres :=
  match fuel with
  | O => WFuel
  | S f =>
    if Nat.ltb search_start (length bytes) then
      let next_special := (find_next attr_mode (skipn search_start bytes) + search_start)%nat in
      (* &bytes[search_start..next_special] *)
      if Nat.ltb next_special search_start || Nat.ltb (length bytes) next_special then WPanic else
      let out := out ++ firstn (next_special - search_start) (skipn search_start bytes) in
      if Nat.eqb next_special (length bytes) then WOk out
      else
        let search_start := (next_special + 1)%nat in
        match nth_error bytes next_special with
        | None => WPanic
        | Some b =>
          if b =? 0x26 then we_loop v f attr_mode bytes search_start (out ++ s_amp)
          else if b =? 0x22 then we_loop v f attr_mode bytes search_start (out ++ s_quot)
          else if b =? 0x3C then we_loop v f attr_mode bytes search_start (out ++ s_lt)
          else if b =? 0x3E then we_loop v f attr_mode bytes search_start (out ++ s_gt)
          else if (b =? 0xC2) &&
                  match nth_error bytes (next_special + 1) with Some x => x =? 0xA0 | None => false end
          then we_loop v f attr_mode bytes (search_start + 1) (out ++ s_nbsp)
          else
            (* `_ => continue`: nothing is written for bytes[next_special] *)
            we_loop v f attr_mode bytes search_start (if fix_c2 v then out ++ [b] else out)
        end
    else WOk out
  end.

Definition write_escaped_impl (v : variant) (attr_mode : bool) (bytes : list N) : wres :=
  we_loop v (S (length bytes)) attr_mode bytes O [].

(* ------------------------------------------------------------------ names, trees, options *)
Inductive ns := NsHtml | NsMathml | NsSvg | NsXlink | NsXml | NsXmlns | NsNone | NsOther.
Definition ns_eqb (a b : ns) : bool :=
  match a, b with
  | NsHtml, NsHtml | NsMathml, NsMathml | NsSvg, NsSvg | NsXlink, NsXlink
  | NsXml, NsXml | NsXmlns, NsXmlns | NsNone, NsNone | NsOther, NsOther => true
  | _, _ => false
  end.
Definition qname := (ns * list N)%type.

Inductive node :=
| Document (children : list node)
| Doctype (name : list N)
| Text (contents : list N)
| Comment (contents : list N)
| Element (name : qname) (attrs : list (qname * list N)) (children : list node)
| ProcInst (target contents : list N).

Inductive scope := IncludeNode | ChildrenOnly (n : option qname).
Record opts := { scripting_enabled : bool; traversal_scope : scope; create_missing_parent : bool }.

(* ------------------------------------------------------------------ the serializer state machine *)
Record info := { html_name : option (list N); ignore_children : bool }.
Definition default_info : info := {| html_name := None; ignore_children := false |}.
Record sstate := { stack : list info; out : list N }.
Inductive sres := SOk (s : sstate) | SPanic.

(* tagname(): the local name whatever the namespace *)
Definition tagname (n : qname) : list N := snd n.

(* HtmlSerializer::new *)
Definition ser_new (v : variant) (o : opts) : sstate :=
  let hn := match traversal_scope o with
            | IncludeNode | ChildrenOnly None => None
            | ChildrenOnly (Some n) =>
              if fix_ns v then (if ns_eqb (fst n) NsHtml then Some (snd n) else None)
              else Some (tagname n)
            end in
  {| stack := [{| html_name := hn; ignore_children := false |}]; out := [] |}.

(* parent(): top of the stack, creating a default one on an empty stack if allowed *)
Definition parent (o : opts) (st : sstate) : option (info * sstate) :=
  match stack st with
  | top :: _ => Some (top, st)
  | [] => if create_missing_parent o
          then Some (default_info, {| stack := [default_info]; out := out st |})
          else None
  end.

Definition emit (st : sstate) (b : list N) : sstate := {| stack := stack st; out := out st ++ b |}.
Definition push (st : sstate) (i : info) : sstate := {| stack := i :: stack st; out := out st |}.

Definition write_escaped (v : variant) (st : sstate) (text : list N) (attr_mode : bool) : sres :=
  match write_escaped_impl v attr_mode text with
  | WOk b => SOk (emit st b)
  | _ => SPanic
  end.

Definition attr_prefix (n : qname) : list N :=
  match fst n with
  | NsNone => []
  | NsXml => s_xml_colon
  | NsXmlns => if beq_bytes (snd n) s_xmlns then [] else s_xmlns_colon
  | NsXlink => s_xlink_colon
  | _ => s_unknown_ns
  end.

Fixpoint write_attrs (v : variant) (st : sstate) (attrs : list (qname * list N)) : sres :=
  match attrs with
  | [] => SOk st
  | (name, value) :: rest =>
    let st := emit st ([0x20] ++ attr_prefix name ++ snd name ++ s_eq_quote) in
    match write_escaped v st value true with
    | SOk st => write_attrs v (emit st [0x22]) rest
    | SPanic => SPanic
    end
  end.

Definition is_void (name : qname) : bool := ns_eqb (fst name) NsHtml && mem_name (snd name) void_names.

Definition start_elem (v : variant) (o : opts) (st : sstate) (name : qname)
           (attrs : list (qname * list N)) : sres :=
  let hn := if ns_eqb (fst name) NsHtml then Some (snd name) else None in
  match parent o st with
  | None => SPanic
  | Some (p, st) =>
    if ignore_children p then SOk (push st {| html_name := hn; ignore_children := true |})
    else
      let st := emit st ([0x3C] ++ tagname name) in
      match write_attrs v st attrs with
      | SPanic => SPanic
      | SOk st =>
        let st := emit st [0x3E] in
        SOk (push st {| html_name := hn; ignore_children := is_void name |})
      end
  end.

Definition end_elem (o : opts) (st : sstate) (name : qname) : sres :=
  let popped :=
    match stack st with
    | i :: rest => Some (i, {| stack := rest; out := out st |})
    | [] => if create_missing_parent o then Some (default_info, st) else None
    end in
  match popped with
  | None => SPanic
  | Some (i, st) =>
    if ignore_children i then SOk st
    else SOk (emit st (s_lt_slash ++ tagname name ++ [0x3E]))
  end.

(* does write_text escape under this parent? *)
Definition escapes (o : opts) (p : info) : bool :=
  match html_name p with
  | Some n =>
    if mem_name n raw_names then false
    else if beq_bytes n s_noscript then negb (scripting_enabled o)
    else true
  | None => true
  end.

Definition write_text (v : variant) (o : opts) (st : sstate) (text : list N) : sres :=
  match parent o st with
  | None => SPanic
  | Some (p, st) =>
    if escapes o p then write_escaped v st text false else SOk (emit st text)
  end.

Definition write_comment (st : sstate) (text : list N) : sres :=
  SOk (emit st (s_comment_open ++ text ++ s_comment_close)).
Definition write_doctype (st : sstate) (name : list N) : sres :=
  SOk (emit st (s_doctype_open ++ name ++ [0x3E])).
Definition write_processing_instruction (st : sstate) (target data : list N) : sres :=
  SOk (emit st (s_pi_open ++ target ++ [0x20] ++ data ++ [0x3E])).

(* ------------------------------------------------------------------ rcdom: impl Serialize for SerializableHandle *)
Definition bind (r : sres) (f : sstate -> sres) : sres :=
  match r with SOk st => f st | SPanic => SPanic end.

Fixpoint visit (v : variant) (o : opts) (n : node) (st : sstate) : sres :=
  match n with
  | Element name attrs children =>
    bind (start_elem v o st name attrs) (fun st =>
    bind ((fix go (l : list node) (st : sstate) : sres :=
             match l with
             | [] => SOk st
             | c :: l' => bind (visit v o c st) (go l')
             end) children st) (fun st =>
    end_elem o st name))
  | Doctype name => write_doctype st name
  | Text contents => write_text v o st contents
  | Comment contents => write_comment st contents
  | ProcInst target contents => write_processing_instruction st target contents
  | Document _ => SPanic        (* "Can't serialize Document node itself" *)
  end.

Fixpoint visit_all (v : variant) (o : opts) (l : list node) (st : sstate) : sres :=
  match l with
  | [] => SOk st
  | c :: l' => bind (visit v o c st) (visit_all v o l')
  end.

Definition children_of (n : node) : list node :=
  match n with
  | Document c => c
  | Element _ _ c => c
  | _ => []
  end.

(* html5ever::serialize(writer, node, opts) *)
Definition ser (v : variant) (o : opts) (n : node) : sres :=
  let st := ser_new v o in
  match traversal_scope o with
  | IncludeNode => visit v o n st
  | ChildrenOnly _ => visit_all v o (children_of n) st
  end.

Definition ser_bytes (v : variant) (o : opts) (n : node) : option (list N) :=
  match ser v o n with SOk st => Some (out st) | SPanic => None end.

(* ------------------------------------------------------------------ the Serializer trait driven directly
   (any call sequence, balanced or not: exercises parent() / end_elem on an
   empty stack and create_missing_parent) *)
Inductive call :=
| CStart (name : qname) (attrs : list (qname * list N))
| CEnd (name : qname)
| CText (t : list N)
| CComment (t : list N)
| CDoctype (name : list N)
| CPI (target data : list N).

Definition do_call (v : variant) (o : opts) (st : sstate) (c : call) : sres :=
  match c with
  | CStart name attrs => start_elem v o st name attrs
  | CEnd name => end_elem o st name
  | CText t => write_text v o st t
  | CComment t => write_comment st t
  | CDoctype n => write_doctype st n
  | CPI t d => write_processing_instruction st t d
  end.

Fixpoint run_calls (v : variant) (o : opts) (cs : list call) (st : sstate) : sres :=
  match cs with
  | [] => SOk st
  | c :: cs' => bind (do_call v o st c) (run_calls v o cs')
  end.

Definition ser_calls (v : variant) (o : opts) (cs : list call) : option (list N) :=
  match run_calls v o cs (ser_new v o) with SOk st => Some (out st) | SPanic => None end.

(* ------------------------------------------------------------------ rcdom's traversal as written:
   a VecDeque of SerializeOp { Open(handle), Close(name) }, popped from the
   front; an element pushes Close(name) and then its children, in reverse, to
   the FRONT.  fuel bounds the number of pops (2 per element, 1 per other node). *)
Inductive sop := OpOpen (n : node) | OpClose (name : qname).

Fixpoint run_ops (v : variant) (o : opts) (fuel : nat) (ops : list sop) (st : sstate) : option sres :=
  match fuel with
  | O => None
  | S f =>
    match ops with
    | [] => Some (SOk st)
    | OpClose name :: rest =>
      match end_elem o st name with
      | SOk st' => run_ops v o f rest st'
      | SPanic => Some SPanic
      end
    | OpOpen n :: rest =>
      match n with
      | Element name attrs children =>
        match start_elem v o st name attrs with
        | SOk st' => run_ops v o f (map OpOpen children ++ OpClose name :: rest) st'
        | SPanic => Some SPanic
        end
      | Doctype name =>
        match write_doctype st name with SOk st' => run_ops v o f rest st' | SPanic => Some SPanic end
      | Text contents =>
        match write_text v o st contents with SOk st' => run_ops v o f rest st' | SPanic => Some SPanic end
      | Comment contents =>
        match write_comment st contents with SOk st' => run_ops v o f rest st' | SPanic => Some SPanic end
      | ProcInst target contents =>
        match write_processing_instruction st target contents with
        | SOk st' => run_ops v o f rest st'
        | SPanic => Some SPanic
        end
      | Document _ => Some SPanic
      end
    end
  end.

Fixpoint node_ops (n : node) : nat :=
  match n with
  | Element _ _ children => S (S (fold_right (fun c acc => node_ops c + acc)%nat O children))
  | Document children => S (fold_right (fun c acc => node_ops c + acc)%nat O children)
  | _ => 1%nat
  end.

Definition ser_deque (v : variant) (o : opts) (n : node) : option sres :=
  let ops := match traversal_scope o with
             | IncludeNode => [OpOpen n]
             | ChildrenOnly _ => map OpOpen (children_of n)
             end in
  run_ops v o (S (node_ops n)) ops (ser_new v o).

Definition ser_deque_bytes (v : variant) (o : opts) (n : node) : option (list N) :=
  match ser_deque v o n with Some (SOk st) => Some (out st) | _ => None end.
