(* C07 proofs.
   Part 1: the byte-position memchr loop = a structural function on the bytes
   Part 2: that function on the UTF-8 encoding of a string, character by
           character; WHATWG escaping character by character
   Part 3: escaping is reversible by the tokenizer fragment; nothing escapes
   Part 4: the ElemInfo stack machine over a tree = a recursive function of
           (parent info, node); inner = between-tags(outer) *)
From Coq Require Import List NArith Bool Arith Lia.
From HV Require Import Base.Utf8 HtmlSer.SerModel HtmlSer.SerSpec.
Import ListNotations.
Local Open Scope N_scope.

(* ------------------------------------------------------------------ lists *)
Lemma skipn_skipn {A} x : forall y (l : list A), skipn x (skipn y l) = skipn (x + y) l.
Proof.
  intros y; induction y as [|y IH]; intros l.
  - now rewrite Nat.add_0_r.
  - destruct l as [|a l]; [now rewrite !skipn_nil|].
    rewrite Nat.add_succ_r. cbn [skipn]. apply IH.
Qed.

Lemma skipn_nth_cons {A} (l : list A) p c :
  nth_error l p = Some c -> skipn p l = c :: skipn (S p) l.
Proof.
  revert p; induction l as [|x l IH]; intros [|p] H; cbn in *; try discriminate.
  - now inversion H.
  - now apply IH.
Qed.

Lemma nth_error_skipn {A} (l : list A) p k : nth_error (skipn p l) k = nth_error l (k + p).
Proof.
  revert l; induction p as [|p IH]; intros l.
  - now rewrite Nat.add_0_r.
  - destruct l as [|a l]; [now destruct k|]. rewrite Nat.add_succ_r. cbn. apply IH.
Qed.

(* ------------------------------------------------------------------ Part 1 *)
Definition p_first (attr : bool) (b : N) : bool :=
  (b =? (if attr then 0x22 else 0x3C)) || (b =? 0x3C) || (b =? 0x3E).
Definition p_second (b : N) : bool := (b =? 0x26) || (b =? 0xC2).
Definition special (attr : bool) (b : N) : bool := p_first attr b || p_second b.

Fixpoint plain_len (attr : bool) (l : list N) : nat :=
  match l with
  | [] => O
  | x :: t => if special attr x then O else S (plain_len attr t)
  end.

Lemma memchr_two_pass (p1 p2 : N -> bool) l :
  unwrap_or (memchr p2 (firstn (unwrap_or (memchr p1 l) (length l)) l))
            (unwrap_or (memchr p1 l) (length l))
  = unwrap_or (memchr (fun b => p1 b || p2 b) l) (length l).
Proof.
  induction l as [|x l IH]; [reflexivity|].
  cbn [memchr length]. destruct (p1 x) eqn:E1; cbn [orb].
  - reflexivity.
  - destruct (memchr p1 l) as [i|] eqn:Em; cbn [option_map unwrap_or] in *.
    + cbn [firstn memchr]. destruct (p2 x); [reflexivity|].
      destruct (memchr p2 (firstn i l)) as [j|] eqn:E2; cbn [option_map unwrap_or] in *.
      * destruct (memchr (fun b => p1 b || p2 b) l); cbn [option_map unwrap_or] in *; congruence.
      * destruct (memchr (fun b => p1 b || p2 b) l); cbn [option_map unwrap_or] in *; congruence.
    + cbn [firstn memchr]. destruct (p2 x); [reflexivity|].
      destruct (memchr p2 (firstn (length l) l)) as [j|] eqn:E2; cbn [option_map unwrap_or] in *.
      * destruct (memchr (fun b => p1 b || p2 b) l); cbn [option_map unwrap_or] in *; congruence.
      * destruct (memchr (fun b => p1 b || p2 b) l); cbn [option_map unwrap_or] in *; congruence.
Qed.

Lemma memchr_plain attr l :
  unwrap_or (memchr (special attr) l) (length l) = plain_len attr l.
Proof.
  induction l as [|x l IH]; [reflexivity|]. cbn [memchr plain_len length].
  destruct (special attr x); [reflexivity|].
  destruct (memchr (special attr) l); cbn [option_map unwrap_or] in *; congruence.
Qed.

Lemma find_next_plain attr l : find_next attr l = plain_len attr l.
Proof.
  unfold find_next.
  rewrite (memchr_two_pass (fun b => (b =? (if attr then 0x22 else 0x3C)) || (b =? 0x3C) || (b =? 0x3E))
                           (fun b => (b =? 0x26) || (b =? 0xC2)) l).
  apply memchr_plain.
Qed.

Lemma plain_len_le attr l : (plain_len attr l <= length l)%nat.
Proof. induction l as [|x l IH]; cbn; [lia|]. destruct (special attr x); cbn; lia. Qed.

Lemma plain_len_nth attr l : (plain_len attr l < length l)%nat ->
  exists b, nth_error l (plain_len attr l) = Some b /\ special attr b = true.
Proof.
  induction l as [|x l IH]; cbn [plain_len length]; [lia|].
  destruct (special attr x) eqn:E; intros H.
  - exists x. split; [reflexivity|exact E].
  - cbn [nth_error]. apply IH. lia.
Qed.

(* the structural function the loop computes *)
Fixpoint we_bytes (v : variant) (attr : bool) (l : list N) : list N :=
  match l with
  | [] => []
  | b :: t =>
    if special attr b then
      if b =? 0x26 then s_amp ++ we_bytes v attr t
      else if b =? 0x22 then s_quot ++ we_bytes v attr t
      else if b =? 0x3C then s_lt ++ we_bytes v attr t
      else if b =? 0x3E then s_gt ++ we_bytes v attr t
      else
        match t with
        | a :: t' =>
          if a =? 0xA0 then s_nbsp ++ we_bytes v attr t'
          else (if fix_c2 v then [b] else []) ++ we_bytes v attr t
        | [] => (if fix_c2 v then [b] else []) ++ we_bytes v attr t
        end
    else b :: we_bytes v attr t
  end.

Lemma we_bytes_plain_prefix v attr l :
  we_bytes v attr l =
  firstn (plain_len attr l) l ++ we_bytes v attr (skipn (plain_len attr l) l).
Proof.
  induction l as [|x l IH]; [reflexivity|].
  cbn [plain_len]. destruct (special attr x) eqn:E.
  - reflexivity.
  - cbn [firstn skipn app]. rewrite <- IH. cbn [we_bytes]. rewrite E. reflexivity.
Qed.

Lemma special_cases attr b : special attr b = true ->
  (b =? 0x26) = false -> (b =? 0x22) = false -> (b =? 0x3C) = false -> (b =? 0x3E) = false ->
  b = 0xC2.
Proof.
  unfold special, p_first, p_second. intros H H1 H2 H3 H4.
  rewrite H1, H3, H4 in H. destruct attr; rewrite ?H2, ?H3 in H; cbn in H; now apply N.eqb_eq in H.
Qed.

Lemma we_loop_ok v attr bytes : forall fuel pos out,
  (pos <= length bytes)%nat -> (length bytes - pos < fuel)%nat ->
  we_loop v fuel attr bytes pos out = WOk (out ++ we_bytes v attr (skipn pos bytes)).
Proof.
  induction fuel as [|f IH]; intros pos out Hp Hf; [lia|].
  cbn [we_loop].
  destruct (Nat.ltb pos (length bytes)) eqn:Hlt.
  2:{ apply Nat.ltb_ge in Hlt. rewrite skipn_all2 by lia. cbn [we_bytes]. now rewrite app_nil_r. }
  apply Nat.ltb_lt in Hlt.
  rewrite find_next_plain.
  set (l := skipn pos bytes). set (k := plain_len attr l).
  assert (Hll : length l = (length bytes - pos)%nat) by (unfold l; apply skipn_length).
  pose proof (plain_len_le attr l) as Hk. fold k in Hk.
  replace (Nat.ltb (k + pos) pos) with false by (symmetry; apply Nat.ltb_ge; lia).
  replace (Nat.ltb (length bytes) (k + pos)) with false by (symmetry; apply Nat.ltb_ge; lia).
  cbn [orb]. replace (k + pos - pos)%nat with k by lia.
  rewrite (we_bytes_plain_prefix v attr l). fold k.
  destruct (Nat.eqb (k + pos) (length bytes)) eqn:He.
  { apply Nat.eqb_eq in He. rewrite (skipn_all2 l) by lia. cbn [we_bytes]. now rewrite app_nil_r. }
  apply Nat.eqb_neq in He.
  assert (Hkl : (plain_len attr l < length l)%nat).
  { fold k. clear - Hll Hk He Hlt. clearbody k l. lia. }
  destruct (plain_len_nth attr l Hkl) as (b & Hn & Hs). fold k in Hn.
  assert (Hnb : nth_error bytes (k + pos) = Some b) by (rewrite <- nth_error_skipn; exact Hn).
  rewrite Hnb.
  assert (Hsk : skipn k l = b :: skipn (k + pos + 1) bytes).
  { rewrite (skipn_nth_cons _ _ _ Hn). f_equal. unfold l. rewrite skipn_skipn. f_equal. lia. }
  rewrite Hsk. cbn [we_bytes]. rewrite Hs.
  assert (Hnext : (k + pos + 1 <= length bytes)%nat) by lia.
  destruct (b =? 0x26) eqn:E1.
  { rewrite IH by lia. rewrite <- !app_assoc. reflexivity. }
  destruct (b =? 0x22) eqn:E2.
  { rewrite IH by lia. rewrite <- !app_assoc. reflexivity. }
  destruct (b =? 0x3C) eqn:E3.
  { rewrite IH by lia. rewrite <- !app_assoc. reflexivity. }
  destruct (b =? 0x3E) eqn:E4.
  { rewrite IH by lia. rewrite <- !app_assoc. reflexivity. }
  pose proof (special_cases attr b Hs E1 E2 E3 E4) as ->. cbn [N.eqb Pos.eqb andb].
  destruct (nth_error bytes (k + pos + 1)) as [a|] eqn:Ea.
  - rewrite (skipn_nth_cons _ _ _ Ea).
    destruct (a =? 0xA0).
    + replace (k + pos + 1 + 1)%nat with (S (k + pos + 1)) by lia. rewrite IH.
      * rewrite <- !app_assoc. reflexivity.
      * pose proof (proj1 (nth_error_Some bytes (k + pos + 1)) ltac:(congruence)). lia.
      * lia.
    + rewrite IH by lia. rewrite (skipn_nth_cons _ _ _ Ea).
      destruct (fix_c2 v); rewrite <- !app_assoc; reflexivity.
  - apply nth_error_None in Ea. rewrite IH by lia.
    rewrite (skipn_all2 bytes) by lia.
    destruct (fix_c2 v); rewrite <- !app_assoc; reflexivity.
Qed.

Theorem write_escaped_total v attr bytes :
  write_escaped_impl v attr bytes = WOk (we_bytes v attr bytes).
Proof.
  unfold write_escaped_impl. rewrite we_loop_ok by lia. reflexivity.
Qed.

(* ------------------------------------------------------------------ Part 2 *)
(* WHATWG escaping, character by character *)
Definition esc_char (attr : bool) (c : N) : list N :=
  if c =? 0x26 then r_amp
  else if c =? 0xA0 then r_nbsp
  else if c =? 0x3C then r_lt
  else if c =? 0x3E then r_gt
  else if attr && (c =? 0x22) then r_quot
  else [c].

Lemma replace_all_flat_map c by_ (f : N -> list N) s :
  replace_all c by_ (flat_map f s) = flat_map (fun x => replace_all c by_ (f x)) s.
Proof.
  unfold replace_all. induction s as [|x s IH]; [reflexivity|].
  cbn [flat_map]. rewrite flat_map_app, IH. reflexivity.
Qed.

Lemma replace_all_id c by_ s : ~ In c s -> replace_all c by_ s = s.
Proof.
  unfold replace_all. induction s as [|x s IH]; intros H; [reflexivity|].
  cbn [flat_map]. replace (x =? c) with false.
  - cbn [app]. f_equal. apply IH. intros Hc. apply H. now right.
  - symmetry. apply N.eqb_neq. intros ->. apply H. now left.
Qed.

Lemma replace_all_single c by_ x : replace_all c by_ [x] = if x =? c then by_ else [x].
Proof. unfold replace_all. cbn [flat_map]. destruct (x =? c); [apply app_nil_r|reflexivity]. Qed.

Lemma escape_one attr x : escape_spec attr [x] = esc_char attr x.
Proof.
  unfold escape_spec, esc_char. cbv zeta.
  rewrite replace_all_single.
  destruct (N.eqb_spec x 0x26) as [->|H1]; [destruct attr; reflexivity|].
  rewrite replace_all_single.
  destruct (N.eqb_spec x 0xA0) as [->|H2]; [destruct attr; reflexivity|].
  rewrite replace_all_single.
  destruct (N.eqb_spec x 0x3C) as [->|H3]; [destruct attr; reflexivity|].
  rewrite replace_all_single.
  destruct (N.eqb_spec x 0x3E) as [->|H4]; [destruct attr; reflexivity|].
  destruct attr; cbn [andb]; [|reflexivity].
  rewrite replace_all_single. reflexivity.
Qed.

Lemma escape_spec_app attr a b : escape_spec attr (a ++ b) = escape_spec attr a ++ escape_spec attr b.
Proof.
  unfold escape_spec, replace_all. cbv zeta.
  destruct attr; rewrite !flat_map_app; reflexivity.
Qed.

Theorem escape_spec_charwise attr s : escape_spec attr s = flat_map (esc_char attr) s.
Proof.
  induction s as [|x s IH]; [destruct attr; reflexivity|].
  change (x :: s) with ([x] ++ s). rewrite escape_spec_app, IH, escape_one. reflexivity.
Qed.

(* what the loop does to one character *)
Definition lost_lead (c : N) : bool := (0x80 <=? c) && (c <? 0xC0) && negb (c =? 0xA0).

Definition impl_char (v : variant) (attr : bool) (c : N) : list N :=
  if lost_lead c && negb (fix_c2 v) then [c] else encs (esc_char attr c).

Lemma special_hi attr b : 0x80 <= b -> b <> 0xC2 -> special attr b = false.
Proof.
  intros H1 H2. unfold special, p_first, p_second.
  destruct attr; repeat (apply orb_false_intro); apply N.eqb_neq; lia.
Qed.

Lemma we_bytes_plain_cons v attr b t :
  special attr b = false -> we_bytes v attr (b :: t) = b :: we_bytes v attr t.
Proof. intros H. cbn [we_bytes]. now rewrite H. Qed.

Lemma special_C2 attr : special attr 0xC2 = true.
Proof. destruct attr; reflexivity. Qed.

Lemma we_bytes_C2 v attr a t :
  we_bytes v attr (0xC2 :: a :: t) =
  if a =? 0xA0 then s_nbsp ++ we_bytes v attr t
  else (if fix_c2 v then [0xC2] else []) ++ we_bytes v attr (a :: t).
Proof. destruct attr; reflexivity. Qed.

Lemma we_bytes_enc v attr c r :
  we_bytes v attr (enc c ++ r) = impl_char v attr c ++ we_bytes v attr r.
Proof.
  unfold impl_char, lost_lead, enc.
  destruct (N.ltb_spec c 0x80) as [H1|H1].
  { (* ASCII *)
    replace (0x80 <=? c) with false by lia. cbn [andb app].
    unfold esc_char.
    destruct (N.eqb_spec c 0x26) as [->|N1]; [destruct attr; reflexivity|].
    destruct (N.eqb_spec c 0xA0) as [->|N2]; [lia|].
    destruct (N.eqb_spec c 0x3C) as [->|N3]; [destruct attr; reflexivity|].
    destruct (N.eqb_spec c 0x3E) as [->|N4]; [destruct attr; reflexivity|].
    destruct (N.eqb_spec c 0x22) as [->|N5]; [destruct attr; reflexivity|].
    rewrite andb_false_r. cbn [encs flat_map]. unfold enc. replace (c <? 0x80) with true by lia.
    cbn [app]. apply we_bytes_plain_cons.
    unfold special, p_first, p_second.
    destruct attr; repeat (apply orb_false_intro); apply N.eqb_neq; lia. }
  destruct (N.ltb_spec c 0x800) as [H2|H2].
  { destruct (N.ltb_spec c 0xC0) as [H3|H3].
    - (* the 0xC2 page *)
      replace (0xC0 + c / 64) with 0xC2 by lia.
      replace (0x80 + c mod 64) with c by lia.
      replace (0x80 <=? c) with true by lia. cbn [andb app].
      rewrite we_bytes_C2.
      destruct (N.eqb_spec c 0xA0) as [->|N2].
      + cbn [negb andb]. reflexivity.
      + cbn [negb andb].
        rewrite (we_bytes_plain_cons v attr c r) by (apply special_hi; lia).
        unfold esc_char.
        replace (c =? 0x26) with false by lia. replace (c =? 0xA0) with false by lia.
        replace (c =? 0x3C) with false by lia. replace (c =? 0x3E) with false by lia.
        replace (c =? 0x22) with false by lia. rewrite andb_false_r.
        cbn [encs flat_map]. unfold enc.
        replace (c <? 0x80) with false by lia. replace (c <? 0x800) with true by lia.
        replace (0xC0 + c / 64) with 0xC2 by lia.
        replace (0x80 + c mod 64) with c by lia.
        destruct (fix_c2 v); reflexivity.
    - replace (c <? 0xC0) with false by lia. rewrite andb_false_r. cbn [andb app].
      unfold esc_char.
      replace (c =? 0x26) with false by lia. replace (c =? 0xA0) with false by lia.
      replace (c =? 0x3C) with false by lia. replace (c =? 0x3E) with false by lia.
      replace (c =? 0x22) with false by lia. rewrite andb_false_r.
      cbn [encs flat_map]. unfold enc.
      replace (c <? 0x80) with false by lia. replace (c <? 0x800) with true by lia. cbn [app].
      rewrite !we_bytes_plain_cons; [reflexivity| |]; apply special_hi; lia. }
  replace (c <? 0xC0) with false by lia. rewrite andb_false_r. cbn [andb].
  unfold esc_char.
  replace (c =? 0x26) with false by lia. replace (c =? 0xA0) with false by lia.
  replace (c =? 0x3C) with false by lia. replace (c =? 0x3E) with false by lia.
  replace (c =? 0x22) with false by lia. rewrite andb_false_r.
  cbn [encs flat_map]. unfold enc.
  replace (c <? 0x80) with false by lia. replace (c <? 0x800) with false by lia.
  destruct (N.ltb_spec c 0x10000) as [H3|H3]; cbn [app];
    rewrite !we_bytes_plain_cons; try reflexivity; apply special_hi; lia.
Qed.

(* exact characterisation: what write_escaped writes for ANY string *)
Theorem we_bytes_encs v attr s :
  we_bytes v attr (encs s) = flat_map (impl_char v attr) s.
Proof.
  induction s as [|c s IH]; [reflexivity|].
  rewrite encs_cons, we_bytes_enc, IH. reflexivity.
Qed.

Lemma encs_flat_map (f : N -> list N) s : encs (flat_map f s) = flat_map (fun c => encs (f c)) s.
Proof.
  induction s as [|c s IH]; [reflexivity|]. cbn [flat_map]. rewrite encs_app, IH. reflexivity.
Qed.

Theorem write_escaped_exact v attr s :
  write_escaped_impl v attr (encs s) = WOk (flat_map (impl_char v attr) s).
Proof. rewrite write_escaped_total, we_bytes_encs. reflexivity. Qed.

(* the repaired loop is WHATWG escaping, for every string *)
Theorem escape_impl_spec_repaired v attr s : fix_c2 v = true ->
  write_escaped_impl v attr (encs s) = WOk (encs (escape_spec attr s)).
Proof.
  intros Hv. rewrite write_escaped_exact, escape_spec_charwise, encs_flat_map. f_equal.
  apply flat_map_ext. intros c. unfold impl_char. rewrite Hv. now rewrite andb_false_r.
Qed.

(* the loop as it is: WHATWG escaping outside the class U+0080..U+00BF \ {U+00A0} *)
Theorem escape_impl_spec_outside v attr s :
  Forall (fun c => lost_lead c = false) s ->
  write_escaped_impl v attr (encs s) = WOk (encs (escape_spec attr s)).
Proof.
  intros Hs. rewrite write_escaped_exact, escape_spec_charwise, encs_flat_map. f_equal.
  induction Hs as [|c s Hc Hs IH]; [reflexivity|]. cbn [flat_map]. rewrite IH. f_equal.
  unfold impl_char. now rewrite Hc.
Qed.

(* ... and false inside it: the copyright sign loses its lead byte *)
Theorem escape_impl_spec_refuted :
  exists s attr, scalars s /\
    write_escaped_impl as_is attr (encs s) <> WOk (encs (escape_spec attr s)).
Proof.
  exists [0xA9], false. split; [repeat constructor|]. vm_compute. discriminate.
Qed.

(* every character of the class is hit, in both modes: exactly the lead byte is lost *)
Theorem escape_impl_loses_exactly_the_lead_byte attr c : lost_lead c = true ->
  write_escaped_impl as_is attr (encs [c]) = WOk [c] /\ encs (escape_spec attr [c]) = [0xC2; c].
Proof.
  intros H. split.
  - rewrite write_escaped_exact. cbn [flat_map]. unfold impl_char. rewrite H. reflexivity.
  - rewrite escape_one. unfold lost_lead in H. unfold esc_char.
    replace (c =? 0x26) with false by lia. replace (c =? 0xA0) with false by lia.
    replace (c =? 0x3C) with false by lia. replace (c =? 0x3E) with false by lia.
    replace (c =? 0x22) with false by lia. rewrite andb_false_r.
    cbn [encs flat_map]. unfold enc.
    replace (c <? 0x80) with false by lia. replace (c <? 0x800) with true by lia.
    replace (0xC0 + c / 64) with 0xC2 by lia. replace (0x80 + c mod 64) with c by lia. reflexivity.
Qed.

(* ------------------------------------------------------------------ Part 3 *)
Lemma untok_esc_char attr c r :
  c <> 0 -> c <> 0x0D ->
  untok attr UData (esc_char attr c ++ r) = option_map (cons c) (untok attr UData r).
Proof.
  intros H0 HD. unfold esc_char.
  destruct (N.eqb_spec c 0x26) as [->|N1]; [reflexivity|].
  destruct (N.eqb_spec c 0xA0) as [->|N2]; [reflexivity|].
  destruct (N.eqb_spec c 0x3C) as [->|N3]; [reflexivity|].
  destruct (N.eqb_spec c 0x3E) as [->|N4]; [reflexivity|].
  destruct (N.eqb_spec c 0x22) as [->|N5].
  - destruct attr; reflexivity.
  - rewrite andb_false_r. cbn [app untok].
    replace (c =? 0x26) with false by (symmetry; now apply N.eqb_neq).
    replace (c =? 0x3C) with false by (symmetry; now apply N.eqb_neq).
    replace (c =? 0x22) with false by (symmetry; now apply N.eqb_neq).
    replace (c =? 0) with false by (symmetry; now apply N.eqb_neq).
    replace (c =? 0x0D) with false by (symmetry; now apply N.eqb_neq).
    rewrite !andb_false_r. reflexivity.
Qed.

(* for every string free of CR and NUL: reading the escaped string back in its
   context (Data state / double-quoted attribute value) consumes all of it
   and yields the original string *)
Theorem escape_reversible attr s :
  ~ In 0 s -> ~ In 0x0D s -> unescape attr (escape_spec attr s) = Some s.
Proof.
  unfold unescape. rewrite escape_spec_charwise.
  induction s as [|c s IH]; intros H0 HD; [reflexivity|].
  cbn [flat_map]. rewrite untok_esc_char.
  - rewrite IH; [reflexivity| |]; intros Hc; [apply H0|apply HD]; now right.
  - intros ->. apply H0. now left.
  - intros ->. apply HD. now left.
Qed.

Lemma esc_char_free attr c x :
  (x = 0x3C \/ x = 0x3E \/ (attr = true /\ x = 0x22)) -> ~ In x (esc_char attr c).
Proof.
  intros Hx. unfold esc_char.
  destruct (N.eqb_spec c 0x26); [cbn; intuition (subst; try discriminate; try lia)|].
  destruct (N.eqb_spec c 0xA0); [cbn; intuition (subst; try discriminate; try lia)|].
  destruct (N.eqb_spec c 0x3C); [cbn; intuition (subst; try discriminate; try lia)|].
  destruct (N.eqb_spec c 0x3E); [cbn; intuition (subst; try discriminate; try lia)|].
  destruct attr; cbn [andb].
  - destruct (N.eqb_spec c 0x22); [cbn; intuition (subst; try discriminate; try lia)|].
    cbn. intuition (subst; try discriminate; congruence).
  - cbn. intuition (subst; try discriminate; congruence).
Qed.

(* nothing can terminate its context: no raw < or > in either mode, no raw
   QUOTATION MARK in attribute mode *)
Theorem escape_no_raw_delimiter attr s x :
  (x = 0x3C \/ x = 0x3E \/ (attr = true /\ x = 0x22)) -> ~ In x (escape_spec attr s).
Proof.
  intros Hx. rewrite escape_spec_charwise. intros Hin.
  apply in_flat_map in Hin. destruct Hin as (c & _ & Hc).
  exact (esc_char_free attr c x Hx Hc).
Qed.

(* ------------------------------------------------------------------ Part 4 *)
Lemma node_ind' (P : node -> Prop) :
  (forall ch, Forall P ch -> P (Document ch)) ->
  (forall name, P (Doctype name)) ->
  (forall t, P (Text t)) ->
  (forall t, P (Comment t)) ->
  (forall name attrs ch, Forall P ch -> P (Element name attrs ch)) ->
  (forall t d, P (ProcInst t d)) ->
  forall n, P n.
Proof.
  intros HD HT HX HC HE HP.
  fix IH 1. intros [ch|name|t|t|name attrs ch|t d].
  - apply HD. induction ch as [|c ch IHch]; constructor; [apply IH|exact IHch].
  - apply HT.
  - apply HX.
  - apply HC.
  - apply HE. induction ch as [|c ch IHch]; constructor; [apply IH|exact IHch].
  - apply HP.
Qed.

Fixpoint doc_free (n : node) : bool :=
  match n with
  | Document _ => false
  | Element _ _ ch => forallb doc_free ch
  | _ => true
  end.

Definition escapes_s (scripting : bool) (p : info) : bool :=
  match html_name p with
  | Some n =>
    if mem_name n raw_names then false
    else if beq_bytes n s_noscript then negb scripting
    else true
  | None => true
  end.

Lemma escapes_same o p : escapes o p = escapes_s (scripting_enabled o) p.
Proof. reflexivity. Qed.

Definition html_name_of (name : qname) : option (list N) :=
  if ns_eqb (fst name) NsHtml then Some (snd name) else None.
Definition info_of (name : qname) : info :=
  {| html_name := html_name_of name; ignore_children := is_void name |}.
Definition child_info (top : info) (name : qname) : info :=
  if ignore_children top then {| html_name := html_name_of name; ignore_children := true |}
  else info_of name.

Definition attr_bytes (v : variant) (a : qname * list N) : list N :=
  [0x20] ++ attr_prefix (fst a) ++ snd (fst a) ++ s_eq_quote ++ we_bytes v true (snd a) ++ [0x22].
Definition start_tag (v : variant) (name : qname) (attrs : list (qname * list N)) : list N :=
  [0x3C] ++ tagname name ++ flat_map (attr_bytes v) attrs ++ [0x3E].
Definition end_tag (name : qname) : list N := s_lt_slash ++ tagname name ++ [0x3E].

(* what the traversal of one node writes, as a function of the ElemInfo on
   top of the stack *)
Fixpoint node_bytes (v : variant) (scripting : bool) (top : info) (n : node) : list N :=
  match n with
  | Element name attrs ch =>
    let inner := concat (map (node_bytes v scripting (child_info top name)) ch) in
    if ignore_children top then inner
    else start_tag v name attrs ++ inner ++ (if is_void name then [] else end_tag name)
  | Text t => if escapes_s scripting top then we_bytes v false t else t
  | Comment t => s_comment_open ++ t ++ s_comment_close
  | Doctype name => s_doctype_open ++ name ++ [0x3E]
  | ProcInst t d => s_pi_open ++ t ++ [0x20] ++ d ++ [0x3E]
  | Document _ => []
  end.

Definition mk (stk : list info) (o : list N) : sstate := {| stack := stk; out := o |}.

Lemma write_escaped_ok v stk o text m :
  write_escaped v (mk stk o) text m = SOk (mk stk (o ++ we_bytes v m text)).
Proof. unfold write_escaped. rewrite write_escaped_total. reflexivity. Qed.

Lemma write_attrs_ok v attrs : forall stk o,
  write_attrs v (mk stk o) attrs = SOk (mk stk (o ++ flat_map (attr_bytes v) attrs)).
Proof.
  induction attrs as [|[name value] attrs IH]; intros stk o.
  - cbn. now rewrite app_nil_r.
  - cbn [write_attrs]. unfold emit. cbn [stack out].
    change {| stack := stk; out := ?x |} with (mk stk x).
    rewrite write_escaped_ok. unfold emit. cbn [stack out mk].
    change {| stack := stk; out := ?x |} with (mk stk x).
    rewrite IH. cbn [flat_map]. unfold attr_bytes at 2. cbn [fst snd].
    f_equal. f_equal. rewrite <- !app_assoc. reflexivity.
Qed.

Lemma visit_element v o name attrs ch st :
  visit v o (Element name attrs ch) st =
  bind (start_elem v o st name attrs) (fun st =>
  bind (visit_all v o ch st) (fun st => end_elem o st name)).
Proof.
  cbn [visit]. destruct (start_elem v o st name attrs) as [st'|]; [|reflexivity].
  cbn [bind]. f_equal.
  generalize st'. induction ch as [|c ch IH]; intros s; [reflexivity|].
  cbn [visit_all]. destruct (visit v o c s); [|reflexivity]. cbn [bind]. apply IH.
Qed.

Lemma visit_ok v o : forall n, doc_free n = true -> forall top rest acc,
  visit v o n (mk (top :: rest) acc) =
  SOk (mk (top :: rest) (acc ++ node_bytes v (scripting_enabled o) top n)).
Proof.
  induction n as [ch _|name|t|t|name attrs ch IHch|t d] using node_ind'; intros Hdf top rest acc.
  - discriminate.
  - reflexivity.
  - cbn [visit node_bytes]. unfold write_text, parent. cbn [stack mk].
    rewrite escapes_same. destruct (escapes_s (scripting_enabled o) top).
    + apply write_escaped_ok.
    + reflexivity.
  - cbn [visit node_bytes]. unfold write_comment, emit. reflexivity.
  - rewrite visit_element. cbn [doc_free] in Hdf.
    assert (Hall : forall ci stk acc0,
      visit_all v o ch (mk (ci :: stk) acc0) =
      SOk (mk (ci :: stk) (acc0 ++ concat (map (node_bytes v (scripting_enabled o) ci) ch)))).
    { clear - IHch Hdf. induction ch as [|c ch IH]; intros ci stk acc0.
      - cbn. now rewrite app_nil_r.
      - cbn [forallb] in Hdf. apply andb_prop in Hdf. destruct Hdf as [Hc Hch].
        inversion IHch as [|? ? Pc Pch]; subst.
        cbn [visit_all]. rewrite (Pc Hc). cbn [bind]. rewrite (IH Pch Hch).
        cbn [map concat]. now rewrite <- app_assoc. }
    unfold start_elem, parent. cbn [stack mk]. cbn [node_bytes]. unfold child_info.
    destruct (ignore_children top) eqn:Eig.
    + cbn [bind]. unfold push. cbn [stack out mk].
      change {| stack := ?s; out := ?x |} with (mk s x).
      rewrite Hall. cbn [bind]. unfold end_elem. cbn [stack out mk ignore_children]. reflexivity.
    + unfold emit. cbn [stack out mk].
      change {| stack := ?s; out := ?x |} with (mk s x).
      rewrite write_attrs_ok. unfold emit, push. cbn [stack out mk bind].
      change {| stack := ?s; out := ?x |} with (mk s x).
      rewrite Hall. cbn [bind]. unfold end_elem. cbn [stack out mk]. unfold info_of. cbn [ignore_children].
      destruct (is_void name).
      * unfold mk. f_equal. f_equal. unfold start_tag. rewrite app_nil_r, <- !app_assoc. reflexivity.
      * unfold emit, mk. cbn [stack out]. f_equal. f_equal. unfold start_tag, end_tag.
        rewrite <- !app_assoc. reflexivity.
  - reflexivity.
Qed.

Lemma visit_all_ok v o ch : forallb doc_free ch = true -> forall top rest acc,
  visit_all v o ch (mk (top :: rest) acc) =
  SOk (mk (top :: rest) (acc ++ concat (map (node_bytes v (scripting_enabled o) top) ch))).
Proof.
  induction ch as [|c ch IH]; intros Hdf top rest acc.
  - cbn. now rewrite app_nil_r.
  - cbn [forallb] in Hdf. apply andb_prop in Hdf. destruct Hdf as [Hc Hch].
    cbn [visit_all]. rewrite (visit_ok v o c Hc). cbn [bind]. rewrite (IH Hch).
    cbn [map concat]. now rewrite <- app_assoc.
Qed.

(* the initial parent of HtmlSerializer::new *)
Definition init_info (v : variant) (sc : scope) : info :=
  {| html_name :=
       match sc with
       | IncludeNode | ChildrenOnly None => None
       | ChildrenOnly (Some n) =>
         if fix_ns v then (if ns_eqb (fst n) NsHtml then Some (snd n) else None) else Some (tagname n)
       end;
     ignore_children := false |}.

Definition with_scope (o : opts) (sc : scope) : opts :=
  {| scripting_enabled := scripting_enabled o; traversal_scope := sc;
     create_missing_parent := create_missing_parent o |}.

Theorem ser_include_node v o n : doc_free n = true ->
  ser_bytes v (with_scope o IncludeNode) n =
  Some (node_bytes v (scripting_enabled o) (init_info v IncludeNode) n).
Proof.
  intros H. unfold ser_bytes, ser. cbn [traversal_scope with_scope].
  unfold ser_new. cbn [traversal_scope].
  change {| stack := [?i]; out := [] |} with (mk [i] []).
  rewrite (visit_ok v _ n H). reflexivity.
Qed.

Theorem ser_children_only v o x n : forallb doc_free (children_of n) = true ->
  ser_bytes v (with_scope o (ChildrenOnly x)) n =
  Some (concat (map (node_bytes v (scripting_enabled o) (init_info v (ChildrenOnly x))) (children_of n))).
Proof.
  intros H. unfold ser_bytes, ser. cbn [traversal_scope with_scope].
  unfold ser_new. cbn [traversal_scope].
  change {| stack := [?i]; out := [] |} with (mk [i] []).
  rewrite (visit_all_ok v _ _ H). reflexivity.
Qed.

(* a node's bytes depend on the parent info only through the escaping decision
   (text) and the ignore_children flag (elements) *)
Definition is_text (n : node) : bool := match n with Text _ => true | _ => false end.
Definition is_elem (n : node) : bool := match n with Element _ _ _ => true | _ => false end.

Lemma node_bytes_parent v scr A B n :
  (is_text n = true -> escapes_s scr A = escapes_s scr B) ->
  (is_elem n = true -> ignore_children A = ignore_children B) ->
  node_bytes v scr A n = node_bytes v scr B n.
Proof.
  intros Ht He. destruct n as [ch|name|t|t|name attrs ch|t d]; try reflexivity.
  - cbn [node_bytes]. now rewrite (Ht eq_refl).
  - cbn [node_bytes]. unfold child_info. now rewrite (He eq_refl).
Qed.

Definition raw_parent (scr : bool) (local : list N) : bool :=
  negb (escapes_s scr {| html_name := Some local; ignore_children := false |}).

(* inner = between-tags(outer).  Hypotheses:
   - the parent name is understood the same way by both calls: repaired
     variant, or an HTML element, or a name that is not a raw-text name, or no
     text child at all;
   - a void HTML element has no element child (the parser never creates one) *)
Theorem inner_outer v o name attrs ch :
  forallb doc_free ch = true ->
  (fix_ns v = true \/ ns_eqb (fst name) NsHtml = true \/
   raw_parent (scripting_enabled o) (snd name) = false \/ existsb is_text ch = false) ->
  (is_void name = true -> existsb is_elem ch = false) ->
  exists inner,
    ser_bytes v (with_scope o (ChildrenOnly (Some name))) (Element name attrs ch) = Some inner /\
    ser_bytes v (with_scope o IncludeNode) (Element name attrs ch) =
      Some (start_tag v name attrs ++ inner ++ (if is_void name then [] else end_tag name)).
Proof.
  intros Hdf Hname Hvoid.
  rewrite ser_children_only by exact Hdf.
  rewrite ser_include_node by exact Hdf.
  eexists. split; [reflexivity|].
  cbn [node_bytes children_of]. unfold child_info.
  change (ignore_children (init_info v IncludeNode)) with false. cbv iota.
  do 4 f_equal.
  apply map_ext_in. intros c Hc.
  apply node_bytes_parent.
  - intros Ht. unfold info_of, init_info, escapes_s, html_name_of. cbn [html_name].
    destruct Hname as [Hv|[Hh|[Hr|Hn]]].
    + rewrite Hv. reflexivity.
    + rewrite Hh. destruct (fix_ns v); reflexivity.
    + destruct (fix_ns v); [reflexivity|].
      destruct (ns_eqb (fst name) NsHtml); [reflexivity|].
      unfold raw_parent, escapes_s in Hr. cbn [html_name] in Hr. unfold tagname.
      apply negb_false_iff in Hr. now rewrite Hr.
    + exfalso. assert (existsb is_text ch = true) by (apply existsb_exists; eauto). congruence.
  - intros He. unfold info_of, init_info. cbn [ignore_children].
    destruct (is_void name) eqn:Ev; [|reflexivity].
    exfalso. assert (existsb is_elem ch = true) by (apply existsb_exists; eauto).
    rewrite (Hvoid eq_refl) in H. discriminate.
Qed.

(* the code as it is: an SVG style element whose text contains < *)
Theorem inner_outer_refuted :
  exists name attrs ch o inner,
    forallb doc_free ch = true /\ is_void name = false /\
    ser_bytes as_is (with_scope o (ChildrenOnly (Some name))) (Element name attrs ch) = Some inner /\
    ser_bytes as_is (with_scope o IncludeNode) (Element name attrs ch) <>
      Some (start_tag as_is name attrs ++ inner ++ end_tag name).
Proof.
  exists (NsSvg, [115; 116; 121; 108; 101]), [], [Text [97; 60; 98]],
         {| scripting_enabled := true; traversal_scope := IncludeNode; create_missing_parent := false |},
         [97; 60; 98].
  repeat split; try reflexivity. vm_compute. discriminate.
Qed.

(* text is left unescaped only under the HTML raw-text elements: in an
   element's own serialization a text child is written raw iff the element is
   in the HTML namespace and is one of style script xmp iframe noembed
   noframes plaintext, or noscript with scripting enabled *)
Theorem text_raw_only_under_html_raw_text v scr name t :
  node_bytes v scr (info_of name) (Text t) =
  if ns_eqb (fst name) NsHtml && raw_parent scr (snd name) then t else we_bytes v false t.
Proof.
  cbn [node_bytes]. unfold info_of, escapes_s, raw_parent, escapes_s, html_name_of. cbn [html_name].
  destruct (ns_eqb (fst name) NsHtml); cbn [andb]; [|reflexivity].
  destruct (mem_name (snd name) raw_names); [reflexivity|].
  destruct (beq_bytes (snd name) s_noscript); [destruct scr; reflexivity|reflexivity].
Qed.

Corollary inner_outer_repaired v o name attrs ch :
  fix_ns v = true ->
  forallb doc_free ch = true ->
  (is_void name = true -> existsb is_elem ch = false) ->
  exists inner,
    ser_bytes v (with_scope o (ChildrenOnly (Some name))) (Element name attrs ch) = Some inner /\
    ser_bytes v (with_scope o IncludeNode) (Element name attrs ch) =
      Some (start_tag v name attrs ++ inner ++ (if is_void name then [] else end_tag name)).
Proof. intros Hv Hdf Hvoid. apply inner_outer; auto. Qed.

(* no call sequence issued by the rcdom traversal makes the serializer panic *)
Corollary ser_no_panic v o sc n :
  match sc with IncludeNode => doc_free n | ChildrenOnly _ => forallb doc_free (children_of n) end = true ->
  ser_bytes v (with_scope o sc) n <> None.
Proof.
  destruct sc as [|x]; intros H.
  - rewrite ser_include_node by exact H. discriminate.
  - rewrite ser_children_only by exact H. discriminate.
Qed.

(* ------------------------------------------------------------------ tests
   (vm_compute over samples: tests, not proofs) *)
Example test_escape_cases :
  write_escaped_impl as_is false [97; 38; 60; 62; 34; 0xC2; 0xA0; 98] =
    WOk ([97] ++ s_amp ++ s_lt ++ s_gt ++ [34] ++ s_nbsp ++ [98]) /\
  write_escaped_impl as_is true [34; 60] = WOk (s_quot ++ s_lt) /\
  write_escaped_impl as_is false [0xC2; 0xA9; 0xC3; 0xA9] = WOk [0xA9; 0xC3; 0xA9] /\
  write_escaped_impl repaired false [0xC2; 0xA9; 0xC3; 0xA9] = WOk [0xC2; 0xA9; 0xC3; 0xA9] /\
  write_escaped_impl as_is false [0xC2] = WOk [].
Proof. repeat split; vm_compute; reflexivity. Qed.

Example test_unescape_leaves_context :
  unescape false [97; 60; 98] = None /\ unescape true [97; 34] = None /\
  unescape false [38; 120; 59] = None /\ unescape true [60; 38; 113; 117; 111; 116; 59] = Some [60; 34].
Proof. repeat split; vm_compute; reflexivity. Qed.

(* ------------------------------------------------------------------ rcdom's deque of SerializeOp = the recursive traversal *)
Definition ops_sum (ch : list node) : nat := fold_right (fun c acc => node_ops c + acc)%nat O ch.

Definition after (r : sres) (k : sstate -> option sres) : option sres :=
  match r with SOk st => k st | SPanic => Some SPanic end.

Definition open_ok (v : variant) (o : opts) (n : node) : Prop :=
  forall fuel rest st, (node_ops n <= fuel)%nat ->
  run_ops v o fuel (OpOpen n :: rest) st =
  after (visit v o n st) (fun st' => run_ops v o (fuel - node_ops n) rest st').

Lemma run_ops_children v o ch : Forall (open_ok v o) ch ->
  forall fuel more st, (ops_sum ch <= fuel)%nat ->
  run_ops v o fuel (map OpOpen ch ++ more) st =
  after (visit_all v o ch st) (fun st' => run_ops v o (fuel - ops_sum ch) more st').
Proof.
  induction 1 as [|c ch Hc Hch IH]; intros fuel more st Hf.
  - cbn. now rewrite Nat.sub_0_r.
  - cbn [map app visit_all ops_sum fold_right] in *. fold (ops_sum ch) in *.
    rewrite Hc by lia. destruct (visit v o c st) as [st'|]; cbn [after bind]; [|reflexivity].
    rewrite IH by lia. destruct (visit_all v o ch st'); cbn [after]; [|reflexivity].
    f_equal. lia.
Qed.

Lemma run_ops_open v o : forall n, open_ok v o n.
Proof.
  induction n as [ch _|name|t|t|name attrs ch IHch|t d] using node_ind'; intros fuel rest st Hf.
  - destruct fuel; [cbn in Hf; lia|]. reflexivity.
  - destruct fuel; [cbn in Hf; lia|]. cbn [run_ops visit node_ops after]. unfold write_doctype.
    cbn [after]. now rewrite Nat.sub_succ, Nat.sub_0_r.
  - destruct fuel; [cbn in Hf; lia|]. cbn [run_ops visit node_ops].
    destruct (write_text v o st t); cbn [after]; [now rewrite Nat.sub_succ, Nat.sub_0_r|reflexivity].
  - destruct fuel; [cbn in Hf; lia|]. cbn [run_ops visit node_ops after]. unfold write_comment.
    cbn [after]. now rewrite Nat.sub_succ, Nat.sub_0_r.
  - rewrite visit_element. cbn [node_ops] in *. fold (ops_sum ch) in *.
    destruct fuel as [|f]; [lia|]. cbn [run_ops].
    destruct (start_elem v o st name attrs) as [st1|]; cbn [bind after]; [|reflexivity].
    rewrite (run_ops_children v o ch IHch) by lia.
    destruct (visit_all v o ch st1) as [st2|]; cbn [bind after]; [|reflexivity].
    destruct (f - ops_sum ch)%nat as [|g] eqn:Eg; [lia|]. cbn [run_ops].
    destruct (end_elem o st2 name); cbn [after]; [|reflexivity].
    f_equal. lia.
  - destruct fuel; [cbn in Hf; lia|]. cbn [run_ops visit node_ops after].
    unfold write_processing_instruction. cbn [after]. now rewrite Nat.sub_succ, Nat.sub_0_r.
Qed.

Lemma ops_sum_children n : (ops_sum (children_of n) <= node_ops n)%nat.
Proof. destruct n; cbn [children_of node_ops ops_sum fold_right]; fold ops_sum; try lia; unfold ops_sum; lia. Qed.

Theorem ser_deque_is_ser v o n : ser_deque v o n = Some (ser v o n).
Proof.
  unfold ser_deque, ser. destruct (traversal_scope o) as [|x].
  - rewrite (run_ops_open v o n) by lia.
    destruct (visit v o n (ser_new v o)); cbn [after]; [|reflexivity].
    replace (S (node_ops n) - node_ops n)%nat with 1%nat by lia. reflexivity.
  - rewrite <- (app_nil_r (map OpOpen (children_of n))).
    pose proof (ops_sum_children n) as Hs.
    rewrite (run_ops_children v o (children_of n)); [| |lia].
    + destruct (visit_all v o (children_of n) (ser_new v o)); cbn [after]; [|reflexivity].
      destruct (S (node_ops n) - ops_sum (children_of n))%nat eqn:E; [lia|]. reflexivity.
    + apply Forall_forall. intros c _. apply run_ops_open.
Qed.

Corollary ser_deque_bytes_is_ser_bytes v o n : ser_deque_bytes v o n = ser_bytes v o n.
Proof. unfold ser_deque_bytes, ser_bytes. rewrite ser_deque_is_ser. reflexivity. Qed.
