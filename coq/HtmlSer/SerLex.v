(* C07: reading escaped text back with the REAL tokenizer model - generic part.
   The reference semantics of the TokIR interpreter (flat queue, exact_errors = true) is run on a string that is the
   character-wise image [flat_map esc t] of a string t.  Given, for one character, that the tokenizer consumes [esc c] inside
   its context (Data state or an attribute-value state) and delivers exactly c - [Hchar], proved per table by computation
   and by the bulk-state lemmas of TokIR/BulkSim.v in Inst/InstSerLex.v - the same follows for whole strings: the machine
   stays in the state, its configuration changes in current_char, line and (attribute mode) attr_value only, and the
   tokens delivered are, up to [obs] (parse errors dropped, adjacent character tokens merged), one character token with
   text t (text mode) or nothing (attribute mode: t is appended to the attribute value). *)
From Coq Require Import List NArith Bool Lia Arith.
From RecordUpdate Require Import RecordSet.
From HV Require Import TokIR.IR TokIR.Interp TokIR.Checks TokIR.BulkSim.
Import ListNotations RecordSetNotations.
Local Open Scope N_scope.

Definition setclv {S} (a l : N) (v : str) (c : cfg S) : cfg S := c <| cur := a |> <| line := l |> <| attr_value := v |>.
Lemma setclv_id {S} (c : cfg S) : setclv (cur c) (line c) (attr_value c) c = c.
Proof. destruct c; reflexivity. Qed.
Lemma setclv_setclv {S} a l v a' l' v' (c : cfg S) : setclv a' l' v' (setclv a l v c) = setclv a' l' v' c.
Proof. destruct c; reflexivity. Qed.
Lemma setclv_av {S} a l v (c : cfg S) : attr_value (setclv a l v c) = v.
Proof. destruct c; reflexivity. Qed.
Lemma setclv_frame {S} a l v (c : cfg S) :
  st (setclv a l v c) = st c /\ cref (setclv a l v c) = cref c /\ reconsume (setclv a l v c) = reconsume c /\
  ignore_lf (setclv a l v c) = ignore_lf c.
Proof. destruct c; repeat split; reflexivity. Qed.

Section Lex.
Context {S : Type}.
Variable fl : flavour S.
Variable tb : table S.
Variable simd : list N * list N * list N.
Variable ent : list N -> option (N * N).
Variable c1 : N -> option N.
Variable sk : sinkcfg.

Notation M := (mach S (list N)).
Notation stepX := (step [] fq_next fq_peek (@app N) (fun q => q) fq_run1 fl true tb simd ent c1 sk).
Notation runX := (run [] fq_next fq_peek (@app N) (fun q => q) fq_run1 fl true tb simd ent c1 sk).
Notation feedX := (feed [] fq_next fq_peek (@app N) (fun q => q) fq_run1 fl true tb simd ent c1 sk).
Notation tok_endX := (tok_end [] fq_next fq_peek (@app N) (fun q => q) fq_run1 fl true tb simd ent c1 sk).
Notation feed_loopX := (feed_loop [] fq_next fq_peek (@app N) (fun q => q) fq_run1 fl true tb simd ent c1 sk).

(* n steps, each of which asks to continue *)
Fixpoint iter (n : nat) (m : M) : option M :=
  match n with
  | O => Some m
  | Datatypes.S n' => match stepX false m with (m', SContinue) => iter n' m' | _ => None end
  end.
Lemma iter_add a : forall b m, iter (a + b) m = match iter a m with Some m' => iter b m' | None => None end.
Proof.
  induction a as [|a IH]; intros b m; [reflexivity|]. cbn [Nat.add iter].
  destruct (stepX false m) as [m' r]. destruct r; try reflexivity. apply IH.
Qed.
Lemma iter_trans a b m m' m'' : iter a m = Some m' -> iter b m' = Some m'' -> iter (a + b) m = Some m''.
Proof. intros H1 H2. rewrite iter_add, H1. exact H2. Qed.
Lemma run_iter n : forall m m', iter n m = Some m' -> forall j, runX false (n + j) m = runX false j m'.
Proof.
  induction n as [|n IH]; intros m m' H j; cbn [iter] in H.
  - injection H as <-. reflexivity.
  - cbn [Nat.add run]. destruct (stepX false m) as [m1 r]. destruct r; try discriminate H. apply IH. exact H.
Qed.

(* feed on a non-empty queue with the BOM flag clear is the run loop *)
Lemma feed_nonempty fuel (m : M) : mq m <> [] -> discard_bom (mc m) = false -> feedX fuel m = runX false fuel m.
Proof.
  intros Hq Hb. unfold feed. destruct (mq m) as [|c q]; [congruence|]. cbn [fq_peek]. rewrite Hb. reflexivity.
Qed.
Lemma feed_empty fuel (m : M) : mq m = [] -> feedX fuel m = (m, SSuspend).
Proof. intros Hq. unfold feed. rewrite Hq. reflexivity. Qed.
(* one chunk, a feed that suspends (more input wanted), then end() *)
Lemma feed_loop_S n fuel inj (m : M) log :
  feed_loopX (Datatypes.S n) fuel inj m log =
  match feedX fuel m with
  | (m', SScript) => feed_loopX n fuel inj (m' <| mq ::= app inj |>) (SScript :: log)
  | (m', SEncoding) => feed_loopX n fuel inj m' (SEncoding :: log)
  | (m', r) => (m', r :: log)
  end.
Proof. reflexivity. Qed.
Lemma drive_one fuel inj input (m0 m2 m3 : M) r :
  feedX fuel (m0 <| mq ::= (fun q => q ++ input) |>) = (m2, SSuspend) -> tok_endX fuel m2 = (m3, r) ->
  drive_flat fl true tb simd ent c1 sk fuel inj [input] m0 [] = (m3, [r; SSuspend]).
Proof.
  intros H1 H2. unfold drive_flat. cbn [drive]. change 50%nat with (Datatypes.S 49). rewrite feed_loop_S, H1, H2. reflexivity.
Qed.

(* ---------------------------------------------------------------- the context and what a string does to it *)
Variable s0 : S.            (* the state of the context *)
Variable am : bool.         (* attribute mode: characters go to attr_value; otherwise they are emitted *)
Variable esc : N -> list N.
Variable okc : N -> Prop.

Definition St (m : M) : Prop :=
  st (mc m) = s0 /\ cref (mc m) = None /\ reconsume (mc m) = false /\ ignore_lf (mc m) = false.
Definition EffS (t : list N) (m m' : M) : Prop :=
  (exists a l, mc m' = setclv a l (if am then attr_value (mc m) ++ t else attr_value (mc m)) (mc m)) /\
  (if am then obs (mout m') = obs (mout m)
   else exists ln k, obs (mout m') = match t with [] => obs (mout m) | _ => ocons (TChars t, ln, k) (obs (mout m)) end).

Lemma EffS_St t m m' : EffS t m m' -> St m -> St m'.
Proof.
  intros [(a & l & E) _] (A & B & C & D). unfold St. rewrite E.
  destruct (setclv_frame a l (if am then attr_value (mc m) ++ t else attr_value (mc m)) (mc m)) as (F1 & F2 & F3 & F4).
  rewrite F1, F2, F3, F4. auto.
Qed.
Lemma EffS_nil m : EffS [] m m.
Proof.
  split.
  - exists (cur (mc m)), (line (mc m)). destruct am; rewrite ?app_nil_r; symmetry; apply setclv_id.
  - destruct am; [reflexivity|]. exists 0, 0. reflexivity.
Qed.
Lemma EffS_cons c t m m1 m' : EffS [c] m m1 -> EffS t m1 m' -> EffS (c :: t) m m'.
Proof.
  intros [(a & l & E1) O1] [(a' & l' & E2) O2]. split.
  - exists a', l'. rewrite E2, E1, setclv_setclv, setclv_av. destruct am; [|reflexivity].
    rewrite <- app_assoc. reflexivity.
  - destruct am; [congruence|]. destruct O1 as (ln1 & k1 & O1). destruct O2 as (ln2 & k2 & O2).
    destruct t as [|d t].
    + exists ln1, k1. rewrite O2. exact O1.
    + exists ln2, k2. rewrite O2, O1. apply (ocons_chars_chars [c] (d :: t)).
Qed.

(* one character of the string: its image is consumed inside the context, whatever character follows *)
Hypothesis Hchar : forall c x q (m : M), okc c -> St m -> mq m = esc c ++ x :: q ->
  exists n m', iter n m = Some m' /\ mq m' = x :: q /\ EffS [c] m m'.

Theorem run_str : forall t x q (m : M), Forall okc t -> St m -> mq m = flat_map esc t ++ x :: q ->
  exists n m', iter n m = Some m' /\ mq m' = x :: q /\ EffS t m m' /\ St m'.
Proof.
  induction t as [|c t IH]; intros x q m Hok HS Hq.
  - exists 0%nat, m. repeat split; try exact Hq; try apply HS. apply EffS_nil. apply EffS_nil.
  - inversion Hok as [|? ? Hc Ht]; subst. cbn [flat_map] in Hq. rewrite <- app_assoc in Hq.
    destruct (flat_map esc t ++ x :: q) as [|y q'] eqn:Ey; [destruct (flat_map esc t); discriminate Ey|].
    destruct (Hchar c y q' m Hc HS Hq) as (n1 & m1 & I1 & Q1 & E1).
    pose proof (EffS_St _ _ _ E1 HS) as HS1. rewrite <- Ey in Q1.
    destruct (IH x q m1 Ht HS1 Q1) as (n2 & m' & I2 & Q2 & E2 & HS2).
    exists (n1 + n2)%nat, m'. split; [eapply iter_trans; eassumption|]. split; [exact Q2|].
    split; [eapply EffS_cons; eassumption|exact HS2].
Qed.
End Lex.
