(* C07: the TAG SYNTAX the html serializer writes, read back by the real tokenizer model - definitions and pure lemmas.
   Start tag:  less-than name { space attrname equals QUOT escaped-value QUOT } greater-than ; end tag: less-than slash name
   greater-than ; attribute names as printed (prefix and local name already joined, e.g. xlink:href, xml:lang,
   xmlns:xlink: a colon is an ordinary name character for the tokenizer).  Table-specific proofs: Inst/InstSerLexTag.v. *)
From Coq Require Import List NArith Bool Lia.
From HV Require Import Base.Utf8 TokIR.IR TokIR.Interp TokIR.BulkSim HtmlSer.SerModel HtmlSer.SerSpec HtmlSer.SerProofs.
Import ListNotations.
Local Open Scope N_scope.

(* characters the tokenizer keeps unchanged inside a tag name: no white space, slash, greater-than, NUL, CR, no upper case *)
Definition name_char_ok (c : N) : bool :=
  negb (memb c [9; 10; 12; 32]) && negb (memb c [47]) && negb (memb c [62]) && negb (memb c [0]) && negb (c =? 13) &&
  negb (is_upper c).
(* a tag name: non-empty, first character a lower-case ASCII letter (lower-casing is the identity on the whole name) *)
Definition tag_name_ok (n : str) : bool :=
  match n with [] => false | c :: t => is_lower c && forallb name_char_ok t end.
(* characters kept unchanged (and without parse error) inside an attribute name: additionally no equals sign, quotes, less-than *)
Definition attr_char_ok (c : N) : bool :=
  negb (memb c [9; 10; 12; 32]) && negb (memb c [47]) && negb (memb c [61]) && negb (memb c [62]) && negb (memb c [0]) &&
  negb (memb c [34; 39; 60]) && negb (c =? 13) && negb (is_upper c).
Definition attr_name_ok (n : str) : bool := match n with [] => false | _ => forallb attr_char_ok n end.

Definition render_attr (a : str * str) : list N := [32] ++ fst a ++ [61; 34] ++ escape_spec true (snd a) ++ [34].
Definition render_start (n : str) (attrs : list (str * str)) : list N := [60] ++ n ++ flat_map render_attr attrs ++ [62].
Definition render_end (n : str) : list N := [60; 47] ++ n ++ [62].

(* a serialized sequence *)
Inductive item := IStart (n : str) (attrs : list (str * str)) | IText (t : str) | IEnd (n : str).
Definition render_item (i : item) : list N :=
  match i with IStart n a => render_start n a | IText t => escape_spec false t | IEnd n => render_end n end.
Definition item_tokens (i : item) : list token :=
  match i with
  | IStart n a => [TTag TStartTag n false a false]
  | IText [] => []
  | IText t => [TChars t]
  | IEnd n => [TTag TEndTag n false [] false]
  end.
Definition render_items (l : list item) : list N := concat (map render_item l).
Definition items_tokens (l : list item) : list token := concat (map item_tokens l).

(* the observable token list o' extends o by the tokens ts, in order, each with some (line, consumed) annotation;
   [ocons] merges a character token into a preceding one *)
Fixpoint deliv (ts : list token) (o o' : list otok) : Prop :=
  match ts with
  | [] => o' = o
  | t :: ts' => exists l k, deliv ts' (ocons (t, l, k) o) o'
  end.
Lemma deliv_app ts1 : forall ts2 o o1 o2, deliv ts1 o o1 -> deliv ts2 o1 o2 -> deliv (ts1 ++ ts2) o o2.
Proof.
  induction ts1 as [|t ts1 IH]; intros ts2 o o1 o2 H1 H2; cbn [deliv app] in *.
  - subst. exact H2.
  - destruct H1 as (l & k & H1). exists l, k. eapply IH; eassumption.
Qed.

Lemma str_eqb_eq a : forall b, str_eqb a b = true <-> a = b.
Proof.
  induction a as [|x a IH]; intros [|y b]; cbn; split; intros H; try discriminate; try reflexivity.
  - apply andb_prop in H. destruct H as [H1 H2]. apply N.eqb_eq in H1. apply IH in H2. subst. reflexivity.
  - injection H as -> ->. rewrite N.eqb_refl. apply IH. reflexivity.
Qed.
Lemma not_dup (attrs : list (str * str)) (n : str) :
  ~ In n (map fst attrs) -> existsb (fun a => str_eqb (fst a) n) attrs = false.
Proof.
  intros H. destruct (existsb _ attrs) eqn:E; [|reflexivity]. exfalso. apply H.
  apply existsb_exists in E. destruct E as (a & Ha & Hn). apply str_eqb_eq in Hn. subst. apply in_map. exact Ha.
Qed.

(* the attribute list once the pending attribute (name an, value av) has been finished *)
Definition flushed (ta : list (str * str)) (an av : str) : list (str * str) :=
  match an with [] => ta | _ => ta ++ [(an, av)] end.

(* consequences of the character conditions, in the form the table arms test them *)
Lemma lower_facts c : is_lower c = true ->
  is_alpha c = true /\ is_upper c = false /\ (c =? 13) = false /\ (c =? 10) = false /\ memb c [33] = false /\ memb c [47] = false /\
  memb c [63] = false /\ memb c [62] = false.
Proof.
  intros H. unfold is_alpha. rewrite H. unfold is_lower in H. apply andb_prop in H. destruct H as [A B].
  apply N.leb_le in A. apply N.leb_le in B.
  assert (U : is_upper c = false) by (unfold is_upper; replace (c <=? 90) with false by (symmetry; apply N.leb_gt; lia); apply andb_false_r).
  rewrite U. unfold memb, existsb.
  repeat split; try reflexivity; try (apply N.eqb_neq; lia); try (rewrite orb_false_r; apply N.eqb_neq; lia).
Qed.

(* ---------------------------------------------------------------- tie to the byte-level serializer model (HtmlSer/SerModel.v):
   what the model writes for a start / end tag is the UTF-8 encoding of the rendered characters, for the repaired
   write_escaped loop, ASCII names (attribute names as printed: prefix ++ local name) and values given as code points *)
Definition ascii (l : list N) : Prop := Forall (fun c => c < 0x80) l.
Lemma encs_ascii l : ascii l -> encs l = l.
Proof. induction 1 as [|c l Hc _ IH]; [reflexivity|]. rewrite encs_cons, (enc_ascii c Hc), IH. reflexivity. Qed.
Lemma we_bytes_spec v a s : fix_c2 v = true -> we_bytes v a (encs s) = encs (escape_spec a s).
Proof.
  intros Hv. pose proof (escape_impl_spec_repaired v a s Hv) as H. rewrite write_escaped_total in H. injection H as H. exact H.
Qed.
Definition printed_attr (a : qname * list N) : str * str := (attr_prefix (fst a) ++ snd (fst a), snd a).
Definition byte_attr (a : qname * list N) : qname * list N := (fst a, encs (snd a)).
Lemma start_tag_is_render v name attrs : fix_c2 v = true -> ascii (snd name) ->
  Forall (fun a => ascii (fst (printed_attr a))) attrs ->
  start_tag v name (map byte_attr attrs) = encs (render_start (snd name) (map printed_attr attrs)).
Proof.
  intros Hv Hn Ha. unfold start_tag, render_start, tagname. rewrite !encs_app, (encs_ascii _ Hn).
  change (encs [60]) with [60]. change (encs [62]) with [62]. f_equal. f_equal. f_equal.
  induction Ha as [|a attrs H1 _ IH]; [reflexivity|]. cbn [map flat_map]. rewrite encs_app, IH. f_equal.
  unfold attr_bytes, render_attr, byte_attr, printed_attr in *. cbn [fst snd] in *.
  apply Forall_app in H1. destruct H1 as [Hp Hl].
  rewrite !encs_app, (encs_ascii _ Hp), (encs_ascii _ Hl), (we_bytes_spec v true _ Hv). rewrite <- !app_assoc. reflexivity.
Qed.
Lemma end_tag_is_render name : ascii (snd name) -> end_tag name = encs (render_end (snd name)).
Proof. intros Hn. unfold end_tag, render_end, tagname. rewrite !encs_app, (encs_ascii _ Hn). reflexivity. Qed.
