(* WHATWG HTML 13.3 "Serializing HTML fragments": "escaping a string", and the
   fragment of WHATWG tokenization needed to read an escaped string back,
   both on CHARACTERS (code points), written independently of the Rust code.
   No proofs in this file. *)
From Coq Require Import List NArith Bool.
Import ListNotations.
Local Open Scope N_scope.

(* ------------------------------------------------------------------ escaping a string
   1. Replace any occurrence of the & character by the string &amp;
   2. Replace any occurrences of the U+00A0 NO-BREAK SPACE character by the string &nbsp;
   3. Replace any occurrences of the < character by the string &lt;
   4. Replace any occurrences of the > character by the string &gt;
   5. If the algorithm was invoked in the attribute mode, then replace any
      occurrences of the QUOTATION MARK character by the string &quot;
   (current text of the standard; 3 and 4 apply in both modes) *)
Definition replace_all (c : N) (by_ : list N) (s : list N) : list N :=
  flat_map (fun x => if x =? c then by_ else [x]) s.

Definition r_amp : list N := [38; 97; 109; 112; 59].
Definition r_nbsp : list N := [38; 110; 98; 115; 112; 59].
Definition r_lt : list N := [38; 108; 116; 59].
Definition r_gt : list N := [38; 103; 116; 59].
Definition r_quot : list N := [38; 113; 117; 111; 116; 59].

Definition escape_spec (attribute_mode : bool) (s : list N) : list N :=
  let s := replace_all 0x26 r_amp s in
  let s := replace_all 0xA0 r_nbsp s in
  let s := replace_all 0x3C r_lt s in
  let s := replace_all 0x3E r_gt s in
  if attribute_mode then replace_all 0x22 r_quot s else s.

(* ------------------------------------------------------------------ reading it back
   The part of the tokenizer that an escaped string can exercise, as a state
   machine over characters:
     attr = false : Data state.  < opens a tag (the text context ends);
     attr = true  : Attribute value (double-quoted) state.  QUOTATION MARK
                    ends the value (the attribute context ends);
     & switches to the character reference state; only the five references
     that escaping produces are in this fragment, each terminated by ; (for a
     complete name ending in ; the longest-match rule and the
     attribute-value exception of the named character reference state do not
     interfere);
     U+0000 and U+000D are rewritten by the tokenizer / input stream
     preprocessing, so they are outside the fragment.
   Result: Some text = the whole input was consumed inside its context and
   denotes text; None = the input leaves the context or the fragment. *)
Inductive ustate := UData | URef (name : list N).

Definition ref_value (name : list N) : option N :=
  match name with
  | [97; 109; 112] => Some 0x26          (* amp *)
  | [108; 116] => Some 0x3C              (* lt *)
  | [103; 116] => Some 0x3E              (* gt *)
  | [113; 117; 111; 116] => Some 0x22    (* quot *)
  | [110; 98; 115; 112] => Some 0xA0     (* nbsp *)
  | _ => None
  end.

Definition ascii_alnum (c : N) : bool :=
  ((0x30 <=? c) && (c <=? 0x39)) || ((0x41 <=? c) && (c <=? 0x5A)) || ((0x61 <=? c) && (c <=? 0x7A)).

Fixpoint untok (attr : bool) (st : ustate) (s : list N) : option (list N) :=
  match s with
  | [] => match st with UData => Some [] | URef _ => None end
  | c :: t =>
    match st with
    | UData =>
      if c =? 0x26 then untok attr (URef []) t
      else if (negb attr && (c =? 0x3C)) || (attr && (c =? 0x22)) then None
      else if (c =? 0) || (c =? 0x0D) then None
      else option_map (cons c) (untok attr UData t)
    | URef name =>
      if c =? 0x3B then
        match ref_value name with
        | Some x => option_map (cons x) (untok attr UData t)
        | None => None
        end
      else if ascii_alnum c then untok attr (URef (name ++ [c])) t
      else None
    end
  end.

Definition unescape (attr : bool) (s : list N) : option (list N) := untok attr UData s.
