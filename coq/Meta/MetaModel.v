(* Executable model of html5ever/src/encoding.rs
   extract_a_character_encoding_from_a_meta_element, on BYTES with explicit
   byte positions, `get(..)?` early returns, the slices that would panic when
   out of range, and StrTendril::subtendril with its bounds and
   code-point-boundary validation (tendril/src/tendril.rs try_subtendril,
   fmt.rs UTF8::validate_subseq).  No proofs here: this file is what the
   correspondence run executes. *)
From Coq Require Import List NArith Bool Arith.
From HV Require Import Base.Utf8.
Import ListNotations.
Local Open Scope N_scope.

Inductive xres :=
| XNone                 (* the function returned None *)
| XSome (l : list N)    (* Some(label bytes) *)
| XPanic                (* a slice index out of range / subtendril().unwrap() failed *)
| XFuel.                (* model artefact: loop bound exhausted (proved unreachable) *)

(* u8::is_ascii_whitespace: b'\t' | b'\n' | b'\x0C' | b'\r' | b' ' *)
Definition is_ascii_whitespace (b : N) : bool :=
  (b =? 0x09) || (b =? 0x0A) || (b =? 0x0C) || (b =? 0x0D) || (b =? 0x20).

(* u8::to_ascii_lowercase *)
Definition to_ascii_lowercase (b : N) : N :=
  if (0x41 <=? b) && (b <=? 0x5A) then b + 0x20 else b.

(* <[u8]>::eq_ignore_ascii_case: same length and bytewise equal after lowering *)
Fixpoint all_eq_ic (a b : list N) : bool :=
  match a, b with
  | [], [] => true
  | x :: a', y :: b' => (to_ascii_lowercase x =? to_ascii_lowercase y) && all_eq_ic a' b'
  | _, _ => false
  end.
Definition eq_ignore_ascii_case (a b : list N) : bool :=
  Nat.eqb (length a) (length b) && all_eq_ic a b.

Definition charset_bytes : list N := [0x63; 0x68; 0x61; 0x72; 0x73; 0x65; 0x74].

(* bytes.get(lo..hi) *)
Definition get_range (b : list N) (lo hi : nat) : option (list N) :=
  if Nat.leb lo hi && Nat.leb hi (length b)
  then Some (firstn (hi - lo) (skipn lo b)) else None.

(* &bytes[lo..] : panics when lo > len *)
Definition slice_from (b : list N) (lo : nat) : option (list N) :=
  if Nat.leb lo (length b) then Some (skipn lo b) else None.

(* .iter().take_while(p).count() *)
Fixpoint count_while (p : N -> bool) (l : list N) : nat :=
  match l with
  | x :: t => if p x then S (count_while p t) else O
  | [] => O
  end.

(* .iter().position(p) *)
Fixpoint find_position (p : N -> bool) (l : list N) : option nat :=
  match l with
  | [] => None
  | x :: t => if p x then Some O else option_map S (find_position p t)
  end.

(* UTF8::validate_subseq on a sub-slice: empty, or the code point at index 0
   is whole and the code point at the last index is whole (futf::classify) *)
Definition starts_whole (sl : list N) : bool :=
  match dec1 sl with Some _ => true | None => false end.
Definition lastn (k : nat) (l : list N) : list N := skipn (length l - k) l.
Definition one_char (l : list N) : bool :=
  match dec1 l with Some (_, []) => true | _ => false end.
Definition ends_whole (sl : list N) : bool :=
  (Nat.leb 1 (length sl) && one_char (lastn 1 sl)) ||
  (Nat.leb 2 (length sl) && one_char (lastn 2 sl)) ||
  (Nat.leb 3 (length sl) && one_char (lastn 3 sl)) ||
  (Nat.leb 4 (length sl) && one_char (lastn 4 sl)).
Definition validate_subseq (sl : list N) : bool :=
  match sl with [] => true | _ => starts_whole sl && ends_whole sl end.

(* input.subtendril(offset, length) = try_subtendril(..).unwrap() *)
Definition subtendril (b : list N) (offset len : nat) : xres :=
  if Nat.ltb (length b) offset || Nat.ltb (length b - offset) len then XPanic
  else
    let sl := firstn len (skipn offset b) in
    if validate_subseq sl then XSome sl else XPanic.

(* the inner `loop` of step 2 *)
Inductive find_res := FNone | FFound (position : nat) | FFuel.
Fixpoint find_loop (fuel : nat) (b : list N) (position : nat) : find_res :=
  match fuel with
  | O => FFuel
  | S f =>
    match get_range b position (position + 7) with
    | None => FNone                                           (* `?` *)
    | Some candidate =>
      if eq_ignore_ascii_case candidate charset_bytes then FFound position
      else find_loop f b (position + 1)
    end
  end.

(* the outer `loop` (steps 2-4); LBreak p: p points at the '=' *)
Inductive loop_res := LNone | LBreak (position : nat) | LPanic | LFuel.
Fixpoint outer_loop (fuel : nat) (b : list N) (position : nat) : loop_res :=
  match fuel with
  | O => LFuel
  | S f =>
    match find_loop (S (length b)) b position with
    | FFuel => LFuel
    | FNone => LNone
    | FFound position =>
      let position := (position + 7)%nat in
      match slice_from b position with
      | None => LPanic
      | Some rest =>
        let position := (position + count_while is_ascii_whitespace rest)%nat in
        match nth_error b position with
        | None => LNone                                       (* `?` *)
        | Some c => if c =? 0x3D then LBreak position else outer_loop f b position
        end
      end
    end
  end.

Definition extract_impl (b : list N) : xres :=
  match outer_loop (S (length b)) b O with
  | LNone => XNone
  | LPanic => XPanic
  | LFuel => XFuel
  | LBreak position =>
    let position := (position + 1)%nat in                     (* skip the "=" *)
    match slice_from b position with
    | None => XPanic
    | Some rest =>
      let position := (position + count_while is_ascii_whitespace rest)%nat in
      match nth_error b position with
      | None => XNone                                         (* `?` *)
      | Some quote =>
        if (quote =? 0x22) || (quote =? 0x27) then
          match slice_from b (position + 1) with
          | None => XPanic
          | Some rest =>
            match find_position (fun x => x =? quote) rest with
            | None => XNone                                   (* `?` *)
            | Some len => subtendril b (position + 1) len
            end
          end
        else
          match slice_from b position with
          | None => XPanic
          | Some rest =>
            match find_position (fun x => is_ascii_whitespace x || (x =? 0x3B)) rest with
            | Some len => subtendril b position len
            | None => subtendril b position (length b - position)
            end
          end
      end
    end
  end.

(* ------------------------------------------------------------------ the body of the in-head arm
   for meta (tree_builder/rules.rs) after insert_and_pop_element_for: which
   ProcessResult it returns, as a function of the tag's attributes
   (Tag::get_attribute: first attribute with that local name; the tokenizer
   gives HTML attributes the empty namespace) *)
Fixpoint bytes_eqb (a b : list N) : bool :=
  match a, b with
  | [], [] => true
  | x :: a', y :: b' => (x =? y) && bytes_eqb a' b'
  | _, _ => false
  end.

Fixpoint get_attribute (attrs : list (list N * list N)) (name : list N) : option (list N) :=
  match attrs with
  | [] => None
  | (n, v) :: rest => if bytes_eqb n name then Some v else get_attribute rest name
  end.

Definition n_charset : list N := [99; 104; 97; 114; 115; 101; 116].
Definition n_http_equiv : list N := [104; 116; 116; 112; 45; 101; 113; 117; 105; 118].
Definition n_content : list N := [99; 111; 110; 116; 101; 110; 116].
Definition v_content_type : list N := [99; 111; 110; 116; 101; 110; 116; 45; 116; 121; 112; 101].

Inductive arm_res :=
| AIndicator (label : list N)   (* ProcessResult::EncodingIndicator(label) *)
| ADone                         (* ProcessResult::DoneAckSelfClosing *)
| APanic.

Definition meta_arm (attrs : list (list N * list N)) : arm_res :=
  match get_attribute attrs n_charset with
  | Some charset => AIndicator charset
  | None =>
    match get_attribute attrs n_http_equiv with
    | Some value =>
      if eq_ignore_ascii_case value v_content_type then
        match get_attribute attrs n_content with
        | Some content =>
          match extract_impl content with
          | XSome encoding => AIndicator encoding
          | XNone => ADone
          | _ => APanic
          end
        | None => ADone
        end
      else ADone
    | None => ADone
    end
  end.
