(* C19: the byte-position model of encoding.rs computes the WHATWG extraction.
   Part A: positions <-> suffixes (any list of numbers)
   Part B: the WHATWG function commutes with UTF-8 encoding (all its
           delimiters are ASCII, every byte of a non-ASCII character is >= 0x80)
   Part C: sub-slices that are encodings of scalar strings pass subtendril's
           boundary validation. *)
From Coq Require Import List NArith Bool Arith Lia.
From HV Require Import Base.Utf8 Meta.MetaModel Meta.MetaSpec.
Import ListNotations.
Local Open Scope N_scope.

(* ------------------------------------------------------------------ lists *)
Lemma skipn_skipn {A} x : forall y (l : list A), skipn x (skipn y l) = skipn (x + y) l.
Proof.
  intros y; induction y as [|y IH]; intros l.
  - now rewrite Nat.add_0_r.
  - destruct l as [|a l]; [now rewrite !skipn_nil|].
    rewrite Nat.add_succ_r. cbn [skipn]. apply IH.
Qed.

Lemma skipn_nth_cons {A} (l : list A) p c :
  nth_error l p = Some c -> skipn p l = c :: skipn (S p) l.
Proof.
  revert p; induction l as [|x l IH]; intros [|p] H; cbn in *; try discriminate.
  - now inversion H.
  - now apply IH.
Qed.

Lemma skipn_nth_none {A} (l : list A) p :
  nth_error l p = None -> skipn p l = [].
Proof. intros H. apply nth_error_None in H. now apply skipn_all2. Qed.

Lemma nth_error_lt {A} (l : list A) p c : nth_error l p = Some c -> (p < length l)%nat.
Proof. intros H. apply nth_error_Some. congruence. Qed.

(* ------------------------------------------------------------------ Part A *)
Lemma ws_same x : is_ascii_whitespace x = ascii_ws x.
Proof. reflexivity. Qed.

Lemma lower_same x : to_ascii_lowercase x = ascii_lower x.
Proof. reflexivity. Qed.

Lemma skip_ws_count l : skip_ws l = skipn (count_while is_ascii_whitespace l) l.
Proof.
  induction l as [|x l IH]; [reflexivity|]. cbn [skip_ws count_while].
  change (is_ascii_whitespace x) with (ascii_ws x).
  destruct (ascii_ws x); [cbn [skipn]; exact IH|reflexivity].
Qed.

Lemma count_while_le p l : (count_while p l <= length l)%nat.
Proof. induction l as [|x l IH]; cbn; [lia|]. destruct (p x); cbn; lia. Qed.

Lemma all_eq_ic_match w : forall s, (length w <= length s)%nat ->
  after_match_ci w s =
  if all_eq_ic (firstn (length w) s) w then Some (skipn (length w) s) else None.
Proof.
  induction w as [|a w IH]; intros s Hl.
  - cbn. destruct s; reflexivity.
  - destruct s as [|c s]; [cbn in Hl; lia|].
    cbn [after_match_ci length firstn skipn all_eq_ic]. unfold ci_eq.
    change to_ascii_lowercase with ascii_lower.
    destruct (ascii_lower c =? ascii_lower a); cbn [andb]; [|reflexivity].
    apply IH. cbn in Hl. lia.
Qed.

Lemma after_match_short w s : (length s < length w)%nat -> after_match_ci w s = None.
Proof.
  revert s; induction w as [|a w IH]; intros s Hl; [cbn in Hl; lia|].
  destruct s as [|c s]; [reflexivity|]. cbn [after_match_ci].
  destruct (ci_eq c a); [|reflexivity]. apply IH. cbn in Hl. lia.
Qed.

Lemma after_first_short s : (length s < 7)%nat -> after_first_charset s = None.
Proof.
  induction s as [|c s IH]; intros Hl; [reflexivity|].
  cbn [after_first_charset]. rewrite after_match_short by (cbn; cbn in Hl; lia).
  apply IH. cbn in Hl. lia.
Qed.

Lemma after_match_len w : forall s r, after_match_ci w s = Some r ->
  (length r + length w = length s)%nat.
Proof.
  induction w as [|a w IH]; intros s r H.
  - cbn in H. inversion H. cbn. lia.
  - destruct s as [|c s]; [discriminate|]. cbn [after_match_ci] in H.
    destruct (ci_eq c a); [|discriminate]. apply IH in H. cbn. lia.
Qed.

Lemma after_first_len s r : after_first_charset s = Some r -> (length r + 7 <= length s)%nat.
Proof.
  induction s as [|c s IH]; intros H; [discriminate|].
  cbn [after_first_charset] in H.
  destruct (after_match_ci word_charset (c :: s)) eqn:E.
  - inversion H; subst. apply after_match_len in E. cbn in E. cbn. lia.
  - apply IH in H. cbn. lia.
Qed.

Lemma skip_ws_len s : (length (skip_ws s) <= length s)%nat.
Proof. rewrite skip_ws_count, skipn_length. lia. Qed.

Lemma find_loop_ok fuel : forall b pos,
  (pos <= length b)%nat -> (length b - pos < fuel)%nat ->
  match find_loop fuel b pos with
  | FFuel => False
  | FNone => after_first_charset (skipn pos b) = None
  | FFound p => (pos <= p)%nat /\ (p + 7 <= length b)%nat /\
                after_first_charset (skipn pos b) = Some (skipn (p + 7) b)
  end.
Proof.
  induction fuel as [|f IH]; intros b pos Hp Hf; [lia|].
  cbn [find_loop]. unfold get_range.
  destruct (Nat.leb (pos + 7) (length b)) eqn:Hr.
  2:{ replace (Nat.leb pos (pos + 7)) with true by (symmetry; apply Nat.leb_le; lia).
      cbn [andb]. apply Nat.leb_gt in Hr.
      apply after_first_short. rewrite skipn_length. lia. }
  apply Nat.leb_le in Hr.
  replace (Nat.leb pos (pos + 7)) with true by (symmetry; apply Nat.leb_le; lia).
  cbn [andb]. replace (pos + 7 - pos)%nat with 7%nat by lia.
  assert (Hlen : (7 <= length (skipn pos b))%nat) by (rewrite skipn_length; lia).
  destruct (skipn pos b) as [|c t] eqn:Es; [cbn in Hlen; lia|].
  cbn [after_first_charset].
  rewrite (all_eq_ic_match word_charset (c :: t)) by exact Hlen.
  unfold eq_ignore_ascii_case.
  replace (length (firstn 7 (c :: t))) with 7%nat
    by (rewrite firstn_length; cbn [length] in *; lia).
  change (length charset_bytes) with 7%nat. cbn [Nat.eqb andb].
  change (length word_charset) with 7%nat. change charset_bytes with word_charset.
  destruct (all_eq_ic (firstn 7 (c :: t)) word_charset).
  - split; [lia|]. split; [lia|]. rewrite <- Es, skipn_skipn. f_equal. f_equal. lia.
  - assert (Et : t = skipn (pos + 1) b).
    { replace (pos + 1)%nat with (1 + pos)%nat by lia. rewrite <- skipn_skipn, Es. reflexivity. }
    assert (Hp1 : (pos + 1 <= length b)%nat) by lia.
    specialize (IH b (pos + 1)%nat Hp1 ltac:(lia)).
    rewrite <- Et in IH.
    destruct (find_loop f b (pos + 1)); auto.
    destruct IH as (H1 & H2 & H3). repeat split; try lia. exact H3.
Qed.

Lemma extract_loop_nil f : extract_loop f [] = None.
Proof. destruct f; reflexivity. Qed.

Lemma outer_loop_ok fuel : forall b pos,
  (pos <= length b)%nat -> (length b - pos < fuel)%nat ->
  match outer_loop fuel b pos with
  | LFuel | LPanic => False
  | LNone => extract_loop fuel (skipn pos b) = None
  | LBreak p => nth_error b p = Some 0x3D /\
                extract_loop fuel (skipn pos b) = value_at (skip_ws (skipn (p + 1) b))
  end.
Proof.
  induction fuel as [|f IH]; intros b pos Hp Hf; [lia|].
  cbn [outer_loop extract_loop].
  pose proof (find_loop_ok (S (length b)) b pos Hp ltac:(lia)) as Hfl.
  destruct (find_loop (S (length b)) b pos) as [|p|]; [|destruct Hfl as (H1 & H2 & H3)|contradiction].
  - rewrite Hfl. reflexivity.
  - rewrite H3. unfold slice_from.
    replace (Nat.leb (p + 7) (length b)) with true by (symmetry; apply Nat.leb_le; lia).
    rewrite skip_ws_count.
    set (k := count_while is_ascii_whitespace (skipn (p + 7) b)).
    assert (Hk : (p + 7 + k <= length b)%nat).
    { pose proof (count_while_le is_ascii_whitespace (skipn (p + 7) b)) as H.
      rewrite skipn_length in H. fold k in H. lia. }
    rewrite skipn_skipn. replace (k + (p + 7))%nat with (p + 7 + k)%nat by lia.
    destruct (nth_error b (p + 7 + k)) as [c|] eqn:En.
    + rewrite (skipn_nth_cons _ _ _ En).
      destruct (c =? 0x3D) eqn:Ec.
      * apply N.eqb_eq in Ec. subst c. split; [exact En|].
        replace (p + 7 + k + 1)%nat with (S (p + 7 + k)) by lia. reflexivity.
      * rewrite <- (skipn_nth_cons _ _ _ En).
        apply IH; lia.
    + rewrite (skipn_nth_none _ _ En). apply extract_loop_nil.
Qed.

Lemma between_position q l :
  between q l = option_map (fun n => firstn n l) (find_position (fun x => x =? q) l).
Proof.
  induction l as [|x l IH]; [reflexivity|]. cbn [between find_position].
  destruct (x =? q); [reflexivity|]. rewrite IH.
  destruct (find_position _ l); reflexivity.
Qed.

Lemma upto_position stop l :
  upto stop l = match find_position stop l with Some n => firstn n l | None => l end.
Proof.
  induction l as [|x l IH]; [reflexivity|]. cbn [upto find_position].
  destruct (stop x); [reflexivity|]. rewrite IH.
  destruct (find_position stop l); reflexivity.
Qed.

Lemma find_position_le p l n : find_position p l = Some n -> (n < length l)%nat.
Proof.
  revert n; induction l as [|x l IH]; intros n H; [discriminate|]. cbn in H.
  destruct (p x); [inversion H; cbn; lia|].
  destruct (find_position p l); [|discriminate]. inversion H. specialize (IH _ eq_refl). cbn. lia.
Qed.

Definition checked (o : option (list N)) : xres :=
  match o with
  | None => XNone
  | Some l => if validate_subseq l then XSome l else XPanic
  end.

Lemma subtendril_ok b off len :
  (off <= length b)%nat -> (len <= length b - off)%nat ->
  subtendril b off len = checked (Some (firstn len (skipn off b))).
Proof.
  intros H1 H2. unfold subtendril, checked.
  replace (Nat.ltb (length b) off) with false by (symmetry; apply Nat.ltb_ge; lia).
  replace (Nat.ltb (length b - off) len) with false by (symmetry; apply Nat.ltb_ge; lia).
  reflexivity.
Qed.

(* Part A: on ANY list of numbers the positional model computes the
   character-level function, then validates the slice *)
Theorem impl_is_spec_on_bytes b : extract_impl b = checked (extract_spec b).
Proof.
  unfold extract_impl, extract_spec.
  pose proof (outer_loop_ok (S (length b)) b 0%nat ltac:(lia) ltac:(lia)) as H.
  cbn [skipn] in H.
  destruct (outer_loop (S (length b)) b 0) as [|p| |]; try contradiction.
  - rewrite H. reflexivity.
  - destruct H as [Hn H]. rewrite H. clear H.
    pose proof (nth_error_lt _ _ _ Hn) as Hp.
    unfold slice_from.
    replace (Nat.leb (p + 1) (length b)) with true by (symmetry; apply Nat.leb_le; lia).
    rewrite skip_ws_count.
    set (k := count_while is_ascii_whitespace (skipn (p + 1) b)).
    assert (Hk : (p + 1 + k <= length b)%nat).
    { pose proof (count_while_le is_ascii_whitespace (skipn (p + 1) b)) as H.
      rewrite skipn_length in H. fold k in H. lia. }
    rewrite skipn_skipn. replace (k + (p + 1))%nat with (p + 1 + k)%nat by lia.
    destruct (nth_error b (p + 1 + k)) as [c|] eqn:En.
    2:{ rewrite (skipn_nth_none _ _ En). reflexivity. }
    pose proof (nth_error_lt _ _ _ En) as Hc.
    rewrite (skipn_nth_cons _ _ _ En). cbn [value_at].
    destruct ((c =? 0x22) || (c =? 0x27)).
    + replace (Nat.leb (p + 1 + k + 1) (length b)) with true by (symmetry; apply Nat.leb_le; lia).
      replace (S (p + 1 + k)) with (p + 1 + k + 1)%nat by lia.
      rewrite between_position.
      destruct (find_position (fun x => x =? c) (skipn (p + 1 + k + 1) b)) as [n|] eqn:Ef; [|reflexivity].
      apply find_position_le in Ef. rewrite skipn_length in Ef.
      cbn [option_map]. apply subtendril_ok; lia.
    + replace (Nat.leb (p + 1 + k) (length b)) with true by (symmetry; apply Nat.leb_le; lia).
      rewrite <- (skipn_nth_cons _ _ _ En).
      rewrite upto_position.
      destruct (find_position _ (skipn (p + 1 + k) b)) as [n|] eqn:Ef.
      * apply find_position_le in Ef. rewrite skipn_length in Ef.
        apply subtendril_ok; lia.
      * rewrite subtendril_ok by lia. f_equal. f_equal.
        apply firstn_all2. rewrite skipn_length. lia.
Qed.

(* ------------------------------------------------------------------ Part B *)
Definition hi (l : list N) : Prop := Forall (fun b => 0x80 <= b) l.

Lemma enc_hi c : 0x80 <= c -> hi (enc c).
Proof. intros H. apply Forall_forall. intros b Hb. eapply enc_high; eauto. Qed.

Lemma enc_hi_cons c : 0x80 <= c -> exists h r, enc c = h :: r /\ 0x80 <= h /\ hi r.
Proof.
  intros H. pose proof (enc_hi c H) as Hh. pose proof (enc_nonempty c) as Hn.
  destruct (enc c) as [|h r]; [congruence|]. inversion Hh; subst. eauto.
Qed.

Lemma lower_hi b : 0x80 <= b -> ascii_lower b = b.
Proof. intros H. unfold ascii_lower. replace (b <=? 0x5A) with false by lia. now rewrite andb_false_r. Qed.

Lemma lower_lt a : a < 0x80 -> ascii_lower a < 0x80.
Proof. intros H. unfold ascii_lower. destruct ((0x41 <=? a) && (a <=? 0x5A)) eqn:E; lia. Qed.

Lemma ci_eq_hi h a : 0x80 <= h -> a < 0x80 -> ci_eq h a = false.
Proof.
  intros Hh Ha. unfold ci_eq. rewrite (lower_hi h Hh). pose proof (lower_lt a Ha).
  apply N.eqb_neq. lia.
Qed.

Definition ascii_word (w : list N) : Prop := Forall (fun a => a < 0x80) w.

Lemma after_match_encs w : ascii_word w -> forall s,
  after_match_ci w (encs s) = option_map encs (after_match_ci w s).
Proof.
  induction 1 as [|a w Ha Hw IH]; intros s.
  - destruct s; cbn; [reflexivity|]. destruct (enc n ++ encs s); reflexivity.
  - destruct s as [|c s]; [reflexivity|]. rewrite encs_cons.
    destruct (N.ltb_spec c 0x80) as [Hc|Hc].
    + rewrite (enc_ascii c Hc). cbn [app after_match_ci].
      destruct (ci_eq c a); [apply IH|reflexivity].
    + destruct (enc_hi_cons c Hc) as (h & r & -> & Hh & _).
      cbn [app after_match_ci]. rewrite (ci_eq_hi h a Hh Ha), (ci_eq_hi c a Hc Ha). reflexivity.
Qed.

Lemma word_charset_ascii : ascii_word word_charset.
Proof. repeat constructor. Qed.

Lemma after_first_hi hs r : hi hs -> after_first_charset (hs ++ r) = after_first_charset r.
Proof.
  induction 1 as [|h hs Hh Hhs IH]; [reflexivity|].
  cbn [app after_first_charset]. unfold word_charset at 1. cbn [after_match_ci].
  rewrite (ci_eq_hi h 0x63 Hh ltac:(lia)). exact IH.
Qed.

Lemma after_first_encs s :
  after_first_charset (encs s) = option_map encs (after_first_charset s).
Proof.
  induction s as [|c s IH]; [reflexivity|].
  destruct (N.ltb_spec c 0x80) as [Hc|Hc].
  - pose proof (after_match_encs word_charset word_charset_ascii (c :: s)) as Hm.
    rewrite encs_cons in *. rewrite (enc_ascii c Hc) in *. cbn [app] in *.
    cbn [after_first_charset]. rewrite Hm.
    destruct (after_match_ci word_charset (c :: s)); [reflexivity|]. exact IH.
  - rewrite encs_cons, (after_first_hi _ _ (enc_hi c Hc)), IH.
    cbn [after_first_charset].
    replace (after_match_ci word_charset (c :: s)) with (@None (list N)); [reflexivity|].
    unfold word_charset. cbn [after_match_ci].
    rewrite (ci_eq_hi c 0x63 Hc ltac:(lia)). reflexivity.
Qed.

Lemma ascii_ws_hi h : 0x80 <= h -> ascii_ws h = false.
Proof. intros H. unfold ascii_ws. repeat (apply orb_false_intro); apply N.eqb_neq; lia. Qed.

Lemma skip_ws_encs s : skip_ws (encs s) = encs (skip_ws s).
Proof.
  induction s as [|c s IH]; [reflexivity|].
  destruct (N.ltb_spec c 0x80) as [Hc|Hc].
  - rewrite encs_cons, (enc_ascii c Hc). cbn [app skip_ws].
    destruct (ascii_ws c); [exact IH|]. rewrite encs_cons, (enc_ascii c Hc). reflexivity.
  - cbn [skip_ws]. rewrite (ascii_ws_hi c Hc). rewrite encs_cons.
    destruct (enc_hi_cons c Hc) as (h & r & -> & Hh & _).
    cbn [app skip_ws]. rewrite (ascii_ws_hi h Hh). reflexivity.
Qed.

Definition ascii_pred (p : N -> bool) : Prop := forall h, 0x80 <= h -> p h = false.

Lemma upto_hi stop hs r : ascii_pred stop -> hi hs -> upto stop (hs ++ r) = hs ++ upto stop r.
Proof.
  intros Hs. induction 1 as [|h hs Hh Hhs IH]; [reflexivity|].
  cbn [app upto]. rewrite (Hs h Hh), IH. reflexivity.
Qed.

Lemma upto_encs stop s : ascii_pred stop -> upto stop (encs s) = encs (upto stop s).
Proof.
  intros Hs. induction s as [|c s IH]; [reflexivity|].
  destruct (N.ltb_spec c 0x80) as [Hc|Hc].
  - rewrite encs_cons, (enc_ascii c Hc). cbn [app upto].
    destruct (stop c); [reflexivity|]. rewrite encs_cons, (enc_ascii c Hc), IH. reflexivity.
  - rewrite encs_cons, (upto_hi _ _ _ Hs (enc_hi c Hc)), IH. cbn [upto].
    rewrite (Hs c Hc), encs_cons. reflexivity.
Qed.

Lemma between_hi q hs r : q < 0x80 -> hi hs ->
  between q (hs ++ r) = option_map (app hs) (between q r).
Proof.
  intros Hq. induction 1 as [|h hs Hh Hhs IH].
  - cbn. destruct (between q r); reflexivity.
  - cbn [app between]. replace (h =? q) with false by (symmetry; apply N.eqb_neq; lia).
    rewrite IH. destruct (between q r); reflexivity.
Qed.

Lemma between_encs q s : q < 0x80 -> between q (encs s) = option_map encs (between q s).
Proof.
  intros Hq. induction s as [|c s IH]; [reflexivity|].
  destruct (N.ltb_spec c 0x80) as [Hc|Hc].
  - rewrite encs_cons, (enc_ascii c Hc). cbn [app between].
    destruct (c =? q); [reflexivity|]. rewrite IH.
    destruct (between q s); cbn [option_map]; [|reflexivity]. rewrite encs_cons, (enc_ascii c Hc). reflexivity.
  - rewrite encs_cons, (between_hi _ _ _ Hq (enc_hi c Hc)), IH. cbn [between].
    replace (c =? q) with false by (symmetry; apply N.eqb_neq; lia).
    destruct (between q s); cbn [option_map]; [|reflexivity]. rewrite encs_cons. reflexivity.
Qed.

Lemma stop_ascii : ascii_pred (fun x => ascii_ws x || (x =? 0x3B)).
Proof.
  intros h Hh. rewrite (ascii_ws_hi h Hh). cbn. apply N.eqb_neq. lia.
Qed.

Lemma value_at_encs s : value_at (encs s) = option_map encs (value_at s).
Proof.
  destruct s as [|c s]; [reflexivity|].
  destruct (N.ltb_spec c 0x80) as [Hc|Hc].
  - rewrite encs_cons, (enc_ascii c Hc). cbn [app value_at].
    destruct ((c =? 0x22) || (c =? 0x27)) eqn:Eq.
    + apply between_encs. exact Hc.
    + pose proof (upto_encs _ (c :: s) stop_ascii) as H.
      rewrite encs_cons, (enc_ascii c Hc) in H. cbn [app] in H. rewrite H. reflexivity.
  - pose proof (upto_encs _ (c :: s) stop_ascii) as H.
    cbn [value_at].
    replace ((c =? 0x22) || (c =? 0x27)) with false
      by (symmetry; apply orb_false_intro; apply N.eqb_neq; lia).
    cbn [option_map]. rewrite <- H. rewrite encs_cons.
    destruct (enc_hi_cons c Hc) as (h & r & -> & Hh & _). cbn [app value_at].
    replace ((h =? 0x22) || (h =? 0x27)) with false
      by (symmetry; apply orb_false_intro; apply N.eqb_neq; lia).
    reflexivity.
Qed.

Lemma extract_loop_encs f : forall s,
  extract_loop f (encs s) = option_map encs (extract_loop f s).
Proof.
  induction f as [|f IH]; intros s; [reflexivity|].
  cbn [extract_loop]. rewrite after_first_encs.
  destruct (after_first_charset s) as [r|]; [|reflexivity]. cbn [option_map].
  rewrite skip_ws_encs.
  destruct (skip_ws r) as [|c r2] eqn:Er.
  - cbn [encs flat_map]. apply (IH []).
  - destruct (N.ltb_spec c 0x80) as [Hc|Hc].
    + rewrite encs_cons, (enc_ascii c Hc). cbn [app].
      destruct (c =? 0x3D).
      * rewrite skip_ws_encs. apply value_at_encs.
      * pose proof (IH (c :: r2)) as H. rewrite encs_cons, (enc_ascii c Hc) in H. exact H.
    + replace (c =? 0x3D) with false by (symmetry; apply N.eqb_neq; lia).
      rewrite <- IH. rewrite encs_cons.
      destruct (enc_hi_cons c Hc) as (h & r' & -> & Hh & _). cbn [app].
      replace (h =? 0x3D) with false by (symmetry; apply N.eqb_neq; lia). reflexivity.
Qed.

(* the fuel of the specification is immaterial once it exceeds the length *)
Lemma extract_loop_fuel f : forall f' s, (length s < f)%nat -> (length s < f')%nat ->
  extract_loop f s = extract_loop f' s.
Proof.
  induction f as [|f IH]; intros f' s H1 H2; [lia|].
  destruct f' as [|f']; [lia|]. cbn [extract_loop].
  destruct (after_first_charset s) as [r|] eqn:Ea; [|reflexivity].
  apply after_first_len in Ea. pose proof (skip_ws_len r) as Hl.
  destruct (skip_ws r) as [|c r2] eqn:Er.
  - apply IH; cbn; lia.
  - destruct (c =? 0x3D); [reflexivity|]. apply IH; lia.
Qed.

Theorem spec_commutes_with_utf8 s :
  extract_spec (encs s) = option_map encs (extract_spec s).
Proof.
  unfold extract_spec. rewrite extract_loop_encs. f_equal.
  apply extract_loop_fuel; pose proof (encs_length s); lia.
Qed.

(* ------------------------------------------------------------------ Part C *)
Lemma enc_length_le4 c : (length (enc c) <= 4)%nat.
Proof. unfold enc; repeat (destruct (_ <? _)); cbn; lia. Qed.

Lemma one_char_enc c : is_scalar c = true -> one_char (enc c) = true.
Proof.
  intros H. unfold one_char. pose proof (dec1_enc c [] H) as D. rewrite app_nil_r in D.
  rewrite D. reflexivity.
Qed.

Lemma lastn_app x y : lastn (length y) (x ++ y) = y.
Proof.
  unfold lastn. rewrite app_length.
  replace (length x + length y - length y)%nat with (length x) by lia.
  rewrite skipn_app, skipn_all, Nat.sub_diag. reflexivity.
Qed.

Lemma validate_encs l : scalars l -> validate_subseq (encs l) = true.
Proof.
  intros Hs. unfold validate_subseq.
  destruct (encs l) as [|b0 bs] eqn:E; [reflexivity|]. rewrite <- E.
  apply andb_true_intro. split.
  - destruct Hs as [|c l Hc Hl]; [discriminate|].
    unfold starts_whole. rewrite encs_cons, dec1_enc by exact Hc. reflexivity.
  - destruct (exists_last (l := l)) as (l' & d & ->).
    { intros ->. discriminate. }
    apply Forall_app in Hs. destruct Hs as [_ Hd]. inversion Hd as [|? ? Hd' _]; subst.
    rewrite encs_app. cbn [encs flat_map]. rewrite app_nil_r.
    pose proof (enc_length_pos d) as L1. pose proof (enc_length_le4 d) as L4.
    pose proof (lastn_app (flat_map enc l') (enc d)) as HL.
    pose proof (one_char_enc d Hd') as HO.
    fold (encs l') in *.
    assert (Hlen : (length (enc d) <= length (encs l' ++ enc d))%nat) by (rewrite app_length; lia).
    unfold ends_whole.
    assert (K : forall k, (k <= length (encs l' ++ enc d))%nat ->
                          Nat.leb k (length (encs l' ++ enc d)) = true)
      by (intros; apply Nat.leb_le; lia).
    destruct (length (enc d)) as [|[|[|[|[|n]]]]] eqn:En; try lia;
      rewrite HL, HO, (K _ Hlen); cbn [andb];
      rewrite ?orb_true_r; cbn [orb]; rewrite ?orb_true_r; reflexivity.
Qed.

(* the label is a sub-list of the input, so it consists of scalar values *)
Section Sub.
Variable P : N -> Prop.

Lemma after_match_P w : forall s r, Forall P s -> after_match_ci w s = Some r -> Forall P r.
Proof.
  induction w as [|a w IH]; intros s r Hs H.
  - cbn in H. now inversion H; subst.
  - destruct s as [|c s]; [discriminate|]. cbn in H. destruct (ci_eq c a); [|discriminate].
    inversion Hs; subst. eapply IH; eauto.
Qed.

Lemma after_first_P s r : Forall P s -> after_first_charset s = Some r -> Forall P r.
Proof.
  induction s as [|c s IH]; intros Hs H; [discriminate|]. cbn [after_first_charset] in H.
  destruct (after_match_ci word_charset (c :: s)) eqn:E.
  - inversion H; subst. eapply after_match_P; eauto.
  - inversion Hs; subst. auto.
Qed.

Lemma skip_ws_P s : Forall P s -> Forall P (skip_ws s).
Proof.
  induction 1 as [|c s Hc Hs IH]; [constructor|]. cbn. destruct (ascii_ws c); auto.
Qed.

Lemma upto_P stop s : Forall P s -> Forall P (upto stop s).
Proof.
  induction 1 as [|c s Hc Hs IH]; [constructor|]. cbn. destruct (stop c); auto.
Qed.

Lemma between_P q s r : Forall P s -> between q s = Some r -> Forall P r.
Proof.
  intros Hs; revert r; induction Hs as [|c s Hc Hs IH]; intros r H; [discriminate|].
  cbn in H. destruct (c =? q); [inversion H; constructor|].
  destruct (between q s); [|discriminate]. inversion H; subst. auto.
Qed.

Lemma value_at_P s r : Forall P s -> value_at s = Some r -> Forall P r.
Proof.
  intros Hs H. destruct s as [|c s]; [discriminate|]. cbn [value_at] in H.
  destruct ((c =? 0x22) || (c =? 0x27)).
  - inversion Hs; subst. eapply between_P; eauto.
  - injection H as <-. exact (upto_P (fun x => ascii_ws x || (x =? 0x3B)) (c :: s) Hs).
Qed.

Lemma extract_loop_P f : forall s r, Forall P s -> extract_loop f s = Some r -> Forall P r.
Proof.
  induction f as [|f IH]; intros s r Hs H; [discriminate|]. cbn [extract_loop] in H.
  destruct (after_first_charset s) as [r0|] eqn:Ea; [|discriminate].
  pose proof (skip_ws_P _ (after_first_P _ _ Hs Ea)) as H1.
  destruct (skip_ws r0) as [|c r2] eqn:Er.
  - eapply IH; eauto.
  - destruct (c =? 0x3D).
    + inversion H1; subst. eapply value_at_P; [|exact H]. now apply skip_ws_P.
    + eapply IH; eauto.
Qed.
End Sub.

(* ------------------------------------------------------------------ C19 *)
Definition lift (o : option (list N)) : xres :=
  match o with None => XNone | Some l => XSome l end.

Theorem extract_impl_correct s : scalars s ->
  extract_impl (encs s) = lift (option_map encs (extract_spec s)).
Proof.
  intros Hs. rewrite impl_is_spec_on_bytes, spec_commutes_with_utf8.
  destruct (extract_spec s) as [l|] eqn:E; [|reflexivity]. cbn [option_map checked lift].
  rewrite validate_encs; [reflexivity|].
  unfold extract_spec in E. eapply extract_loop_P; eauto.
Qed.

Corollary extract_impl_correct_match s : scalars s ->
  extract_impl (encs s) =
  match extract_spec s with None => XNone | Some l => XSome (encs l) end.
Proof.
  intros Hs. rewrite (extract_impl_correct s Hs). destruct (extract_spec s); reflexivity.
Qed.

Corollary extract_impl_no_panic s : scalars s ->
  extract_impl (encs s) <> XPanic /\ extract_impl (encs s) <> XFuel.
Proof.
  intros Hs. rewrite (extract_impl_correct s Hs).
  destruct (extract_spec s); cbn; split; discriminate.
Qed.

(* characterisations of the specification used as sanity lemmas *)
Lemma extract_spec_no_charset s :
  after_first_charset s = None -> extract_spec s = None.
Proof. intros H. unfold extract_spec. cbn [extract_loop]. now rewrite H. Qed.

(* ------------------------------------------------------------------ the meta arm *)
Lemma bytes_eqb_eq a : forall b, bytes_eqb a b = true <-> a = b.
Proof.
  induction a as [|x a IH]; intros [|y b]; cbn; split; intros H; try discriminate; try reflexivity.
  - apply andb_prop in H. destruct H as [H1 H2]. apply N.eqb_eq in H1. apply IH in H2. now subst.
  - inversion H; subst. rewrite N.eqb_refl. cbn. now apply IH.
Qed.

Lemma str_eqb_eq a : forall b, str_eqb a b = true <-> a = b.
Proof.
  induction a as [|x a IH]; intros [|y b]; cbn; split; intros H; try discriminate; try reflexivity.
  - apply andb_prop in H. destruct H as [H1 H2]. apply N.eqb_eq in H1. apply IH in H2. now subst.
  - inversion H; subst. rewrite N.eqb_refl. cbn. now apply IH.
Qed.

Lemma eqb_encs n m : scalars n -> scalars m -> bytes_eqb (encs n) (encs m) = str_eqb n m.
Proof.
  intros Hn Hm. destruct (str_eqb n m) eqn:E.
  - apply str_eqb_eq in E. subst. now apply bytes_eqb_eq.
  - destruct (bytes_eqb (encs n) (encs m)) eqn:E2; [|reflexivity].
    apply bytes_eqb_eq in E2. apply encs_inj in E2; auto. subst.
    assert (str_eqb m m = true) by now apply str_eqb_eq. congruence.
Qed.

Definition scalar_attrs (attrs : list (list N * list N)) : Prop :=
  Forall (fun a => scalars (fst a) /\ scalars (snd a)) attrs.
Definition enc_attrs (attrs : list (list N * list N)) : list (list N * list N) :=
  map (fun a => (encs (fst a), encs (snd a))) attrs.

Lemma ascii_scalars w : ascii_word w -> scalars w.
Proof.
  induction 1 as [|a w Ha Hw IH]; constructor; [|exact IH].
  unfold is_scalar. replace (a <? 0xD800) with true by lia. reflexivity.
Qed.

Lemma encs_ascii_word w : ascii_word w -> encs w = w.
Proof.
  induction 1 as [|a w Ha Hw IH]; [reflexivity|]. now rewrite encs_cons, enc_ascii, IH.
Qed.

Lemma get_attribute_encs attrs name : scalar_attrs attrs -> ascii_word name ->
  get_attribute (enc_attrs attrs) name = option_map encs (attribute attrs name).
Proof.
  intros Ha Hn. induction Ha as [|[n v] attrs [Hs1 Hs2] Ha IH]; [reflexivity|].
  cbn [enc_attrs map fst snd get_attribute attribute] in *.
  rewrite <- (encs_ascii_word name Hn) at 1.
  rewrite eqb_encs by (auto using ascii_scalars).
  destruct (str_eqb n name); [reflexivity|]. exact IH.
Qed.

Lemma all_eq_ic_len a : forall b, all_eq_ic a b = true -> length a = length b.
Proof.
  induction a as [|x a IH]; intros [|y b] H; cbn in *; try discriminate; [reflexivity|].
  apply andb_prop in H. destruct H as [_ H]. f_equal. now apply IH.
Qed.

Lemma eq_ic_all a b : eq_ignore_ascii_case a b = all_eq_ic a b.
Proof.
  unfold eq_ignore_ascii_case. destruct (all_eq_ic a b) eqn:E; [|apply andb_false_r].
  apply all_eq_ic_len in E. rewrite E, Nat.eqb_refl. reflexivity.
Qed.

Lemma all_eq_ic_encs w : ascii_word w -> forall h, all_eq_ic (encs h) w = ci_match h w.
Proof.
  induction 1 as [|a w Ha Hw IH]; intros h.
  - destruct h as [|c h]; [reflexivity|]. rewrite encs_cons. cbn [ci_match].
    destruct (enc c) eqn:E; [now apply enc_nonempty in E|reflexivity].
  - destruct h as [|c h]; [reflexivity|]. rewrite encs_cons. cbn [ci_match].
    destruct (N.ltb_spec c 0x80) as [Hc|Hc].
    + rewrite (enc_ascii c Hc). cbn [app all_eq_ic]. unfold ci_eq.
      change to_ascii_lowercase with ascii_lower. now rewrite IH.
    + destruct (enc_hi_cons c Hc) as (b0 & r & -> & Hb & _). cbn [app all_eq_ic].
      change to_ascii_lowercase with ascii_lower.
      pose proof (ci_eq_hi b0 a Hb Ha) as E1. pose proof (ci_eq_hi c a Hc Ha) as E2.
      unfold ci_eq in *. rewrite E1, E2. reflexivity.
Qed.

Definition lift_arm (o : option (list N)) : arm_res :=
  match o with Some l => AIndicator l | None => ADone end.

Lemma attribute_scalars attrs name v :
  scalar_attrs attrs -> attribute attrs name = Some v -> scalars v.
Proof.
  induction 1 as [|[n x] attrs [H1 H2] Ha IH]; intros H; [discriminate|].
  cbn in H. destruct (str_eqb n name); [now inversion H; subst|auto].
Qed.

Theorem meta_arm_correct attrs : scalar_attrs attrs ->
  meta_arm (enc_attrs attrs) = lift_arm (option_map encs (meta_label_spec attrs)).
Proof.
  intros Ha. unfold meta_arm, meta_label_spec.
  change n_charset with word_charset. change n_http_equiv with w_http_equiv.
  change n_content with w_content. change v_content_type with w_content_type.
  rewrite (get_attribute_encs attrs word_charset Ha word_charset_ascii).
  destruct (attribute attrs word_charset) as [v|]; [reflexivity|]. cbn [option_map].
  rewrite (get_attribute_encs attrs w_http_equiv Ha) by (repeat constructor).
  destruct (attribute attrs w_http_equiv) as [h|]; [|reflexivity]. cbn [option_map].
  rewrite eq_ic_all, all_eq_ic_encs by (repeat constructor).
  rewrite (get_attribute_encs attrs w_content Ha) by (repeat constructor).
  destruct (attribute attrs w_content) as [c|] eqn:Ec; cbn [option_map].
  - destruct (ci_match h w_content_type); [|reflexivity].
    rewrite (extract_impl_correct c) by (eapply attribute_scalars; eauto).
    destruct (extract_spec c); reflexivity.
  - destruct (ci_match h w_content_type); reflexivity.
Qed.

Corollary meta_arm_correct_match attrs : scalar_attrs attrs ->
  meta_arm (enc_attrs attrs) =
  match meta_label_spec attrs with Some l => AIndicator (encs l) | None => ADone end.
Proof. intros H. rewrite (meta_arm_correct attrs H). destruct (meta_label_spec attrs); reflexivity. Qed.

(* ------------------------------------------------------------------ tests
   (vm_compute over samples: tests, not proofs) - the unit tests of
   encoding.rs replayed on the model and on the specification *)
Definition str_of (l : list N) := l.
Local Notation cs := [99; 104; 97; 114; 115; 101; 116].   (* "charset" *)
Example test_capitalized :
  extract_impl [99; 72; 97; 114; 83; 101; 116; 61; 117; 116; 102; 56] = XSome [117; 116; 102; 56] /\
  extract_spec [99; 72; 97; 114; 83; 101; 116; 61; 117; 116; 102; 56] = Some [117; 116; 102; 56].
Proof. split; vm_compute; reflexivity. Qed.
Example test_no_equals :
  extract_impl (cs ++ [32; 117; 116; 102; 56]) = XNone /\ extract_spec (cs ++ [32; 117; 116; 102; 56]) = None.
Proof. split; vm_compute; reflexivity. Qed.
Example test_ws_around_equals :
  extract_impl (cs ++ [32; 9; 61; 9; 117; 116; 102; 56]) = XSome [117; 116; 102; 56] /\
  extract_spec (cs ++ [32; 9; 61; 9; 117; 116; 102; 56]) = Some [117; 116; 102; 56].
Proof. split; vm_compute; reflexivity. Qed.
Example test_quoted :
  extract_impl (cs ++ [61; 39; 117; 116; 102; 56; 39]) = XSome [117; 116; 102; 56] /\
  extract_impl (cs ++ [61; 34; 117; 116; 102; 56; 34]) = XSome [117; 116; 102; 56] /\
  extract_impl (cs ++ [61; 39; 117; 116; 102; 56]) = XNone /\
  extract_impl (cs ++ [61; 34; 117; 116; 102; 56]) = XNone /\
  extract_spec (cs ++ [61; 39; 117; 116; 102; 56]) = None.
Proof. repeat split; vm_compute; reflexivity. Qed.
Example test_terminators :
  extract_impl (cs ++ [61; 117; 116; 102; 56; 32; 102]) = XSome [117; 116; 102; 56] /\
  extract_impl (cs ++ [61; 117; 116; 102; 56; 59; 102]) = XSome [117; 116; 102; 56] /\
  extract_spec (cs ++ [61; 117; 116; 102; 56; 59; 102]) = Some [117; 116; 102; 56].
Proof. repeat split; vm_compute; reflexivity. Qed.
Example test_truncated :
  extract_impl ([116; 59; 32] ++ cs) = XNone /\ extract_impl ([116; 59; 32] ++ cs ++ [32; 9]) = XNone /\
  extract_impl ([116; 59; 32] ++ cs ++ [61]) = XNone /\ extract_impl ([116; 59; 32] ++ cs ++ [61; 39]) = XNone /\
  extract_spec ([116; 59; 32] ++ cs ++ [61; 34]) = None.
Proof. repeat split; vm_compute; reflexivity. Qed.
Example test_second_charset :
  extract_impl (cs ++ [32] ++ cs ++ [61; 117]) = XSome [117] /\ extract_spec (cs ++ [32] ++ cs ++ [61; 117]) = Some [117].
Proof. split; vm_compute; reflexivity. Qed.
(* a slice that is not on a code-point boundary does make the model panic:
   the Panic result is reachable for byte strings that are not valid UTF-8
   in the right way, so "no panic" is a real statement *)
Example test_panic_reachable : extract_impl (cs ++ [61; 0xA9; 32]) = XPanic.
Proof. vm_compute. reflexivity. Qed.
