(* WHATWG HTML, 13.2.3.x "algorithm for extracting a character encoding from a
   meta element", transcribed on CHARACTERS (code points), independently of
   html5ever/src/encoding.rs.  The pointer "position" of the prose is the
   suffix of s that starts at the pointer.

   Reading decisions
   * the prose ends with "getting an encoding from <substring>" (a label
     lookup); html5ever hands the raw substring to the embedder, so the value
     returned here is the raw substring (the label), before any lookup;
   * step 4 with NO next character: "the next character is not =" is read as
     true, the jump back to the loop then finds no further match -> nothing;
   * step 6 "otherwise": "the substring that consists of this character up to
     but not including the first ASCII whitespace or ; " - when this character
     is itself ';' the first ';' is this character and the substring is empty.

   No proofs in this file. *)
From Coq Require Import List NArith Bool.
Import ListNotations.
Local Open Scope N_scope.

(* infra.spec.whatwg.org: ASCII whitespace is TAB, LF, FF, CR, SPACE *)
Definition ascii_ws (c : N) : bool :=
  (c =? 0x09) || (c =? 0x0A) || (c =? 0x0C) || (c =? 0x0D) || (c =? 0x20).

(* ASCII lowercase of a code point *)
Definition ascii_lower (c : N) : N :=
  if (0x41 <=? c) && (c <=? 0x5A) then c + 0x20 else c.

(* "ASCII case-insensitive match": equal after ASCII-lowercasing both *)
Definition ci_eq (a b : N) : bool := ascii_lower a =? ascii_lower b.

(* if s starts with an ASCII case-insensitive match for the word w: the
   pointer just after the match *)
Fixpoint after_match_ci (w s : list N) : option (list N) :=
  match w, s with
  | [], _ => Some s
  | _ :: _, [] => None
  | a :: w', c :: s' => if ci_eq c a then after_match_ci w' s' else None
  end.

Definition word_charset : list N := [0x63; 0x68; 0x61; 0x72; 0x73; 0x65; 0x74].

(* step 2: "Find the first seven characters in s after position that are an
   ASCII case-insensitive match for the word charset"; the result is the
   pointer just after the match; None = "no such match is found" *)
Fixpoint after_first_charset (s : list N) : option (list N) :=
  match s with
  | [] => None
  | _ :: t =>
    match after_match_ci word_charset s with
    | Some r => Some r
    | None => after_first_charset t
    end
  end.

(* "Skip any ASCII whitespace that immediately follow ..." *)
Fixpoint skip_ws (s : list N) : list N :=
  match s with
  | c :: t => if ascii_ws c then skip_ws t else s
  | [] => []
  end.

(* characters of s before the first one satisfying stop (all of s if none) *)
Fixpoint upto (stop : N -> bool) (s : list N) : list N :=
  match s with
  | c :: t => if stop c then [] else c :: upto stop t
  | [] => []
  end.

(* substring between the pointer and the next earliest occurrence of q;
   None if there is no later q *)
Fixpoint between (q : N) (s : list N) : option (list N) :=
  match s with
  | [] => None
  | c :: t => if c =? q then Some [] else option_map (cons c) (between q t)
  end.

(* step 6 *)
Definition value_at (s : list N) : option (list N) :=
  match s with
  | [] => None                                   (* there is no next character *)
  | c :: t =>
    if (c =? 0x22) || (c =? 0x27) then between c t   (* quoted; unmatched -> nothing *)
    else Some (upto (fun x => ascii_ws x || (x =? 0x3B)) s)
  end.

(* steps 2-6; fuel only bounds the number of jumps back to "loop" *)
Fixpoint extract_loop (fuel : nat) (s : list N) : option (list N) :=
  match fuel with
  | O => None
  | S f =>
    match after_first_charset s with
    | None => None                                            (* step 2 *)
    | Some r =>
      let r1 := skip_ws r in                                  (* step 3 *)
      match r1 with
      | c :: r2 =>
        if c =? 0x3D then value_at (skip_ws r2)               (* steps 5, 6 *)
        else extract_loop f r1                                (* step 4 *)
      | [] => extract_loop f r1                               (* step 4, no next character *)
      end
    end
  end.

(* every jump back to the loop has consumed at least the seven characters of
   one match, so length s + 1 rounds always suffice *)
Definition extract_spec (s : list N) : option (list N) :=
  extract_loop (S (length s)) s.

(* ------------------------------------------------------------------ which label a meta element declares
   (the wording of property C19, after WHATWG "a start tag whose tag name is
   meta", steps 1-2 without the encoding lookup / confidence tests):
   the charset attribute's value if there is one; otherwise, if http-equiv is
   an ASCII case-insensitive match for content-type and there is a content
   attribute, the result of the extraction algorithm on it. *)
Fixpoint str_eqb (a b : list N) : bool :=
  match a, b with
  | [], [] => true
  | x :: a', y :: b' => (x =? y) && str_eqb a' b'
  | _, _ => false
  end.

Fixpoint ci_match (a b : list N) : bool :=
  match a, b with
  | [], [] => true
  | x :: a', y :: b' => ci_eq x y && ci_match a' b'
  | _, _ => false
  end.

(* value of the first attribute with the given name *)
Fixpoint attribute (attrs : list (list N * list N)) (name : list N) : option (list N) :=
  match attrs with
  | [] => None
  | (n, v) :: rest => if str_eqb n name then Some v else attribute rest name
  end.

Definition w_http_equiv : list N := [104; 116; 116; 112; 45; 101; 113; 117; 105; 118].
Definition w_content : list N := [99; 111; 110; 116; 101; 110; 116].
Definition w_content_type : list N := [99; 111; 110; 116; 101; 110; 116; 45; 116; 121; 112; 101].

Definition meta_label_spec (attrs : list (list N * list N)) : option (list N) :=
  match attribute attrs word_charset with
  | Some v => Some v
  | None =>
    match attribute attrs w_http_equiv, attribute attrs w_content with
    | Some h, Some c => if ci_match h w_content_type then extract_spec c else None
    | _, _ => None
    end
  end.
