(* DomSpec.copy is a deep copy: the copy of a finite subtree is a fresh subtree
   that equals the original as a tree once node identities are forgotten
   ([erase]); consequently DomSpec.clone_option leaves deep copies of the
   option's children in the selectedcontent. *)
From Coq Require Import List NArith Bool Arith Lia.
From HV Require Import Dom.DomSpec Dom.DomLemmas Dom.DomCopy.
Import ListNotations.

(* ---------- arenas that extend one another ---------- *)
Definition dext (d d' : dom) : Prop :=
  size d <= size d' /\ forall m, m < size d -> nth m (d_nodes d') dflt_node = nth m (d_nodes d) dflt_node.
Definition dom_closed (d : dom) : Prop := forall p c, In c (kids d p) -> c < size d.

Lemma dext_refl d : dext d d.
Proof. split; auto. Qed.
Lemma dext_trans a b c : dext a b -> dext b c -> dext a c.
Proof.
  intros [A1 A2] [B1 B2]. split; [lia|]. intros m H. rewrite B2 by lia. apply A2; auto.
Qed.
Lemma dext_kids d d' m : dext d d' -> m < size d -> kids d' m = kids d m.
Proof. intros [_ E] H. unfold kids. rewrite E; auto. Qed.
Lemma dext_data d d' m : dext d d' -> m < size d -> data_of d' m = data_of d m.
Proof. intros [_ E] H. unfold data_of. rewrite E; auto. Qed.

Lemma size_alloc' d x ks : size (alloc d x ks) = S (size d).
Proof. unfold size, alloc; simpl. rewrite app_length; simpl; lia. Qed.
Lemma dext_alloc d x ks : dext d (alloc d x ks).
Proof.
  split; [rewrite size_alloc'; lia|]. intros m H. unfold alloc; simpl. apply app_nth1. exact H.
Qed.
Lemma kids_alloc_new d x ks : kids (alloc d x ks) (size d) = ks.
Proof. unfold kids, alloc, size; simpl. rewrite nth_middle. reflexivity. Qed.
Lemma data_alloc_new d x ks : data_of (alloc d x ks) (size d) = x.
Proof. unfold data_of, alloc, size; simpl. rewrite nth_middle. reflexivity. Qed.

Lemma kids_oob d p : size d <= p -> kids d p = [].
Proof. intros H. unfold kids. rewrite nth_overflow; auto. Qed.

Lemma dom_closed_alloc d x ks :
  dom_closed d -> (forall k, In k ks -> k < size d) -> dom_closed (alloc d x ks).
Proof.
  intros C H p c Hc. rewrite size_alloc'.
  destruct (Nat.lt_ge_cases p (size d)) as [L|L].
  - rewrite (dext_kids _ _ _ (dext_alloc d x ks) L) in Hc. apply C in Hc. lia.
  - destruct (Nat.eq_dec p (size d)) as [->|N].
    + rewrite kids_alloc_new in Hc. apply H in Hc. lia.
    + rewrite kids_oob in Hc; [destruct Hc|]. rewrite size_alloc'. lia.
Qed.

(* ---------- all_some ---------- *)
Lemma all_some_app {A B} (f : A -> option B) l1 l2 t1 t2 :
  all_some f l1 = Some t1 -> all_some f l2 = Some t2 -> all_some f (l1 ++ l2) = Some (t1 ++ t2).
Proof.
  revert t1; induction l1; simpl; intros t1 H1 H2.
  - inversion H1. auto.
  - destruct (f a); [|discriminate]. destruct (all_some f l1) eqn:E; [|discriminate].
    inversion H1; subst. rewrite (IHl1 l eq_refl H2). reflexivity.
Qed.
Lemma all_some_ext {A B} (f g : A -> option B) l :
  (forall x, In x l -> f x = g x) -> all_some f l = all_some g l.
Proof.
  induction l; simpl; intros H; auto. rewrite (H a) by auto. rewrite IHl; auto.
Qed.
Lemma all_some_In {A B} (f : A -> option B) l ts :
  all_some f l = Some ts -> forall t, In t ts -> exists x, In x l /\ f x = Some t.
Proof.
  revert ts; induction l; simpl; intros ts H t Ht.
  - inversion H; subst. destruct Ht.
  - destruct (f a) eqn:E; [|discriminate]. destruct (all_some f l) eqn:F; [|discriminate].
    inversion H; subst. destruct Ht as [<-|Ht]; [eauto|].
    destruct (IHl _ eq_refl t Ht) as [x [X1 X2]]. eauto.
Qed.
Lemma all_some_pick {A B} (f : A -> option B) l ts x :
  all_some f l = Some ts -> In x l -> exists t, f x = Some t /\ In t ts.
Proof.
  revert ts; induction l; simpl; intros ts H Hx; [destruct Hx|].
  destruct (f a) eqn:E; [|discriminate]. destruct (all_some f l) eqn:F; [|discriminate].
  inversion H; subst. destruct Hx as [<-|Hx]; [exists b; simpl; auto|].
  destruct (IHl _ eq_refl Hx) as [t [T1 T2]]. exists t; simpl; auto.
Qed.
Lemma all_some_total' {A B} (f : A -> option B) l :
  (forall k, In k l -> exists t, f k = Some t) -> exists ts, all_some f l = Some ts.
Proof.
  induction l; simpl; intros H; eauto.
  destruct (H a (or_introl eq_refl)) as [t E]. rewrite E.
  destruct IHl as [ts E2]; auto. rewrite E2. eauto.
Qed.

(* ---------- trees and frames ---------- *)
Lemma to_tree_frame d d' (E : dext d d') (C : dom_closed d) f : forall m,
  m < size d -> to_tree f d' m = to_tree f d m.
Proof.
  induction f; intros m H; simpl; auto.
  rewrite (dext_kids _ _ _ E H), (dext_data _ _ _ E H).
  rewrite (all_some_ext (to_tree f d') (to_tree f d)); auto.
  intros x Hx. apply IHf. eapply C; eauto.
Qed.

Lemma closed_to_tree g d : forall n, closed g d n = true -> exists t, to_tree g d n = Some t.
Proof.
  induction g; intros n H; simpl in *; [discriminate|].
  apply andb_true_iff in H. destruct H as [H _]. rewrite forallb_forall in H.
  destruct (all_some_total' (to_tree g d) (kids d n)) as [ts E]; [intros; apply IHg; auto|].
  rewrite E. eauto.
Qed.

Lemma kids_set_kids_neq d n l m : m <> n -> kids (set_kids d n l) m = kids d m.
Proof. intros H. unfold kids, set_kids, set_nodes; simpl. rewrite nth_upd_neq; auto. Qed.
Lemma kids_set_kids_eq d n l : n < size d -> kids (set_kids d n l) n = l.
Proof. intros H. unfold kids, set_kids, set_nodes; simpl. rewrite nth_upd_eq; auto. Qed.
Lemma data_set_kids d n l m : data_of (set_kids d n l) m = data_of d m.
Proof.
  unfold data_of, set_kids, set_nodes; simpl. destruct (Nat.eq_dec n m) as [->|N].
  - destruct (Nat.lt_ge_cases m (length (d_nodes d))).
    + rewrite nth_upd_eq; auto.
    + rewrite upd_oob; auto.
  - rewrite nth_upd_neq; auto.
Qed.

(* a tree that does not contain [sc] does not change when the children of [sc] do *)
Lemma to_tree_set_kids d sc l f : forall m t,
  to_tree f d m = Some t -> ~ In sc (tree_ids t) -> to_tree f (set_kids d sc l) m = Some t.
Proof.
  induction f; intros m t H N; simpl in *; [discriminate|].
  destruct (all_some (to_tree f d) (kids d m)) as [ts|] eqn:E; [|discriminate].
  inversion H; subst; clear H. simpl in N.
  rewrite kids_set_kids_neq by tauto. rewrite data_set_kids.
  rewrite (all_some_ext (to_tree f (set_kids d sc l)) (to_tree f d)); [rewrite E; reflexivity|].
  intros x Hx.
  destruct (all_some_pick _ _ _ _ E Hx) as [t [T1 T2]].
 rewrite T1. apply IHf; auto.
  intros Hin. apply N. right. apply in_flat_map. eauto.
Qed.

(* ---------- the copy ---------- *)
Definition FD (g : nat) (acc : dom * list nid) (k : nid) : dom * list nid :=
  let '(d', k') := copy g (fst acc) k in (d', snd acc ++ [k']).

Lemma FD_eq g d acc k : FD g (d, acc) k = (fst (copy g d k), acc ++ [snd (copy g d k)]).
Proof. unfold FD; simpl. destruct (copy g d k); reflexivity. Qed.

Definition erase_data (x : data) : data :=
  match x with Element nm a (Some _) ip => Element nm a (Some 0) ip | y => y end.
Lemma erase_T n x ks : erase (T n x ks) = T 0 (erase_data x) (map erase ks).
Proof. reflexivity. Qed.

Section Copy.
Variable d0 : dom.
Hypothesis C0 : dom_closed d0.
Hypothesis T0 : forall n nm a t ip, data_of d0 n = Element nm a (Some t) ip -> t < size d0.

(* what one copy achieves *)
Definition copy_post (g : nat) (d : dom) (src : nid) (r : dom * nid) : Prop :=
  dext d (fst r) /\ dom_closed (fst r) /\ snd r < size (fst r) /\
  exists t t', to_tree g d0 src = Some t /\ to_tree g (fst r) (snd r) = Some t' /\
               erase t' = erase t /\ forall x, In x (tree_ids t') -> size d <= x.

Definition copy_spec (g : nat) : Prop :=
  forall d n, dext d0 d -> dom_closed d -> n < size d0 -> closed g d0 n = true ->
              copy_post g d n (copy g d n).

Definition trees_of (g : nat) (d : dom) (ks : list nid) (ts : list tree) (lo : nat) : Prop :=
  all_some (to_tree g d) ks = Some ts /\ (forall k, In k ks -> k < size d) /\
  forall t x, In t ts -> In x (tree_ids t) -> lo <= x.

Lemma copy_fold g (Hg : copy_spec g) lo : forall l d acc tacc,
  dext d0 d -> dom_closed d -> lo <= size d ->
  (forall k, In k l -> k < size d0 /\ closed g d0 k = true) ->
  trees_of g d acc tacc lo ->
  let r := fold_left (FD g) l (d, acc) in
  dext d (fst r) /\ dom_closed (fst r) /\
  exists tl tr, all_some (to_tree g d0) l = Some tl /\ trees_of g (fst r) (snd r) tr lo /\
                map erase tr = map erase tacc ++ map erase tl.
Proof.
  induction l as [|k l IH]; intros d acc tacc E C L H G; simpl.
  - split; [apply dext_refl|]. split; auto. exists [], tacc. rewrite app_nil_r. auto.
  - destruct (H k (or_introl eq_refl)) as [H1 H2].
    pose proof (Hg d k E C H1 H2) as P. rewrite FD_eq. unfold copy_post in P.
    set (d' := fst (copy g d k)) in *. set (k' := snd (copy g d k)) in *.
    destruct P as [P1 [P2 [P3 [t [t' [P4 [P5 [P6 P7]]]]]]]].
    destruct G as [G1 [G2 G3]].
    assert (A1 : dext d0 d') by (eapply dext_trans; eauto).
    assert (A2 : lo <= size d') by (destruct P1; lia).
    assert (A3 : forall x, In x l -> x < size d0 /\ closed g d0 x = true) by (intros; apply H; simpl; auto).
    assert (A4 : trees_of g d' (acc ++ [k']) (tacc ++ [t']) lo).
    { split; [|split].
      - apply all_some_app.
        + rewrite (all_some_ext (to_tree g d') (to_tree g d)); auto.
          intros x Hx. apply to_tree_frame; auto.
        + simpl. rewrite P5. reflexivity.
      - intros x Hx. apply in_app_iff in Hx. destruct Hx as [Hx|[<-|[]]]; auto.
        destruct P1. apply G2 in Hx. lia.
      - intros u x Hu Hx. apply in_app_iff in Hu. destruct Hu as [Hu|[<-|[]]].
        + eapply G3; eauto.
        + apply P7 in Hx. lia. }
    destruct (IH d' (acc ++ [k']) (tacc ++ [t']) A1 P2 A2 A3 A4) as [R1 [R2 [tl [tr [R3 [R4 R5]]]]]].
    split; [eapply dext_trans; eauto|]. split; auto.
    exists (t :: tl), tr. rewrite P4, R3. split; auto. split; auto.
    rewrite R5, map_app, <- app_assoc. simpl. rewrite P6. reflexivity.
Qed.

Lemma copy_deep g : copy_spec g.
Proof.
  induction g as [|g IHg]; intros d n E C Hn Cl; [discriminate|].
  simpl in Cl. apply andb_true_iff in Cl. destruct Cl as [Cl1 Cl2]. rewrite forallb_forall in Cl1.
  simpl. fold (FD g). rewrite (dext_kids _ _ _ E Hn), (dext_data _ _ _ E Hn).
  assert (Hkids : forall k, In k (kids d0 n) -> k < size d0 /\ closed g d0 k = true).
  { intros k Hk. split; [eapply C0; eauto|apply Cl1; auto]. }
  assert (G0 : trees_of g d [] [] (size d)).
  { split; [reflexivity|]. split; [intros k []|intros t x []]. }
  destruct (copy_fold g IHg (size d) (kids d0 n) d [] [] E C (le_n _) Hkids G0) as [F1 [F2 [tl [tr [F3 [F4 F5]]]]]].
  destruct (fold_left (FD g) (kids d0 n) (d, [])) as [d1 ks]. simpl in *.
  destruct F4 as [K1 [K2 K3]].
  (* allocating the copy of [n] itself, over whatever arena [d2] the template contents left *)
  assert (Fin : forall d2 x, dext d1 d2 -> dom_closed d2 -> erase_data x = erase_data (data_of d0 n) ->
                             copy_post (S g) d n (alloc d2 x ks, size d2)).
  { intros d2 x E2 C2 Tx. unfold copy_post. simpl.
    assert (Sz1 : size d <= size d1) by (destruct F1; auto).
    assert (Sz2 : size d1 <= size d2) by (destruct E2; auto).
    assert (Hks2 : forall k, In k ks -> k < size d2) by (intros k Hk; apply K2 in Hk; lia).
    split; [eapply dext_trans; [exact F1|]; eapply dext_trans; [exact E2|]; apply dext_alloc|].
    split; [apply dom_closed_alloc; auto|].
    split; [rewrite size_alloc'; lia|].
    exists (T n (data_of d0 n) tl), (T (size d2) x tr).
    rewrite F3. split; [reflexivity|]. split.
    - rewrite kids_alloc_new, data_alloc_new.
      rewrite (all_some_ext (to_tree g (alloc d2 x ks)) (to_tree g d1)); [rewrite K1; reflexivity|].
      intros k Hk. rewrite (to_tree_frame d2 (alloc d2 x ks) (dext_alloc _ _ _) C2) by auto.
      apply to_tree_frame; auto.
    - split.
      + rewrite !erase_T, Tx, F5. reflexivity.
      + simpl. intros y [<-|Hy]; [lia|]. apply in_flat_map in Hy. destruct Hy as [t [Y1 Y2]]. eapply K3; eauto. }
  destruct (data_of d0 n) as [| | | |nm at_ [t|] ip|] eqn:D;
    try (apply Fin; [apply dext_refl|auto|reflexivity]).
  assert (Ht : t < size d0) by (eapply T0; eauto).
  pose proof (IHg d1 t (dext_trans _ _ _ E F1) F2 Ht Cl2) as P.
  destruct (copy g d1 t) as [d2 t']. destruct P as [P1 [P2 _]]. simpl in *.
  apply Fin; auto.
Qed.

(* ---------- DomSpec.clone_option leaves deep copies in the selectedcontent ---------- *)
Theorem clone_option_deep opt sel sc :
  nearest_select d0 (S (size d0)) (parent_of d0 opt) false = Some sel ->
  has_attr_local s_multiple (attrs_of (data_of d0 sel)) = false ->
  first_in_tree_order d0 (fun x => is_html x s_selectedcontent) (S (size d0)) (kids d0 sel) = Some sc ->
  has_attr_local s_selected (attrs_of (data_of d0 opt)) = true ->
  sc < size d0 ->
  forallb (closed (S (size d0)) d0) (kids d0 opt) = true ->
  exists ts1 ts2,
    all_some (to_tree (S (size d0)) (clone_option d0 opt)) (kids (clone_option d0 opt) sc) = Some ts1 /\
    all_some (to_tree (S (size d0)) d0) (kids d0 opt) = Some ts2 /\
    map erase ts1 = map erase ts2.
Proof.
  intros H1 H2 H3 H4 Hsc Cl. unfold clone_option. rewrite H1, H2, H3, H4.
  rewrite forallb_forall in Cl.
  assert (Hkids : forall k, In k (kids d0 opt) -> k < size d0 /\ closed (S (size d0)) d0 k = true).
  { intros k Hk. split; [eapply C0; eauto|apply Cl; auto]. }
  assert (G0 : trees_of (S (size d0)) d0 [] [] (size d0)).
  { split; [reflexivity|]. split; [intros k []|intros t x []]. }
  destruct (copy_fold _ (copy_deep _) (size d0) (kids d0 opt) d0 [] [] (dext_refl _) C0 (le_n _) Hkids G0)
    as [F1 [F2 [tl [tr [F3 [F4 F5]]]]]].
  unfold copy_all. fold (FD (S (size d0))).
  destruct (fold_left (FD (S (size d0))) (kids d0 opt) (d0, [])) as [d1 ks]. simpl in *.
  destruct F4 as [K1 [K2 K3]].
  assert (Sz : size d0 <= size d1) by (destruct F1; auto).
  exists tr, tl. split; [|split; auto].
  rewrite kids_set_kids_eq by lia.
  rewrite (all_some_ext (to_tree (S (size d0)) (set_kids d1 sc ks)) (to_tree (S (size d0)) d1)); auto.
  intros k Hk.
  destruct (all_some_pick _ _ _ _ K1 Hk) as [t [U1 U2]]. rewrite U1. apply to_tree_set_kids; auto.
  intros Hin. pose proof (K3 t sc U2 Hin). lia.
Qed.
End Copy.
