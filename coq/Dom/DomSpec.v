(* ========================================================================
   DomSpec.v - shared abstract DOM and TreeSink operation vocabulary.

   Used by C20 (RcDom refines this specification) and meant to be reused by
   C05 (calling contract), C02/C06 (tree shape), C18 (reachability).

   * [handle]  : the integer a tracing sink gives to a handle the tree builder
                 holds (harness/src/tracesink.rs): 0 is the Document, every
                 create_element / create_comment / create_pi result gets the
                 next number, and the first get_template_contents of a template
                 names its contents with the next number.
   * [nid]     : index of a node in the arena.  Text and doctype nodes (and
                 deep copies made by the option->selectedcontent cloning) have
                 an arena slot but never a handle: the sink never hands them out.
   * [dom]     : arena of nodes WITHOUT parent pointers (data + ordered list of
                 children), the handle table, the quirks mode.
   * [sinkop]  : one constructor per TreeSink method, with its arguments.
   * [apply]   : what the TreeSink documentation prescribes for each method.
   * [contract_ok] : decidable calling contract the documentation promises.
   * [tree], [to_tree] : rose-tree view (for printing / comparing / traversal).

   Characters are [N] code points, strings are lists of them.
   No proofs in this file (lemmas: DomLemmas.v).
   ======================================================================== *)
From Coq Require Import List NArith Bool Arith.
Import ListNotations.

Definition str := list N.
Definition handle := nat.
Definition nid := nat.

(* ---------- names, attributes, node data ---------- *)
Record qualname := { q_prefix : option str ; q_ns : str ; q_local : str }.
Record dattr := { d_name : qualname ; d_value : str }.

Inductive data :=
| Document                                  (* the document, or a template's contents fragment *)
| Doctype (name pub sys : str)
| Text (s : str)
| Comment (s : str)
| Element (name : qualname) (attrs : list dattr) (tmpl : option nid) (mathml_ip : bool)
| PI (target d : str).

Record node := { n_data : data ; n_kids : list nid }.
Record dom := { d_nodes : list node ; d_names : list nid ; d_quirks : N }.

(* quirks mode: 0 = Quirks, 1 = LimitedQuirks, 2 = NoQuirks (the initial value) *)
Definition init : dom :=
  {| d_nodes := [ {| n_data := Document ; n_kids := [] |} ] ; d_names := [0] ; d_quirks := 2%N |}.

(* ---------- sink operations ---------- *)
Definition child := (handle + str)%type.    (* NodeOrText: inl = AppendNode, inr = AppendText *)

Inductive sinkop :=
| OpCreateElement (h : handle) (name : qualname) (attrs : list dattr) (template mathml_ip had_dup : bool)
| OpCreateComment (h : handle) (s : str)
| OpCreatePi (h : handle) (target d : str)
| OpAppend (parent : handle) (c : child)
| OpAppendBeforeSibling (sibling : handle) (c : child)
| OpAppendBasedOnParent (element prev_element : handle) (c : child)
| OpAppendDoctype (name pub sys : str)
| OpAddAttrsIfMissing (target : handle) (attrs : list dattr)
| OpRemoveFromParent (target : handle)
| OpReparentChildren (nd new_parent : handle)
| OpGetTemplateContents (target result : handle)
| OpMarkScriptStarted (h : handle)
| OpPop (h : handle)
| OpSetQuirks (q : N)
| OpSetLine (l : N)
| OpAssociateForm (target form element : handle) (prev : option handle)
| OpCloneOption (opt : handle)              (* maybe_clone_an_option_into_selectedcontent *)
| OpElemName (h : handle)                   (* query, no effect *)
| OpIsMathmlIp (h : handle)                 (* query, no effect *)
| OpParseError.

(* ---------- small list toolkit (shared with the RcDom model) ---------- *)
Fixpoint upd {A} (i : nat) (f : A -> A) (l : list A) : list A :=
  match l, i with
  | [], _ => []
  | x :: t, 0 => f x :: t
  | x :: t, S j => x :: upd j f t
  end.

Definition mem (x : nat) (l : list nat) : bool := existsb (Nat.eqb x) l.

Fixpoint index_of (x : nat) (l : list nat) : option nat :=
  match l with
  | [] => None
  | y :: t => if Nat.eqb y x then Some 0 else option_map S (index_of x t)
  end.

Definition remove_all (x : nat) (l : list nat) : list nat :=
  filter (fun y => negb (Nat.eqb y x)) l.

(* [x] placed immediately before the first occurrence of [sib] *)
Fixpoint insert_before (sib x : nat) (l : list nat) : list nat :=
  match l with
  | [] => []
  | y :: t => if Nat.eqb y sib then x :: y :: t else y :: insert_before sib x t
  end.

(* the element immediately before the first occurrence of [sib] *)
Fixpoint prev_aux (prev : option nat) (sib : nat) (l : list nat) : option nat :=
  match l with
  | [] => None
  | y :: t => if Nat.eqb y sib then prev else prev_aux (Some y) sib t
  end.
Definition prev_of (sib : nat) (l : list nat) : option nat := prev_aux None sib l.

Fixpoint str_eqb (a b : str) : bool :=
  match a, b with
  | [], [] => true
  | x :: a', y :: b' => N.eqb x y && str_eqb a' b'
  | _, _ => false
  end.
Definition ostr_eqb (a b : option str) : bool :=
  match a, b with
  | None, None => true
  | Some x, Some y => str_eqb x y
  | _, _ => false
  end.
(* Rust: QualName derives Eq over (prefix, ns, local) *)
Definition qn_eqb (a b : qualname) : bool :=
  ostr_eqb (q_prefix a) (q_prefix b) && str_eqb (q_ns a) (q_ns b) && str_eqb (q_local a) (q_local b).

Definition has_attr (q : qualname) (l : list dattr) : bool :=
  existsb (fun a => qn_eqb (d_name a) q) l.
Definition has_attr_local (loc : str) (l : list dattr) : bool :=
  existsb (fun a => str_eqb (q_local (d_name a)) loc) l.
Fixpoint attrs_distinct (l : list dattr) : bool :=
  match l with
  | [] => true
  | a :: t => negb (has_attr (d_name a) t) && attrs_distinct t
  end.

(* "Add each attribute to the given element, if no attribute with that name
   already exists": one attribute after the other *)
Fixpoint add_missing (existing new : list dattr) : list dattr :=
  match new with
  | [] => existing
  | a :: t => add_missing (if has_attr (d_name a) existing then existing else existing ++ [a]) t
  end.

(* ---------- string constants ---------- *)
Definition s_ns_html : str := [104;116;116;112;58;47;47;119;119;119;46;119;51;46;111;114;103;47;49;57;57;57;47;120;104;116;109;108]%N.  (* "http://www.w3.org/1999/xhtml" *)
Definition s_select : str := [115;101;108;101;99;116]%N.  (* "select" *)
Definition s_option : str := [111;112;116;105;111;110]%N.  (* "option" *)
Definition s_optgroup : str := [111;112;116;103;114;111;117;112]%N.  (* "optgroup" *)
Definition s_datalist : str := [100;97;116;97;108;105;115;116]%N.  (* "datalist" *)
Definition s_hr : str := [104;114]%N.  (* "hr" *)
Definition s_selectedcontent : str := [115;101;108;101;99;116;101;100;99;111;110;116;101;110;116]%N.  (* "selectedcontent" *)
Definition s_multiple : str := [109;117;108;116;105;112;108;101]%N.  (* "multiple" *)
Definition s_selected : str := [115;101;108;101;99;116;101;100]%N.  (* "selected" *)

(* ---------- arena access ---------- *)
Definition dflt_node : node := {| n_data := Document ; n_kids := [] |}.
Definition size (d : dom) : nat := length (d_nodes d).
Definition valid (d : dom) (n : nid) : bool := Nat.ltb n (size d).
Definition data_of (d : dom) (n : nid) : data := n_data (nth n (d_nodes d) dflt_node).
Definition kids (d : dom) (n : nid) : list nid := n_kids (nth n (d_nodes d) dflt_node).
Definition resolve (d : dom) (h : handle) : option nid := nth_error (d_names d) h.

Definition set_nodes (d : dom) (l : list node) : dom :=
  {| d_nodes := l ; d_names := d_names d ; d_quirks := d_quirks d |}.
Definition set_kids (d : dom) (n : nid) (l : list nid) : dom :=
  set_nodes d (upd n (fun x => {| n_data := n_data x ; n_kids := l |}) (d_nodes d)).
Definition set_data (d : dom) (n : nid) (x : data) : dom :=
  set_nodes d (upd n (fun y => {| n_data := x ; n_kids := n_kids y |}) (d_nodes d)).
(* a new node at the end of the arena; its index is the old size *)
Definition alloc (d : dom) (x : data) (ks : list nid) : dom :=
  set_nodes d (d_nodes d ++ [ {| n_data := x ; n_kids := ks |} ]).
Definition add_name (d : dom) (n : nid) : dom :=
  {| d_nodes := d_nodes d ; d_names := d_names d ++ [n] ; d_quirks := d_quirks d |}.

(* the node whose child list contains [n] (there is at most one in a tree) *)
Definition parent_of (d : dom) (n : nid) : option nid :=
  find (fun p => mem n (kids d p)) (seq 0 (size d)).

Definition is_element (x : data) : bool := match x with Element _ _ _ _ => true | _ => false end.
Definition is_text (x : data) : bool := match x with Text _ => true | _ => false end.
(* nodes that may have children *)
Definition is_container (x : data) : bool :=
  match x with Element _ _ _ _ | Document => true | _ => false end.
(* nodes the sink created on request (create_element / create_comment / create_pi) *)
Definition is_created (x : data) : bool :=
  match x with Element _ _ _ _ | Comment _ | PI _ _ => true | _ => false end.
Definition attrs_of (x : data) : list dattr :=
  match x with Element _ a _ _ => a | _ => [] end.
(* an HTML element with the given local name *)
Definition is_html (x : data) (loc : str) : bool :=
  match x with
  | Element nm _ _ _ => str_eqb (q_ns nm) s_ns_html && str_eqb (q_local nm) loc
  | _ => false
  end.

(* ---------- the operations, as documented ---------- *)

(* "Detach the given node from its parent." *)
Definition detach (d : dom) (n : nid) : dom :=
  match parent_of d n with
  | Some p => set_kids d p (remove_all n (kids d p))
  | None => d
  end.

(* "Append a node as the last child of the given node.  If this would produce
   adjacent sibling text nodes, it should concatenate the text instead." *)
Definition append_node (d : dom) (p c : nid) : dom := set_kids d p (kids d p ++ [c]).
Definition append_text (d : dom) (p : nid) (s : str) : dom :=
  match last (map Some (kids d p)) None with
  | Some l =>
    match data_of d l with
    | Text t => set_data d l (Text (t ++ s))
    | _ => append_node (alloc d (Text s) []) p (size d)
    end
  | None => append_node (alloc d (Text s) []) p (size d)
  end.

(* "Append a node as the sibling immediately before the given node. [...] its
   old previous sibling, which would become the new node's previous sibling,
   could be a text node.  If the new node is also a text node, the two should be
   merged [...]  NB: new_node may have an old parent, from which it should be
   removed." *)
Definition before_node (d : dom) (sib c : nid) : dom :=
  let d1 := detach d c in
  match parent_of d1 sib with
  | Some p => set_kids d1 p (insert_before sib c (kids d1 p))
  | None => d1
  end.
Definition before_text (d : dom) (sib : nid) (s : str) : dom :=
  match parent_of d sib with
  | Some p =>
    let fresh := set_kids (alloc d (Text s) []) p (insert_before sib (size d) (kids d p)) in
    match prev_of sib (kids d p) with
    | Some q =>
      match data_of d q with
      | Text t => set_data d q (Text (t ++ s))
      | _ => fresh
      end
    | None => fresh
    end
  | None => d
  end.

Definition do_append (d : dom) (p : nid) (c : nid + str) : dom :=
  match c with inl n => append_node d p n | inr s => append_text d p s end.
Definition do_before (d : dom) (sib : nid) (c : nid + str) : dom :=
  match c with inl n => before_node d sib n | inr s => before_text d sib s end.

(* "Remove all the children from node and append them to new_parent." *)
Definition reparent (d : dom) (from to : nid) : dom :=
  let ks := kids d from in
  let d1 := set_kids d to (kids d to ++ ks) in
  set_kids d1 from [].

(* ----- maybe clone an option into selectedcontent (WHATWG) ----- *)

(* option element nearest ancestor select: walk the ancestors upwards *)
Fixpoint nearest_select (d : dom) (fuel : nat) (cur : option nid) (seen_optgroup : bool) : option nid :=
  match fuel, cur with
  | S f, Some a =>
    let x := data_of d a in
    if is_html x s_datalist || is_html x s_hr || is_html x s_option then None
    else if is_html x s_optgroup && seen_optgroup then None
    else if is_html x s_select then Some a
    else nearest_select d f (parent_of d a) (seen_optgroup || is_html x s_optgroup)
  | _, _ => None
  end.

(* first node in tree order (pre-order, depth first) satisfying [p], searching the
   forest [stack] *)
Fixpoint first_in_tree_order (d : dom) (p : data -> bool) (fuel : nat) (stack : list nid) : option nid :=
  match fuel, stack with
  | S f, n :: rest =>
    if p (data_of d n) then Some n else first_in_tree_order d p f (kids d n ++ rest)
  | _, _ => None
  end.

(* deep copy of the subtree at [n] (template contents included): returns the
   enlarged arena and the root of the copy *)
Fixpoint copy (fuel : nat) (d : dom) (n : nid) : dom * nid :=
  match fuel with
  | 0 => (d, n)
  | S f =>
    let '(d1, ks) :=
      fold_left (fun (acc : dom * list nid) k =>
                   let '(d', k') := copy f (fst acc) k in (d', snd acc ++ [k']))
                (kids d n) (d, []) in
    match data_of d n with
    | Element nm at_ (Some t) ip =>
      let '(d2, t') := copy f d1 t in
      (alloc d2 (Element nm at_ (Some t') ip) ks, size d2)
    | x => (alloc d1 x ks, size d1)
    end
  end.
Definition copy_all (d : dom) (l : list nid) : dom * list nid :=
  fold_left (fun (acc : dom * list nid) k =>
               let '(d', k') := copy (S (size d)) (fst acc) k in (d', snd acc ++ [k']))
            l (d, []).

Definition clone_option (d : dom) (opt : nid) : dom :=
  match nearest_select d (S (size d)) (parent_of d opt) false with
  | Some sel =>
    if has_attr_local s_multiple (attrs_of (data_of d sel)) then d
    else
      match first_in_tree_order d (fun x => is_html x s_selectedcontent) (S (size d)) (kids d sel) with
      | Some sc =>
        if has_attr_local s_selected (attrs_of (data_of d opt)) then
          let '(d1, ks) := copy_all d (kids d opt) in set_kids d1 sc ks
        else d
      | None => d
      end
  | None => d
  end.

(* ----- the interpreter ----- *)
Definition with1 (d : dom) (h : handle) (k : nid -> dom) : dom :=
  match resolve d h with Some n => k n | None => d end.
Definition with_child (d : dom) (c : child) (k : nid + str -> dom) : dom :=
  match c with
  | inl h => match resolve d h with Some n => k (inl n) | None => d end
  | inr s => k (inr s)
  end.

Definition apply (d : dom) (op : sinkop) : dom :=
  match op with
  | OpCreateElement _ nm at_ template ip _ =>
    if template then
      (* the contents fragment first, then the element that owns it *)
      let d1 := alloc d Document [] in
      add_name (alloc d1 (Element nm at_ (Some (size d)) ip) []) (size d1)
    else add_name (alloc d (Element nm at_ None ip) []) (size d)
  | OpCreateComment _ s => add_name (alloc d (Comment s) []) (size d)
  | OpCreatePi _ t x => add_name (alloc d (PI t x) []) (size d)
  | OpAppend p c => with1 d p (fun pn => with_child d c (do_append d pn))
  | OpAppendBeforeSibling s c => with1 d s (fun sn => with_child d c (do_before d sn))
  | OpAppendBasedOnParent e pe c =>
    with1 d e (fun en => with1 d pe (fun pn => with_child d c (fun cc =>
      match parent_of d en with
      | Some _ => do_before d en cc
      | None => do_append d pn cc
      end)))
  | OpAppendDoctype n p s => append_node (alloc d (Doctype n p s) []) 0 (size d)
  | OpAddAttrsIfMissing t new =>
    with1 d t (fun tn =>
      match data_of d tn with
      | Element nm at_ tm ip => set_data d tn (Element nm (add_missing at_ new) tm ip)
      | _ => d
      end)
  | OpRemoveFromParent t => with1 d t (detach d)
  | OpReparentChildren a b => with1 d a (fun an => with1 d b (fun bn => reparent d an bn))
  | OpGetTemplateContents t r =>
    with1 d t (fun tn =>
      match data_of d tn with
      | Element _ _ (Some c) _ => if Nat.eqb r (length (d_names d)) then add_name d c else d
      | _ => d
      end)
  | OpSetQuirks q => {| d_nodes := d_nodes d ; d_names := d_names d ; d_quirks := q |}
  | OpCloneOption o => with1 d o (clone_option d)
  | OpMarkScriptStarted _ | OpPop _ | OpSetLine _ | OpAssociateForm _ _ _ _
  | OpElemName _ | OpIsMathmlIp _ | OpParseError => d
  end.

Definition run_from (d : dom) (ops : list sinkop) : dom := fold_left apply ops d.
Definition run (ops : list sinkop) : dom := run_from init ops.

(* ---------- the documented calling contract ---------- *)

(* is [c] the node [p] or one of its ancestors?  (walks upwards from [p];
   answers true when the fuel runs out, so that "false" is always reliable) *)
Fixpoint reaches_up (d : dom) (fuel : nat) (c p : nid) : bool :=
  match fuel with
  | 0 => true
  | S f =>
    if Nat.eqb p c then true
    else match parent_of d p with
         | Some q => reaches_up d f c q
         | None => false
         end
  end.
Definition in_subtree (d : dom) (c p : nid) : bool := reaches_up d (S (size d)) c p.

Definition elem_h (d : dom) (h : handle) : bool :=
  match resolve d h with Some n => is_element (data_of d n) | None => false end.

(* a node handed over for insertion below [p]: created by this sink, without a
   parent, and not [p] itself or one of its ancestors *)
Definition insertable (d : dom) (p : nid) (c : child) : bool :=
  match c with
  | inr _ => true
  | inl h =>
    match resolve d h with
    | Some n =>
      is_created (data_of d n) &&
      match parent_of d n with None => true | Some _ => false end &&
      negb (in_subtree d n p)
    | None => false
    end
  end.

Definition append_ok (d : dom) (pn : nid) (c : child) : bool :=
  is_container (data_of d pn) && insertable d pn c.
Definition before_ok (d : dom) (sn : nid) (c : child) : bool :=
  negb (is_text (data_of d sn)) &&
  match parent_of d sn with
  | Some p => insertable d p c
  | None => false
  end.

Definition fresh_h (d : dom) (h : handle) : bool := Nat.eqb h (length (d_names d)).

Definition contract_ok (d : dom) (op : sinkop) : bool :=
  match op with
  | OpCreateElement h _ at_ _ _ _ => fresh_h d h && attrs_distinct at_
  | OpCreateComment h _ | OpCreatePi h _ _ => fresh_h d h
  | OpAppend p c =>
    match resolve d p with Some pn => append_ok d pn c | None => false end
  | OpAppendBeforeSibling s c =>
    match resolve d s with Some sn => before_ok d sn c | None => false end
  | OpAppendBasedOnParent e pe c =>
    elem_h d e && elem_h d pe &&
    match resolve d e, resolve d pe with
    | Some en, Some pn =>
      match parent_of d en with
      | Some _ => before_ok d en c
      | None => append_ok d pn c
      end
    | _, _ => false
    end
  | OpAppendDoctype _ _ _ =>
    (* at most once, and before any element: the document has neither yet *)
    forallb (fun k => match data_of d k with Doctype _ _ _ | Element _ _ _ _ => false | _ => true end)
            (kids d 0)
  | OpAddAttrsIfMissing t new => elem_h d t && attrs_distinct new
  | OpRemoveFromParent t => match resolve d t with Some _ => true | None => false end
  | OpReparentChildren a b =>
    match resolve d a, resolve d b with
    | Some an, Some bn =>
      is_container (data_of d an) && is_container (data_of d bn) && negb (in_subtree d an bn)
    | _, _ => false
    end
  | OpGetTemplateContents t r =>
    match resolve d t with
    | Some tn =>
      match data_of d tn with
      | Element _ _ (Some c) _ =>
        match index_of c (d_names d) with
        | Some k => Nat.eqb r k
        | None => fresh_h d r
        end
      | _ => false
      end
    | None => false
    end
  | OpMarkScriptStarted h | OpPop h | OpElemName h | OpIsMathmlIp h => elem_h d h
  | OpAssociateForm t f e pe =>
    elem_h d t && elem_h d f && elem_h d e &&
    match pe with Some x => elem_h d x | None => true end
  | OpCloneOption o =>
    match resolve d o with Some n => is_html (data_of d n) s_option | None => false end
  | OpSetQuirks _ | OpSetLine _ | OpParseError => true
  end.

(* every operation of the sequence is issued in a state in which it is allowed *)
Fixpoint contract_run (d : dom) (ops : list sinkop) : bool :=
  match ops with
  | [] => true
  | op :: t => contract_ok d op && contract_run (apply d op) t
  end.

(* ---------- rose-tree view ---------- *)
Inductive tree := T (id : nid) (x : data) (ks : list tree).

Fixpoint all_some {A B} (f : A -> option B) (l : list A) : option (list B) :=
  match l with
  | [] => Some []
  | x :: t =>
    match f x, all_some f t with
    | Some a, Some b => Some (a :: b)
    | _, _ => None
    end
  end.

(* None when the fuel does not suffice (cyclic arena, or fuel below the depth) *)
Fixpoint to_tree (fuel : nat) (d : dom) (n : nid) : option tree :=
  match fuel with
  | 0 => None
  | S f =>
    match all_some (to_tree f d) (kids d n) with
    | Some ts => Some (T n (data_of d n) ts)
    | None => None
    end
  end.

Fixpoint tree_ids (t : tree) : list nid :=
  match t with T n _ ks => n :: flat_map tree_ids ks end.

(* the same tree with node identities (and template references) forgotten *)
Fixpoint erase (t : tree) : tree :=
  match t with
  | T _ x ks =>
    T 0 (match x with Element nm a (Some _) ip => Element nm a (Some 0) ip | y => y end) (map erase ks)
  end.
