(* Lemmas about the list toolkit and the attribute functions of DomSpec.v. *)
From Coq Require Import List NArith Bool Arith Lia.
From HV Require Import Dom.DomSpec.
Import ListNotations.

(* ---------- upd ---------- *)
Lemma upd_length {A} i (f : A -> A) l : length (upd i f l) = length l.
Proof. revert i; induction l; intros [|i]; simpl; auto. Qed.

Lemma nth_upd_eq {A} i (f : A -> A) l d : i < length l -> nth i (upd i f l) d = f (nth i l d).
Proof. revert i; induction l; intros [|i] H; simpl in *; try lia; auto. apply IHl; lia. Qed.

Lemma nth_upd_neq {A} i j (f : A -> A) l d : i <> j -> nth j (upd i f l) d = nth j l d.
Proof.
  revert i j; induction l; intros [|i] [|j] H; simpl; auto; try congruence.
Qed.

Lemma upd_oob {A} i (f : A -> A) l : length l <= i -> upd i f l = l.
Proof. revert i; induction l; intros [|i] H; simpl in *; auto; try lia. f_equal; apply IHl; lia. Qed.

Lemma map_upd {A B} (g : A -> B) f f' i l :
  (forall x, g (f x) = f' (g x)) -> map g (upd i f l) = upd i f' (map g l).
Proof. intros H; revert i; induction l; intros [|i]; simpl; auto; f_equal; auto. Qed.

Lemma nth_app_old {A} (l : list A) x d i : i <> length l -> nth i (l ++ [x]) d = nth i l d.
Proof.
  intros H. destruct (Nat.lt_ge_cases i (length l)).
  - apply app_nth1; auto.
  - rewrite app_nth2 by lia. rewrite (nth_overflow l) by lia.
    destruct (i - length l) eqn:E; [lia|]. simpl. destruct n; auto.
Qed.

(* ---------- mem / index_of ---------- *)
Lemma mem_In x l : mem x l = true <-> In x l.
Proof.
  unfold mem. rewrite existsb_exists. split.
  - intros [y [H1 H2]]. apply Nat.eqb_eq in H2. subst; auto.
  - intros H. exists x. split; auto. apply Nat.eqb_refl.
Qed.

Lemma mem_false x l : mem x l = false <-> ~ In x l.
Proof. rewrite <- mem_In. destruct (mem x l); split; congruence. Qed.

Lemma index_of_In x l : In x l -> exists i, index_of x l = Some i.
Proof.
  induction l; simpl; [tauto|]. intros H.
  destruct (Nat.eqb a x) eqn:E; [eauto|].
  apply Nat.eqb_neq in E. destruct H; [congruence|].
  destruct (IHl H) as [i Hi]. rewrite Hi. simpl; eauto.
Qed.

Lemma index_of_Some x l i : index_of x l = Some i -> i < length l /\ nth i l 0 = x /\ In x l.
Proof.
  revert i; induction l; simpl; [discriminate|]. intros i.
  destruct (Nat.eqb a x) eqn:E.
  - apply Nat.eqb_eq in E. intros H; inversion H; subst. repeat split; auto; lia.
  - destruct (index_of x l) eqn:F; simpl; [|discriminate].
    intros H; inversion H; subst. destruct (IHl n eq_refl) as [A [B C]].
    repeat split; auto; lia.
Qed.

Lemma index_of_None x l : index_of x l = None -> ~ In x l.
Proof.
  intros H HI. destruct (index_of_In _ _ HI) as [i Hi]. congruence.
Qed.

(* ---------- insertion before a sibling ---------- *)
Lemma insert_at_before sib c l i :
  index_of sib l = Some i -> firstn i l ++ c :: skipn i l = insert_before sib c l.
Proof.
  revert i; induction l; simpl; [discriminate|]. intros i.
  destruct (Nat.eqb a sib) eqn:E.
  - intros H; inversion H; subst. reflexivity.
  - destruct (index_of sib l) eqn:F; simpl; [|discriminate].
    intros H; inversion H; subst. simpl. f_equal. apply IHl; auto.
Qed.

Lemma In_insert_before sib c l x :
  In sib l -> (In x (insert_before sib c l) <-> x = c \/ In x l).
Proof.
  induction l; simpl; [tauto|]. intros H.
  destruct (Nat.eqb a sib) eqn:E; simpl.
  - intuition.
  - apply Nat.eqb_neq in E. destruct H; [congruence|].
    specialize (IHl H). intuition.
Qed.

Lemma insert_before_absent sib c l : ~ In sib l -> insert_before sib c l = l.
Proof.
  induction l; simpl; auto. intros H.
  destruct (Nat.eqb a sib) eqn:E.
  - apply Nat.eqb_eq in E. tauto.
  - f_equal. apply IHl. tauto.
Qed.

Lemma NoDup_insert_before sib c l : NoDup l -> ~ In c l -> NoDup (insert_before sib c l).
Proof.
  induction l; simpl; auto. intros H Hc.
  inversion H; subst.
  destruct (Nat.eqb a sib) eqn:E.
  - constructor; [simpl; tauto|auto].
  - constructor.
    + intros HI. destruct (in_dec Nat.eq_dec sib l) as [Hs|Hs].
      * apply (In_insert_before sib c l a Hs) in HI. destruct HI; [subst; tauto|tauto].
      * rewrite insert_before_absent in HI; auto.
    + apply IHl; auto; tauto.
Qed.

(* ---------- previous sibling ---------- *)
Lemma prev_aux_index sib l i prev :
  index_of sib l = Some i ->
  prev_aux prev sib l = match i with 0 => prev | S j => Some (nth j l 0) end.
Proof.
  revert i prev; induction l; simpl; [discriminate|]. intros i prev.
  destruct (Nat.eqb a sib) eqn:E.
  - intros H; inversion H; subst; auto.
  - destruct (index_of sib l) eqn:F; simpl; [|discriminate].
    intros H; inversion H; subst. rewrite (IHl n (Some a) eq_refl).
    destruct n; auto.
Qed.

Lemma prev_of_index sib l i :
  index_of sib l = Some i ->
  prev_of sib l = match i with 0 => None | S j => Some (nth j l 0) end.
Proof. apply prev_aux_index. Qed.

(* ---------- removal ---------- *)
Lemma In_remove_all x t l : In x (remove_all t l) <-> In x l /\ x <> t.
Proof.
  unfold remove_all. rewrite filter_In. rewrite negb_true_iff, Nat.eqb_neq. tauto.
Qed.

Lemma NoDup_remove_all t l : NoDup l -> NoDup (remove_all t l).
Proof. apply NoDup_filter. Qed.

Lemma remove_all_absent t l : ~ In t l -> remove_all t l = l.
Proof.
  induction l; simpl; auto. intros H.
  destruct (Nat.eqb a t) eqn:E; simpl.
  - apply Nat.eqb_eq in E. tauto.
  - f_equal. apply IHl. tauto.
Qed.

Lemma remove_at_all t l i :
  NoDup l -> index_of t l = Some i -> firstn i l ++ skipn (S i) l = remove_all t l.
Proof.
  revert i; induction l; simpl; [discriminate|]. intros i ND.
  inversion ND; subst.
  destruct (Nat.eqb a t) eqn:E; simpl.
  - intros H; inversion H; subst. simpl. apply Nat.eqb_eq in E; subst.
    symmetry. apply remove_all_absent; auto.
  - destruct (index_of t l) eqn:F; simpl; [|discriminate].
    intros H; inversion H; subst. simpl. f_equal. apply IHl; auto.
Qed.

(* ---------- name equality ---------- *)
Lemma str_eqb_eq a b : str_eqb a b = true <-> a = b.
Proof.
  revert b; induction a; intros [|y b]; simpl; split; intros H; try discriminate; auto.
  - apply andb_true_iff in H. destruct H as [H1 H2].
    apply N.eqb_eq in H1. apply IHa in H2. subst; auto.
  - inversion H; subst. rewrite N.eqb_refl. simpl. apply IHa; auto.
Qed.

Lemma ostr_eqb_eq a b : ostr_eqb a b = true <-> a = b.
Proof.
  destruct a, b; simpl; split; intros H; try discriminate; auto.
  - apply str_eqb_eq in H; subst; auto.
  - inversion H; subst. apply str_eqb_eq; auto.
Qed.

Lemma qn_eqb_eq a b : qn_eqb a b = true <-> a = b.
Proof.
  unfold qn_eqb. rewrite !andb_true_iff, ostr_eqb_eq, !str_eqb_eq.
  destruct a, b; simpl. split.
  - intros [[A B] C]; subst; auto.
  - intros H; inversion H; auto.
Qed.

Lemma has_attr_In q l : has_attr q l = true <-> exists a, In a l /\ d_name a = q.
Proof.
  unfold has_attr. rewrite existsb_exists. split; intros [a [H1 H2]]; exists a; split; auto.
  - apply qn_eqb_eq; auto.
  - apply qn_eqb_eq; auto.
Qed.

Lemma has_attr_app q l1 l2 : has_attr q (l1 ++ l2) = has_attr q l1 || has_attr q l2.
Proof. unfold has_attr. apply existsb_app. Qed.

(* ---------- add_attrs_if_missing: sequential = against the original set ---------- *)
Lemma filter_ext_in' {A} (f g : A -> bool) l : (forall x, In x l -> f x = g x) -> filter f l = filter g l.
Proof.
  induction l; simpl; auto. intros H.
  rewrite (H a) by auto. rewrite IHl; auto.
Qed.

Lemma add_missing_filter existing new :
  attrs_distinct new = true ->
  add_missing existing new =
  existing ++ filter (fun a => negb (has_attr (d_name a) existing)) new.
Proof.
  revert existing; induction new as [|a t IH]; intros existing H; simpl.
  - rewrite app_nil_r; auto.
  - simpl in H. apply andb_true_iff in H. destruct H as [Ha Ht].
    apply negb_true_iff in Ha.
    destruct (has_attr (d_name a) existing) eqn:E; simpl.
    + apply IH; auto.
    + rewrite IH by auto. rewrite <- app_assoc. simpl. f_equal. f_equal.
      apply filter_ext_in'. intros x Hx.
      rewrite has_attr_app. simpl.
      destruct (qn_eqb (d_name a) (d_name x)) eqn:Q.
      * apply qn_eqb_eq in Q.
        assert (has_attr (d_name a) t = true).
        { apply has_attr_In. exists x; split; auto. }
        congruence.
      * rewrite orb_false_r. auto.
Qed.
