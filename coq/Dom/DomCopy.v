(* When is DomSpec.copy a genuine deep copy?  The fuelled recursion of [copy]
   (and of RcDom's clone_with_subtree, which has no fuel and would recurse for
   ever) descends through child lists AND template contents.  [closed fuel d n]
   says that this descent from [n] ends before the fuel does: the subtree of [n],
   template contents included, is finite - no template sits (directly or through
   other templates) inside its own contents.  The calling contract does not
   exclude such a cycle (it only looks at parent chains); no tree builder ever
   builds one. *)
From Coq Require Import List NArith Bool Arith.
From HV Require Import Dom.DomSpec.
Import ListNotations.

Fixpoint closed (fuel : nat) (d : dom) (n : nid) : bool :=
  match fuel with
  | 0 => false
  | S f =>
    forallb (closed f d) (kids d n) &&
    match data_of d n with
    | Element _ _ (Some t) _ => closed f d t
    | _ => true
    end
  end.

(* the children of the option handed to maybe_clone_an_option_into_selectedcontent
   can be deep-copied with the fuel DomSpec.copy_all uses *)
Definition clone_finite_op (d : dom) (op : sinkop) : bool :=
  match op with
  | OpCloneOption o =>
    match resolve d o with
    | Some n => forallb (closed (S (size d)) d) (kids d n)
    | None => true
    end
  | _ => true
  end.

Fixpoint clone_finite_run (d : dom) (ops : list sinkop) : bool :=
  match ops with
  | [] => true
  | op :: t => clone_finite_op d op && clone_finite_run (apply d op) t
  end.
