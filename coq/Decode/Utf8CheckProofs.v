(* Facts about the from_utf8 model (Utf8Check.v): one validation step agrees
   with the strict decoder [dec1] and with the table-free notion "prefix of a
   well-formed sequence" of Utf8DecSpec.v; the shape of every answer of
   [check]. *)
From Coq Require Import List NArith Bool Lia ZArith ZifyBool ZifyN.
From HV Require Import Base.Utf8 Decode.Utf8Check Decode.Utf8DecSpec.
Import ListNotations.
Local Open Scope N_scope.

Lemma dec1_inv bs c r : dec1 bs = Some (c, r) -> is_scalar c = true /\ bs = enc c ++ r.
Proof.
  unfold dec1. destruct bs as [|b0 t]; [discriminate|].
  destruct (b0 <? 0x80) eqn:H1.
  { intros H; inversion H; subst. unfold is_scalar, enc. rewrite H1. split; [lia|reflexivity]. }
  destruct (b0 <? 0xC2) eqn:H2; [discriminate|].
  destruct (b0 <? 0xE0) eqn:H3.
  { destruct t as [|b1 t1]; [discriminate|]. unfold is_cont.
    destruct ((0x80 <=? b1) && (b1 <? 0xC0)) eqn:H4; [|discriminate].
    intros H; inversion H; subst; clear H. unfold is_scalar, enc.
    split; [lia|].
    replace (_ <? 0x80) with false by lia.
    replace (_ <? 0x800) with true by lia.
    cbn [app]. f_equal; [lia|]. f_equal. lia. }
  destruct (b0 <? 0xF0) eqn:H4.
  { destruct t as [|b1 [|b2 t2]]; try discriminate. unfold is_cont.
    match goal with |- (if ?b then _ else _) = _ -> _ => destruct b eqn:H5; [|discriminate] end.
    intros H; inversion H; subst; clear H. unfold is_scalar, enc.
    split; [lia|].
    replace (_ <? 0x80) with false by lia.
    replace (_ <? 0x800) with false by lia.
    replace (_ <? 0x10000) with true by lia.
    cbn [app]. f_equal; [lia|]. f_equal; [lia|]. f_equal. lia. }
  destruct (b0 <? 0xF5) eqn:H5; [|discriminate].
  destruct t as [|b1 [|b2 [|b3 t3]]]; try discriminate. unfold is_cont.
  match goal with |- (if ?b then _ else _) = _ -> _ => destruct b eqn:H6; [|discriminate] end.
  intros H; inversion H; subst; clear H. unfold is_scalar, enc.
  split; [lia|].
  replace (_ <? 0x80) with false by lia.
  replace (_ <? 0x800) with false by lia.
  replace (_ <? 0x10000) with false by lia.
  cbn [app]. f_equal; [lia|]. f_equal; [lia|]. f_equal; [lia|]. f_equal. lia.
Qed.

Ltac split_ifs :=
  repeat match goal with
  | |- context [if ?b then _ else _] => let E := fresh "E" in destruct b eqn:E
  | H : context [if ?b then _ else _] |- _ => let E := fresh "E" in destruct b eqn:E
  end.

(* width by ranges *)
Lemma width_cases b :
  (b < 0x80 /\ width b = 1%nat) \/
  ((0x80 <= b < 0xC2 \/ 0xF5 <= b) /\ width b = 0%nat) \/
  (0xC2 <= b < 0xE0 /\ width b = 2%nat) \/
  (0xE0 <= b < 0xF0 /\ width b = 3%nat) \/
  (0xF0 <= b < 0xF5 /\ width b = 4%nat).
Proof. unfold width. split_ifs; lia. Qed.

Lemma second3_dec b0 b1 : 0xE0 <= b0 < 0xF0 ->
  second3 b0 b1 = is_cont b1 && (negb (b0 =? 0xE0) || (0xA0 <=? b1)) && (negb (b0 =? 0xED) || (b1 <? 0xA0)).
Proof. unfold second3, is_cont. intros. lia. Qed.

Lemma second4_dec b0 b1 : 0xF0 <= b0 < 0xF5 ->
  second4 b0 b1 = is_cont b1 && (negb (b0 =? 0xF0) || (0x90 <=? b1)) && (negb (b0 =? 0xF4) || (b1 <? 0x90)).
Proof. unfold second4, is_cont. intros. lia. Qed.

Ltac norm_lead b0 :=
  repeat match goal with
  | |- context [b0 <? ?k] =>
      first [ replace (b0 <? k) with true by lia | replace (b0 <? k) with false by lia ]
  end.

Lemma step1_bridge bs :
  match step1 bs with
  | Adv n => exists c, dec1 bs = Some (c, skipn n bs) /\ (n <= length bs)%nat /\ (1 <= n)%nat
  | Bad k => dec1 bs = None /\ bad_len bs = k /\ (1 <= k <= length bs)%nat
  | Inc => dec1 bs = None /\
           (bs <> [] -> bad_len bs = length bs /\ wf_prefix bs = true /\ (length bs <= 3)%nat)
  end.
Proof.
  destruct bs as [|b0 t]; [cbn; split; [reflexivity|congruence]|].
  unfold step1.
  destruct (width_cases b0) as [[R W]|[[R W]|[[R W]|[[R W]|[R W]]]]]; rewrite W.
  - (* ascii *) exists b0. unfold dec1. norm_lead b0. cbn. repeat split; lia.
  - unfold dec1, bad_len, wf_prefix.
    destruct t as [|b1 [|b2 t2]]; cbn [length firstn skipn Nat.leb andb];
    destruct R; norm_lead b0; cbn; repeat split; try lia.
  - (* 2-byte *)
    unfold dec1, bad_len, wf_prefix.
    destruct t as [|b1 t1]; cbn [length firstn skipn Nat.leb andb]; norm_lead b0.
    + repeat split; try reflexivity; try lia.
    + destruct (is_cont b1) eqn:C1.
      * eexists; repeat split; cbn; lia.
      * destruct t1 as [|b2 t2]; cbn [length firstn skipn Nat.leb andb]; norm_lead b0; rewrite ?C1; cbn;
        repeat split; lia.
  - (* 3-byte *)
    unfold bad_len, wf_prefix, dec1.
    destruct t as [|b1 t1]; cbn [length firstn skipn Nat.leb andb]; norm_lead b0.
    + repeat split; try reflexivity; try lia.
    + rewrite (second3_dec b0 b1 R).
      destruct (is_cont b1) eqn:C1, (negb (b0 =? 224) || (160 <=? b1)) eqn:X1,
               (negb (b0 =? 237) || (b1 <? 160)) eqn:X2; cbn [andb];
      destruct t1 as [|b2 t2]; cbn [length firstn skipn Nat.leb andb];
      try (destruct (is_cont b2) eqn:C2; cbn [andb]);
      try (destruct t2 as [|b3 t3]; cbn [length firstn skipn Nat.leb andb]);
      try (eexists; repeat split; cbn; lia);
      repeat split; try reflexivity; try congruence; cbn; try lia.
  - (* 4-byte *)
    unfold bad_len, wf_prefix, dec1.
    destruct t as [|b1 t1]; cbn [length firstn skipn Nat.leb andb]; norm_lead b0.
    + repeat split; try reflexivity; try lia.
    + rewrite (second4_dec b0 b1 R).
      destruct (is_cont b1) eqn:C1, (negb (b0 =? 240) || (144 <=? b1)) eqn:X1,
               (negb (b0 =? 244) || (b1 <? 144)) eqn:X2; cbn [andb];
      destruct t1 as [|b2 t2]; cbn [length firstn skipn Nat.leb andb];
      try (destruct (is_cont b2) eqn:C2; cbn [andb]);
      try (destruct t2 as [|b3 t3]; cbn [length firstn skipn Nat.leb andb]);
      try (destruct (is_cont b3) eqn:C3; cbn [andb]);
      try (eexists; repeat split; cbn; lia);
      repeat split; try reflexivity; try congruence; cbn; try lia.
Qed.

Lemma step1_app bs z : step1 bs <> Inc -> step1 (bs ++ z) = step1 bs.
Proof.
  destruct bs as [|b0 bs]; [cbn; congruence|].
  destruct bs as [|b1 [|b2 [|b3 t]]]; cbn [app]; unfold step1;
  destruct (width b0) as [|[|[|[|[|w]]]]]; try congruence; try reflexivity;
  split_ifs; try congruence; try reflexivity.
Qed.

Lemma step1_width b0 t :
  match step1 (b0 :: t) with
  | Adv n => n = width b0
  | Bad k => True
  | Inc => (length (b0 :: t) < width b0)%nat
  end.
Proof.
  unfold step1.
  destruct (width b0) as [|[|[|[|[|w]]]]]; auto;
  destruct t as [|b1 [|b2 [|b3 t]]]; cbn [length]; split_ifs; auto; lia.
Qed.

(* extending an incomplete prefix: an error found later is at least as long *)
Lemma step1_inc_ext p x :
  p <> [] -> step1 p = Inc ->
  match step1 (p ++ x) with
  | Adv n => (length p < n)%nat
  | Bad k => (length p <= k)%nat
  | Inc => True
  end.
Proof.
  destruct p as [|b0 p]; [congruence|]; intros _.
  destruct p as [|b1 [|b2 [|b3 t]]]; cbn [app]; unfold step1;
  destruct (width b0) as [|[|[|[|[|w]]]]]; try congruence; cbn [length];
  destruct x as [|x0 [|x1 [|x2 x]]]; cbn [app]; split_ifs; try congruence; auto; try lia.
Qed.

(* ---- valid UTF-8 ---------------------------------------------------------- *)
Lemma valid_nil : valid_utf8 [].
Proof. exists []. split; [constructor|reflexivity]. Qed.

Lemma valid_cons c a : is_scalar c = true -> valid_utf8 a -> valid_utf8 (enc c ++ a).
Proof.
  intros Hc [cs [Hs ->]]. exists (c :: cs). split; [constructor; assumption|reflexivity].
Qed.

Lemma valid_app a b : valid_utf8 a -> valid_utf8 b -> valid_utf8 (a ++ b).
Proof.
  intros [ca [Ha ->]] [cb [Hb ->]]. exists (ca ++ cb). split.
  - apply Forall_app; split; assumption.
  - symmetry; apply encs_app.
Qed.

(* a well-formed step is the encoding of a scalar value *)
Lemma step1_adv bs n : step1 bs = Adv n ->
  exists c, is_scalar c = true /\ bs = enc c ++ skipn n bs /\ length (enc c) = n /\
            dec1 bs = Some (c, skipn n bs).
Proof.
  intros H. pose proof (step1_bridge bs) as B. rewrite H in B.
  destruct B as [c [D [L1 L2]]]. exists c.
  destruct (dec1_inv _ _ _ D) as [Hc E]. repeat split; auto.
  apply (f_equal (@length N)) in E. rewrite app_length, skipn_length in E. lia.
Qed.

Lemma step1_enc c r : is_scalar c = true -> step1 (enc c ++ r) = Adv (length (enc c)).
Proof.
  intros Hc. pose proof (step1_bridge (enc c ++ r)) as B.
  rewrite (dec1_enc c r Hc) in B.
  destruct (step1 (enc c ++ r)) as [n|k|].
  - destruct B as [c' [D [L1 L2]]]. inversion D as [[E1 E2]]. subst c'.
    f_equal. apply (f_equal (@length N)) in E2.
    rewrite skipn_length, app_length in E2. rewrite app_length in L1. lia.
  - destruct B; discriminate.
  - destruct B; discriminate.
Qed.

(* ---- the answers of check -------------------------------------------------- *)
Definition err_step (e : option nat) : step :=
  match e with Some k => Bad k | None => Inc end.

Lemma check_fuel_spec fuel : forall bs pos, (length bs <= fuel)%nat ->
  match check_fuel fuel pos bs with
  | COk => valid_utf8 bs
  | CErr v e => exists a r, bs = a ++ r /\ valid_utf8 a /\ v = (pos + length a)%nat /\
                            r <> [] /\ step1 r = err_step e
  end.
Proof.
  induction fuel as [|f IH]; intros bs pos L.
  - destruct bs; [apply valid_nil|cbn in L; lia].
  - destruct bs as [|b0 t]; [apply valid_nil|].
    cbn [check_fuel]. remember (b0 :: t) as bs eqn:Ebs.
    destruct (step1 bs) as [n|k|] eqn:S1.
    + destruct (step1_adv _ _ S1) as [c [Hc [E [Ln D]]]].
      assert (1 <= n)%nat by (rewrite <- Ln; apply enc_length_pos).
      assert (Lr : (length (skipn n bs) <= f)%nat).
      { rewrite skipn_length. subst bs. cbn [length] in *. lia. }
      specialize (IH (skipn n bs) (pos + n)%nat Lr).
      destruct (check_fuel f (pos + n) (skipn n bs)) as [|v e].
      * rewrite E. apply valid_cons; assumption.
      * destruct IH as [a [r [E2 [Va [Hv [Hr Hs]]]]]].
        exists (enc c ++ a), r. repeat split; auto.
        -- rewrite <- app_assoc, <- E2. exact E.
        -- apply valid_cons; assumption.
        -- rewrite app_length. lia.
    + exists [], bs. repeat split; auto using valid_nil;
        try (cbn [length]; lia); subst bs; discriminate.
    + exists [], bs. repeat split; auto using valid_nil;
        try (cbn [length]; lia); subst bs; discriminate.
Qed.

Theorem check_spec bs :
  match check bs with
  | COk => valid_utf8 bs
  | CErr v e => exists a r, bs = a ++ r /\ valid_utf8 a /\ v = length a /\
                            r <> [] /\ step1 r = err_step e
  end.
Proof. apply (check_fuel_spec (length bs) bs 0%nat). lia. Qed.

(* ---- the table-based [wf_prefix] of the specification is exactly "non-empty
   initial subsequence of the encoding of some scalar value" -------------- *)
Definition pad (p : list N) : list N :=
  match p with
  | [b0] =>
    if b0 <? 0x80 then []
    else if b0 <? 0xE0 then [0x80]
    else if b0 <? 0xF0 then [if b0 =? 0xE0 then 0xA0 else 0x80; 0x80]
    else [if b0 =? 0xF0 then 0x90 else 0x80; 0x80; 0x80]
  | [b0; _] => if b0 <? 0xE0 then [] else if b0 <? 0xF0 then [0x80] else [0x80; 0x80]
  | [b0; _; _] => if b0 <? 0xF0 then [] else [0x80]
  | _ => []
  end.

Lemma wf_prefix_completes p : wf_prefix p = true -> exists c, dec1 (p ++ pad p) = Some (c, []).
Proof.
  destruct p as [|b0 [|b1 [|b2 [|b3 [|b4 p]]]]]; unfold wf_prefix, pad, dec1; cbn [app];
  intros W; try discriminate; unfold is_cont in *;
  repeat match goal with
  | |- context [if ?b then _ else _] => let E := fresh "E" in destruct b eqn:E; try discriminate; try lia
  | H : context [if ?b then _ else _] |- _ => let E := fresh "E" in destruct b eqn:E; try discriminate; try lia
  end; try (eexists; reflexivity).
Qed.

Lemma dec1_whole_prefix p s c : p <> [] -> dec1 (p ++ s) = Some (c, []) -> wf_prefix p = true.
Proof.
  intros Hne.
  destruct p as [|b0 [|b1 [|b2 [|b3 [|b4 p]]]]]; [congruence| | | | |];
  destruct s as [|s0 [|s1 [|s2 [|s3 s]]]]; unfold wf_prefix, dec1; cbn [app]; unfold is_cont;
  repeat match goal with
  | |- context [if ?b then _ else _] => let E := fresh "E" in destruct b eqn:E; try discriminate; try lia
  end; intros H; try discriminate; try reflexivity; try (inversion H; fail); try lia.
Qed.

Theorem wf_prefix_iff p :
  wf_prefix p = true <-> p <> [] /\ exists c s, is_scalar c = true /\ enc c = p ++ s.
Proof.
  split.
  - intros W. split; [intros ->; discriminate|].
    destruct (wf_prefix_completes p W) as [c D].
    destruct (dec1_inv _ _ _ D) as [Hc E]. exists c, (pad p). split; [exact Hc|].
    rewrite app_nil_r in E. symmetry; exact E.
  - intros [Hne [c [s [Hc E]]]].
    apply (dec1_whole_prefix p s c Hne). rewrite <- E.
    pose proof (dec1_enc c [] Hc) as D. rewrite app_nil_r in D. exact D.
Qed.
