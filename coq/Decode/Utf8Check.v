(* Model of Rust's core::str::from_utf8 (core/src/str/validations.rs,
   run_utf8_validation) as used by tendril/src/utf8_decode.rs: the answer is
   Ok or Utf8Error { valid_up_to, error_len }.

     error_len = None      the input ended inside a sequence all of whose
                           bytes so far are allowed at their position
     error_len = Some k    k in 1..3: the bytes [valid_up_to, valid_up_to+k)
                           are the invalid sequence std reports (lead byte plus
                           the continuation bytes that were still acceptable)

   The byte ranges are those of Unicode table 3-7 exactly as the Rust match
   writes them.  No proofs here: this file is run against std (harness bin
   `decode`, lines "K ..."). *)
From Coq Require Import List NArith Bool.
From HV Require Import Base.Utf8.
Import ListNotations.
Local Open Scope N_scope.

(* utf8_char_width (UTF8_CHAR_WIDTH table): 1 for ASCII, 0 for 80..C1 and
   F5..FF, 2 for C2..DF, 3 for E0..EF, 4 for F0..F4 *)
Definition width (b : N) : nat :=
  if b <? 0x80 then 1%nat
  else if b <? 0xC2 then 0%nat
  else if b <? 0xE0 then 2%nat
  else if b <? 0xF0 then 3%nat
  else if b <? 0xF5 then 4%nat
  else 0%nat.

(* match (first, next!()) { (0xE0, 0xA0..=0xBF) | (0xE1..=0xEC, 0x80..=0xBF)
                          | (0xED, 0x80..=0x9F) | (0xEE..=0xEF, 0x80..=0xBF) => {} } *)
Definition second3 (b0 b1 : N) : bool :=
  ((b0 =? 0xE0) && (0xA0 <=? b1) && (b1 <=? 0xBF))
  || ((0xE1 <=? b0) && (b0 <=? 0xEC) && (0x80 <=? b1) && (b1 <=? 0xBF))
  || ((b0 =? 0xED) && (0x80 <=? b1) && (b1 <=? 0x9F))
  || ((0xEE <=? b0) && (b0 <=? 0xEF) && (0x80 <=? b1) && (b1 <=? 0xBF)).

(* (0xF0, 0x90..=0xBF) | (0xF1..=0xF3, 0x80..=0xBF) | (0xF4, 0x80..=0x8F) *)
Definition second4 (b0 b1 : N) : bool :=
  ((b0 =? 0xF0) && (0x90 <=? b1) && (b1 <=? 0xBF))
  || ((0xF1 <=? b0) && (b0 <=? 0xF3) && (0x80 <=? b1) && (b1 <=? 0xBF))
  || ((b0 =? 0xF4) && (0x80 <=? b1) && (b1 <=? 0x8F)).

(* one iteration of the validation loop at the head of [bs]:
   Adv n  - a well-formed n-byte sequence, go on after it
   Bad k  - err!(Some(k))
   Inc    - err!(None): next!() ran off the end *)
Inductive step := Adv (n : nat) | Bad (k : nat) | Inc.

Definition step1 (bs : list N) : step :=
  match bs with
  | [] => Inc
  | b0 :: t =>
    match width b0 with
    | 1%nat => Adv 1
    | 2%nat =>
      match t with
      | [] => Inc
      | b1 :: _ => if is_cont b1 then Adv 2 else Bad 1
      end
    | 3%nat =>
      match t with
      | [] => Inc
      | b1 :: t1 =>
        if second3 b0 b1 then
          match t1 with
          | [] => Inc
          | b2 :: _ => if is_cont b2 then Adv 3 else Bad 2
          end
        else Bad 1
      end
    | 4%nat =>
      match t with
      | [] => Inc
      | b1 :: t1 =>
        if second4 b0 b1 then
          match t1 with
          | [] => Inc
          | b2 :: t2 =>
            if is_cont b2 then
              match t2 with
              | [] => Inc
              | b3 :: _ => if is_cont b3 then Adv 4 else Bad 3
              end
            else Bad 2
          end
        else Bad 1
      end
    | _ => Bad 1
    end
  end.

Inductive cres := COk | CErr (valid_up_to : nat) (error_len : option nat).

(* the while loop; [pos] is `index` at the top of an iteration.  fuel = number
   of bytes left (every iteration consumes at least one) *)
Fixpoint check_fuel (fuel : nat) (pos : nat) (bs : list N) : cres :=
  match bs with
  | [] => COk
  | _ =>
    match fuel with
    | O => COk
    | S f =>
      match step1 bs with
      | Adv n => check_fuel f (pos + n) (skipn n bs)
      | Bad k => CErr pos (Some k)
      | Inc => CErr pos None
      end
    end
  end.

Definition check (bs : list N) : cres := check_fuel (length bs) 0 bs.
