(* Model of tendril/src/stream.rs `decode_to_sink` and of the EncodingRs arm
   of LossyDecoder::{process, finish}, over an ABSTRACT decoder: encoding_rs
   is an external crate, its decoders are represented by Section variables
   (the contract they are assumed to satisfy is in EncLoopProofs.v).

   Also a small concrete decoder [toy_dec] with the escape handling of
   encoding_rs' ISO-2022-JP decoder (ESC ( B; a byte that was consumed while
   looking at an escape sequence is "prepended" again on the next call), used
   as the witness of C10_encoding_loop_refuted.  No proofs here. *)
From Coq Require Import List NArith Bool Arith.
From HV Require Import Base.Utf8 Decode.Utf8DecModel.
Import ListNotations.

Inductive dresult := InputEmpty | OutputFull | Malformed.

Section Loop.
  Variable dstate : Type.
  (* Decoder::decode_to_utf8_without_replacement(src, dst, last) with
     dst.len() = cap: (result, bytes read, bytes written, decoder afterwards) *)
  Variable dec : dstate -> list N -> N -> bool -> dresult * nat * list N * dstate.
  (* Decoder::max_utf8_buffer_length_without_replacement *)
  Variable maxlen : dstate -> nat -> option N.

  Definition out_events (w : list N) : list event :=
    if 0 <? length w then [Str w] else [].

  (* fn decode_to_sink(input, decoder, sink, last); fuel exhausted = hang *)
  Fixpoint decode_to_sink (fuel : nat) (s : dstate) (input : list N) (last : bool)
    : res (dstate * list event) :=
    match fuel with
    | O => Panic
    | S f =>
      let cap := N.min (match maxlen s (length input) with Some m => m | None => 8192%N end)
                       8192%N in
      let '(r, read, w, s') := dec s input cap last in
      let out := out_events w in                       (* if bytes_written > 0 { sink.process } *)
      match r with
      | InputEmpty => Done (s', out)
      | _ =>
        let out' := out ++ match r with
                           | Malformed => [Error false; Replacement]
                           | _ => []
                           end in
        if length input <? read then Panic             (* input.pop_front(bytes_read) *)
        else
          match skipn read input with
          | [] => Done (s', out')                      (* if input.is_empty() { return; } *)
          | input' =>
            match decode_to_sink f s' input' last with
            | Done (s'', evs) => Done (s'', out' ++ evs)
            | Panic => Panic
            end
          end
      end
    end.

  (* the minimal repair (NOT the code at the pinned commit): at end of stream
     keep calling until the decoder says InputEmpty, as the encoding_rs
     documentation prescribes ("re-push the remaining input", even if empty) *)
  Fixpoint decode_to_sink_repaired (fuel : nat) (s : dstate) (input : list N) (last : bool)
    : res (dstate * list event) :=
    match fuel with
    | O => Panic
    | S f =>
      let cap := N.min (match maxlen s (length input) with Some m => m | None => 8192%N end)
                       8192%N in
      let '(r, read, w, s') := dec s input cap last in
      let out := out_events w in
      match r with
      | InputEmpty => Done (s', out)
      | _ =>
        let out' := out ++ match r with
                           | Malformed => [Error false; Replacement]
                           | _ => []
                           end in
        if length input <? read then Panic
        else
          let input' := skipn read input in
          if (match input' with [] => true | _ => false end) && negb last then Done (s', out')
          else
            match decode_to_sink_repaired f s' input' last with
            | Done (s'', evs) => Done (s'', out' ++ evs)
            | Panic => Panic
            end
      end
    end.

  (* how long the loop may run: supplied by the caller of the model (the
     proofs use the decoder's progress measure) *)
  Variable fuel_of : dstate -> list N -> nat.

  (* LossyDecoder::process, EncodingRs arm *)
  Definition enc_process (s : dstate) (t : list N) : res (dstate * list event) :=
    match t with
    | [] => Done (s, [])                               (* if t.is_empty() { return; } *)
    | _ => decode_to_sink (fuel_of s t) s t false
    end.

  (* LossyDecoder::finish: decode_to_sink(Tendril::new(), decoder, sink, true) *)
  Definition enc_finish (s : dstate) : res (list event) :=
    match decode_to_sink (fuel_of s []) s [] true with
    | Done (_, evs) => Done evs
    | Panic => Panic
    end.

  Definition enc_finish_repaired (s : dstate) : res (list event) :=
    match decode_to_sink_repaired (fuel_of s []) s [] true with
    | Done (_, evs) => Done evs
    | Panic => Panic
    end.

  Fixpoint enc_run_repaired (s : dstate) (chunks : list (list N)) : res (list event) :=
    match chunks with
    | [] => enc_finish_repaired s
    | c :: cs =>
      match enc_process s c with
      | Panic => Panic
      | Done (s', evs) =>
        match enc_run_repaired s' cs with
        | Done evs' => Done (evs ++ evs')
        | Panic => Panic
        end
      end
    end.

  Fixpoint enc_run (s : dstate) (chunks : list (list N)) : res (list event) :=
    match chunks with
    | [] => enc_finish s
    | c :: cs =>
      match enc_process s c with
      | Panic => Panic
      | Done (s', evs) =>
        match enc_run s' cs with
        | Done evs' => Done (evs ++ evs')
        | Panic => Panic
        end
      end
    end.
End Loop.

(* ---------------------------------------------------------------------- *)
(* a toy stateful decoder: ASCII, ESC ( B switches to ASCII (a no-op), every
   byte >= 0x80 is malformed.  Like encoding_rs' ISO-2022-JP decoder it reports
   a broken escape sequence as Malformed for the ESC byte alone and re-emits
   the byte it had already consumed ('(') at the start of the NEXT call. *)
Inductive tstate := TA | TE1 | TE2 | TP.

Definition ESC : N := 0x1B%N.
Definition LPAR : N := 0x28%N.
Definition UPB : N := 0x42%N.

Definition mal : list event := [Error false; Replacement].

(* the complete effect of one input byte, reprocessing included *)
Definition eatA (b : N) : list event * tstate :=
  if (b =? ESC)%N then ([], TE1)
  else if (b <? 0x80)%N then ([Str [b]], TA)
  else (mal, TA).

Definition eat (st : tstate) (b : N) : list event * tstate :=
  match st with
  | TA => eatA b
  | TE1 => if (b =? LPAR)%N then ([], TE2)
           else let '(o, s) := eatA b in (mal ++ o, s)
  | TE2 => if (b =? UPB)%N then ([], TA)
           else let '(o, s) := eatA b in (mal ++ [Str [LPAR]] ++ o, s)
  | TP => let '(o, s) := eatA b in (Str [LPAR] :: o, s)
  end.

Definition eof (st : tstate) : list event :=
  match st with
  | TA => []
  | TE1 => mal
  | TE2 => mal ++ [Str [LPAR]]
  | TP => [Str [LPAR]]
  end.

(* one-shot meaning: everything the decoder produces for the whole input *)
Fixpoint toy_sem (st : tstate) (input : list N) : list event :=
  match input with
  | [] => eof st
  | b :: t => let '(o, s) := eat st b in o ++ toy_sem s t
  end.

(* one call does one micro-step (a legal, if lazy, implementation of the
   decode_to_utf8_without_replacement contract: it answers OutputFull and
   leaves the rest of the input unread) *)
Definition at_end (last : bool) (read : nat) (w : list N) (s : tstate)
  : dresult * nat * list N * tstate :=
  if last then
    match s with
    | TE1 => (Malformed, read, w, TA)
    | TE2 => (Malformed, read, w, TP)
    | TP => (InputEmpty, read, w ++ [LPAR], TA)
    | TA => (InputEmpty, read, w, TA)
    end
  else (InputEmpty, read, w, s).

Definition toy_dec (st : tstate) (src : list N) (cap : N) (last : bool)
  : dresult * nat * list N * tstate :=
  match src with
  | [] =>
    match st with
    | TP => (InputEmpty, 0, [LPAR], TA)
    | _ => at_end last 0 [] st
    end
  | b :: t =>
    let continue (w : list N) (s : tstate) :=
      match t with
      | [] => at_end last 1 w s
      | _ => (OutputFull, 1, w, s)
      end in
    match st with
    | TP => (OutputFull, 0, [LPAR], TA)
    | TA => if (b =? ESC)%N then continue [] TE1
            else if (b <? 0x80)%N then continue [b] TA
            else (Malformed, 1, [], TA)
    | TE1 => if (b =? LPAR)%N then continue [] TE2 else (Malformed, 0, [], TA)
    | TE2 => if (b =? UPB)%N then continue [] TA else (Malformed, 0, [], TP)
    end
  end.

Definition toy_maxlen (st : tstate) (n : nat) : option N := Some (N.of_nat n + 2)%N.

(* progress measure of the toy decoder *)
Definition toy_rank (st : tstate) : nat :=
  match st with TA => 0 | TE1 => 1 | TP => 1 | TE2 => 2 end.
Definition toy_mu (st : tstate) (src : list N) : nat := 3 * length src + toy_rank st.

Definition toy_run (chunks : list (list N)) : res (list event) :=
  enc_run tstate toy_dec toy_maxlen (fun s i => S (toy_mu s i)) TA chunks.
