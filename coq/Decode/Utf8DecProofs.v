(* The streaming UTF-8 decoder (Utf8DecModel.v) delivers, for EVERY list of
   chunks, exactly the whole-input lossy decode of the concatenation
   (Utf8DecSpec.v), one error() per inserted U+FFFD, valid non-empty text
   pieces only, and never reaches one of its panic sites. *)
From Coq Require Import List NArith Bool Lia Arith.
From HV Require Import Base.Utf8 Decode.Utf8Check Decode.Utf8CheckProofs
                       Decode.Utf8DecModel Decode.Utf8DecSpec.
Import ListNotations.

(* ------------------------------------------------------------------------ *)
(* the specification function unfolds one step at a time                      *)

Lemma lossy_step_shrink bs : bs <> [] -> (length (snd (lossy_step bs)) < length bs)%nat.
Proof.
  intros Hne. unfold lossy_step. destruct (dec1 bs) as [[c r]|] eqn:D.
  - destruct (dec1_inv _ _ _ D) as [_ E]. cbn [snd].
    apply (f_equal (@length N)) in E. rewrite app_length in E.
    pose proof (enc_length_pos c). lia.
  - cbn [snd]. rewrite skipn_length.
    assert (1 <= bad_len bs)%nat.
    { unfold bad_len. repeat (destruct (_ && _)); lia. }
    destruct bs; [congruence|cbn [length]; lia].
Qed.

Lemma lossy_fuel_irrel f1 : forall f2 bs, (length bs <= f1)%nat -> (length bs <= f2)%nat ->
  lossy_fuel f1 bs = lossy_fuel f2 bs.
Proof.
  induction f1 as [|f1 IH]; intros f2 bs L1 L2.
  - destruct bs; [destruct f2; reflexivity|cbn in L1; lia].
  - destruct bs as [|b t]; [destruct f2; reflexivity|].
    destruct f2 as [|f2]; [cbn in L2; lia|].
    cbn [lossy_fuel].
    pose proof (lossy_step_shrink (b :: t) ltac:(discriminate)) as S.
    destruct (lossy_step (b :: t)) as [it r]. cbn [snd] in S.
    f_equal. apply IH; cbn [length] in *; lia.
Qed.

Lemma lossy_items_nil : lossy_items [] = [].
Proof. reflexivity. Qed.

Lemma lossy_items_step bs : bs <> [] ->
  lossy_items bs = fst (lossy_step bs) :: lossy_items (snd (lossy_step bs)).
Proof.
  intros Hne. unfold lossy_items at 1.
  pose proof (lossy_step_shrink bs Hne) as S.
  destruct bs as [|b t]; [congruence|].
  cbn [length lossy_fuel]. destruct (lossy_step (b :: t)) as [it r]. cbn [fst snd] in *.
  f_equal. apply lossy_fuel_irrel; cbn [length] in *; lia.
Qed.

Lemma enc_app_nonnil c r : enc c ++ r <> [].
Proof.
  intros H. apply app_eq_nil in H. destruct H as [H _]. now apply enc_nonempty in H.
Qed.

Lemma lossy_items_ch c r : is_scalar c = true ->
  lossy_items (enc c ++ r) = Ch c :: lossy_items r.
Proof.
  intros Hc. rewrite lossy_items_step by apply enc_app_nonnil.
  unfold lossy_step. rewrite dec1_enc by assumption. reflexivity.
Qed.

Lemma lossy_items_valid cs z : scalars cs ->
  lossy_items (encs cs ++ z) = map Ch cs ++ lossy_items z.
Proof.
  induction 1 as [|c cs Hc Hs IH]; [reflexivity|].
  rewrite encs_cons, <- app_assoc, lossy_items_ch by assumption.
  cbn [map app]. f_equal. exact IH.
Qed.

(* a definite error: the replaced bytes do not depend on what follows *)
Lemma lossy_items_bad r k z : step1 r = Bad k ->
  lossy_items (r ++ z) = Repl :: lossy_items (skipn k r ++ z).
Proof.
  intros S.
  assert (S' : step1 (r ++ z) = Bad k) by (rewrite step1_app; [exact S|congruence]).
  pose proof (step1_bridge r) as B. rewrite S in B. destruct B as [_ [_ [K1 K2]]].
  pose proof (step1_bridge (r ++ z)) as B'. rewrite S' in B'. destruct B' as [D [BL _]].
  assert (Hne : r ++ z <> []).
  { destruct r; [cbn in K2; lia|discriminate]. }
  rewrite lossy_items_step by exact Hne.
  unfold lossy_step. rewrite D, BL. cbn [fst snd]. f_equal. f_equal.
  rewrite skipn_app. replace (k - length r)%nat with 0%nat by lia. reflexivity.
Qed.

(* an incomplete sequence at the very end is one replacement *)
Lemma lossy_items_inc p : p <> [] -> step1 p = Inc -> lossy_items p = [Repl].
Proof.
  intros Hne S. pose proof (step1_bridge p) as B. rewrite S in B.
  destruct B as [D B]. destruct (B Hne) as [BL _].
  rewrite lossy_items_step by exact Hne. unfold lossy_step. rewrite D, BL. cbn [fst snd].
  rewrite skipn_all. reflexivity.
Qed.

(* ------------------------------------------------------------------------ *)
(* what a list of sink events means                                           *)

Inductive denotes (report : bool) : list event -> list item -> Prop :=
| den_nil : denotes report [] []
| den_str cs evs is : scalars cs -> cs <> [] -> denotes report evs is ->
    denotes report (Str (encs cs) :: evs) (map Ch cs ++ is)
| den_bad_r eof evs is : report = true -> denotes report evs is ->
    denotes report (Error eof :: Replacement :: evs) (Repl :: is)
| den_bad_n evs is : report = false -> denotes report evs is ->
    denotes report (Replacement :: evs) (Repl :: is).

Lemma denotes_app report e1 i1 e2 i2 :
  denotes report e1 i1 -> denotes report e2 i2 -> denotes report (e1 ++ e2) (i1 ++ i2).
Proof.
  induction 1; intros H2; cbn [app]; auto.
  - rewrite <- app_assoc. apply den_str; auto.
  - apply den_bad_r; auto.
  - apply den_bad_n; auto.
Qed.

Lemma denotes_bad report eof evs is : denotes report evs is ->
  denotes report ((if report then [Error eof; Replacement] else [Replacement]) ++ evs) (Repl :: is).
Proof.
  intros H. destruct report; cbn [app].
  - apply den_bad_r; auto.
  - apply den_bad_n; auto.
Qed.

(* "if valid_len > 0 { sink.process(valid prefix) }" *)
Lemma denotes_prefix report cs evs is : scalars cs -> denotes report evs is ->
  denotes report ((if 0 <? length (encs cs) then [Str (encs cs)] else []) ++ evs)
                 (map Ch cs ++ is).
Proof.
  intros Hs H. destruct cs as [|c cs].
  - cbn. exact H.
  - assert (L : (0 <? length (encs (c :: cs)) = true)%nat).
    { apply Nat.ltb_lt. rewrite encs_cons, app_length. pose proof (enc_length_pos c). lia. }
    rewrite L. cbn [app]. apply den_str; auto. discriminate.
Qed.

Lemma enc_fffd : enc 0xFFFD%N = repl_bytes.
Proof. reflexivity. Qed.

Lemma denotes_text report evs is : denotes report evs is ->
  text evs = encs (map item_char is).
Proof.
  induction 1.
  - reflexivity.
  - unfold text in *. cbn [flat_map ev_text]. rewrite map_app, encs_app, map_map.
    cbn [item_char]. rewrite map_id. f_equal. assumption.
  - unfold text in *. cbn [flat_map ev_text map item_char app].
    rewrite encs_cons, enc_fffd. f_equal. assumption.
  - unfold text in *. cbn [flat_map ev_text map item_char app].
    rewrite encs_cons, enc_fffd. f_equal. assumption.
Qed.

Lemma n_bad_chars cs is : n_bad (map Ch cs ++ is) = n_bad is.
Proof.
  unfold n_bad. rewrite filter_app, app_length.
  replace (filter _ (map Ch cs)) with (@nil item); [reflexivity|].
  induction cs; [reflexivity|cbn; assumption].
Qed.

Lemma denotes_repl report evs is : denotes report evs is -> n_repl evs = n_bad is.
Proof.
  induction 1.
  - reflexivity.
  - rewrite n_bad_chars. exact IHdenotes.
  - unfold n_repl, n_bad in *. cbn. f_equal. exact IHdenotes.
  - unfold n_repl, n_bad in *. cbn. f_equal. exact IHdenotes.
Qed.

Lemma denotes_err evs is : denotes true evs is -> n_err evs = n_bad is.
Proof.
  induction 1.
  - reflexivity.
  - rewrite n_bad_chars. exact IHdenotes.
  - unfold n_err, n_bad in *. cbn. f_equal. exact IHdenotes.
  - discriminate.
Qed.

Lemma denotes_noerr evs is : denotes false evs is -> n_err evs = 0%nat.
Proof.
  induction 1; auto. discriminate.
Qed.

(* every text piece handed to the sink is non-empty valid UTF-8 (the Rust
   reinterprets the bytes as str without validating), and every U+FFFD is
   announced by exactly one error() immediately before it *)
Fixpoint well_formed_events (evs : list event) : Prop :=
  match evs with
  | [] => True
  | Str bs :: t => bs <> [] /\ valid_utf8 bs /\ well_formed_events t
  | Error _ :: Replacement :: t => well_formed_events t
  | _ => False
  end.

Lemma denotes_wf evs is : denotes true evs is -> well_formed_events evs.
Proof.
  induction 1; cbn; auto.
  - repeat split; auto.
    + intros E. apply encs_nil_inv in E. contradiction.
    + exists cs; auto.
  - discriminate.
Qed.

(* ------------------------------------------------------------------------ *)
(* the decoder state                                                          *)

(* the carried buffer: a non-empty byte string on which validation runs off
   the end, i.e. a proper prefix of a well-formed sequence *)
Definition incp (p : list N) : Prop := p <> [] /\ step1 p = Inc.

Definition inv (st : option incomplete) : Prop :=
  match st with Some p => incp p | None => True end.

Definition pend (st : option incomplete) : list N :=
  match st with Some p => p | None => [] end.

Lemma incp_len p : incp p -> (1 <= length p <= 3)%nat.
Proof.
  intros [Hne S]. pose proof (step1_bridge p) as B. rewrite S in B.
  destruct B as [_ B]. destruct (B Hne) as [_ [_ L]].
  destruct p; [congruence|cbn [length] in *; lia].
Qed.

Lemma incp_wf_prefix p : incp p -> wf_prefix p = true.
Proof.
  intros [Hne S]. pose proof (step1_bridge p) as B. rewrite S in B.
  destruct B as [_ B]. destruct (B Hne) as [_ [W _]]. exact W.
Qed.

(* ------------------------------------------------------------------------ *)
(* the main loop of process / decode_utf8_lossy                               *)

Lemma skipn_app_exact {A} (a r : list A) : skipn (length a) (a ++ r) = r.
Proof. rewrite skipn_app, skipn_all, Nat.sub_diag. reflexivity. Qed.

Lemma firstn_app_exact {A} (a r : list A) : firstn (length a) (a ++ r) = a.
Proof. rewrite firstn_app, firstn_all, Nat.sub_diag. cbn. apply app_nil_r. Qed.

Lemma decode_loop_spec report : forall fuel bytes, (length bytes < fuel)%nat ->
  exists st' evs is y,
    decode_loop report fuel bytes = Done (st', evs) /\ inv st' /\ denotes report evs is /\
    bytes = y ++ pend st' /\
    forall z, lossy_items (bytes ++ z) = is ++ lossy_items (pend st' ++ z).
Proof.
  induction fuel as [|f IH]; intros bytes L; [lia|].
  destruct bytes as [|b0 t].
  { exists None, [], [], []. cbn. repeat split; auto. constructor. }
  remember (b0 :: t) as bytes eqn:Eb.
  assert (Hne : bytes <> []) by (subst; discriminate).
  assert (Hdl : decode_loop report (S f) bytes =
    match decode_utf8 bytes with
    | DOk => Done (None, [Str bytes])
    | DInvalid v k =>
      let pre := (if 0 <? v then [Str (firstn v bytes)] else []) ++ bad_events report in
      if v + k <=? length bytes then
        match decode_loop report f (skipn (v + k) bytes) with
        | Done (i, evs) => Done (i, pre ++ evs)
        | Panic => Panic
        end
      else Panic
    | DIncomplete v i => Done (Some i, if 0 <? v then [Str (firstn v bytes)] else [])
    | DPanic => Panic
    end) by (subst bytes; reflexivity).
  rewrite Hdl; clear Hdl. unfold decode_utf8.
  pose proof (check_spec bytes) as C. destruct (check bytes) as [|v e].
  - (* the whole chunk is valid *)
    destruct C as [cs [Hs E]].
    exists None, [Str bytes], (map Ch cs), bytes. repeat split; auto.
    + rewrite E, <- (app_nil_r (map Ch cs)). apply den_str; auto; [|constructor].
      intros ->. cbn in E. congruence.
    + cbn [pend]. symmetry. apply app_nil_r.
    + intros z. cbn [pend app]. rewrite E. apply lossy_items_valid. assumption.
  - destruct C as [a [r [E [[cs [Hs Ea]] [Hv [Hr S]]]]]].
    assert (Lb : length bytes = (v + length r)%nat) by (rewrite E, app_length; lia).
    replace (length bytes <? v) with false by (symmetry; apply Nat.ltb_ge; lia).
    assert (Eafter : skipn v bytes = r) by (rewrite E, Hv; apply skipn_app_exact).
    assert (Efirst : firstn v bytes = a) by (rewrite E, Hv; apply firstn_app_exact).
    rewrite Eafter.
    destruct e as [k|]; cbn [err_step] in S.
    + (* invalid sequence of k bytes after the valid prefix *)
      pose proof (step1_bridge r) as B. rewrite S in B. destruct B as [_ [_ [K1 K2]]].
      replace (k <=? length r) with true by (symmetry; apply Nat.leb_le; lia).
      cbv beta iota zeta.
      replace (v + k <=? length bytes) with true by (symmetry; apply Nat.leb_le; lia).
      rewrite Efirst.
      assert (Erest : skipn (v + k) bytes = skipn k r).
      { rewrite E, Hv, skipn_app, skipn_all2 by lia.
        replace (length a + k - length a)%nat with k by lia. reflexivity. }
      rewrite Erest.
      destruct (IH (skipn k r)) as [st' [evs [is [y [R [I [Dn [Ey Hz]]]]]]]].
      { rewrite skipn_length. lia. }
      rewrite R.
      exists st', (((if 0 <? v then [Str a] else []) ++ bad_events report) ++ evs),
             (map Ch cs ++ Repl :: is), (a ++ firstn k r ++ y).
      repeat split; auto.
      * rewrite <- app_assoc. rewrite Hv, Ea. apply denotes_prefix; [assumption|].
        unfold bad_events. apply (denotes_bad report false). assumption.
      * rewrite E. rewrite <- !app_assoc. f_equal.
        rewrite <- Ey. symmetry. apply firstn_skipn.
      * intros z. rewrite E, Ea, <- app_assoc, lossy_items_valid by assumption.
        rewrite <- app_assoc. f_equal. rewrite (lossy_items_bad r k z S). cbn [app]. f_equal. apply Hz.
    + (* the chunk ends inside a sequence *)
      assert (Ip : incp r) by (split; assumption).
      pose proof (incp_len r Ip) as Lr.
      unfold incomplete_new.
      replace (length r <=? 4) with true by (symmetry; apply Nat.leb_le; lia).
      cbv beta iota zeta. rewrite Efirst.
      exists (Some r), (if 0 <? v then [Str a] else []), (map Ch cs), a.
      repeat split; auto.
      * rewrite <- (app_nil_r (if 0 <? v then _ else _)), <- (app_nil_r (map Ch cs)).
        rewrite Hv, Ea. apply denotes_prefix; [assumption|constructor].
      * intros z. cbn [pend]. rewrite E, Ea, <- app_assoc. apply lossy_items_valid. assumption.
Qed.

(* ------------------------------------------------------------------------ *)
(* completing a carried sequence with the next chunk                          *)

Lemma firstn_app_ge {A} (p x : list A) v : (length p <= v)%nat ->
  firstn v (p ++ x) = p ++ firstn (v - length p) x.
Proof. intros L. rewrite firstn_app, firstn_all2 by lia. reflexivity. Qed.

Lemma skipn_app_ge {A} (p x : list A) v : (length p <= v)%nat ->
  skipn v (p ++ x) = skipn (v - length p) x.
Proof. intros L. rewrite skipn_app, skipn_all2 by lia. reflexivity. Qed.

Lemma firstn_firstn_le {A} (l : list A) i j : (i <= j)%nat -> firstn i (firstn j l) = firstn i l.
Proof. intros L. rewrite firstn_firstn. f_equal. lia. Qed.

Lemma valid_nonnil_head a : valid_utf8 a -> a <> [] ->
  exists c a', is_scalar c = true /\ a = enc c ++ a'.
Proof.
  intros [cs [Hs ->]] Hne. destruct Hs as [|c cs Hc Hs]; [cbn in Hne; congruence|].
  exists c, (encs cs). split; [assumption|reflexivity].
Qed.

(* a valid prefix of (carried bytes ++ new bytes) swallows all carried bytes *)
Lemma valid_prefix_covers p x a r :
  incp p -> p ++ x = a ++ r -> valid_utf8 a -> a <> [] -> (length p < length a)%nat.
Proof.
  intros [Hne S] E Va Ha.
  destruct (valid_nonnil_head a Va Ha) as [c [a' [Hc ->]]].
  pose proof (step1_inc_ext p x Hne S) as X.
  rewrite E, <- app_assoc, (step1_enc c (a' ++ r) Hc) in X.
  rewrite app_length. lia.
Qed.

Inductive completed :=
| CNone (p' : incomplete)
| CSome (r : list N + list N) (rest : list N).

Lemma try_to_complete_spec p input : incp p ->
  (try_to_complete_codepoint p input = Done (p ++ input, None) /\ incp (p ++ input)) \/
  (exists r rest u, try_to_complete_codepoint p input = Done ([], Some (r, rest)) /\
      input = u ++ rest /\
      match r with
      | inl s => s = p ++ u /\ exists cs, scalars cs /\ cs <> [] /\ s = encs cs
      | inr s => s = p ++ u /\ forall z, lossy_items (p ++ input ++ z) = Repl :: lossy_items (rest ++ z)
      end).
Proof.
  intros Ip. pose proof (incp_len p Ip) as Lp.
  unfold try_to_complete_codepoint, try_complete_offsets.
  replace (4 <? length p) with false by (symmetry; apply Nat.ltb_ge; lia).
  cbv zeta.
  set (copied := Nat.min (4 - length p) (length input)).
  set (x := firstn copied input).
  assert (Lx : length x = copied).
  { unfold x. rewrite firstn_length. unfold copied. lia. }
  assert (Ex : input = x ++ skipn copied input) by (symmetry; apply firstn_skipn).
  pose proof (check_spec (p ++ x)) as C. destruct (check (p ++ x)) as [|v e].
  - (* the spliced bytes are valid *)
    right. destruct C as [cs [Hs E]].
    replace (copied <=? length input) with true
      by (symmetry; apply Nat.leb_le; unfold copied; lia).
    exists (inl (p ++ x)), (skipn copied input), x. repeat split; auto.
    exists cs. repeat split; auto. intros ->. destruct Ip as [Hne _].
    cbn in E. apply app_eq_nil in E. destruct E; contradiction.
  - destruct C as [a [r [E [Va [Hv [Hr S]]]]]].
    assert (Lpx : length (p ++ x) = (v + length r)%nat) by (rewrite E, app_length; lia).
    rewrite app_length in Lpx.
    destruct (0 <? v) eqn:V0.
    + (* a valid prefix: it contains the carried bytes *)
      right. apply Nat.ltb_lt in V0.
      assert (Ha : a <> []) by (intros ->; cbn in Hv; lia).
      pose proof (valid_prefix_covers p x a r Ip E Va Ha) as Cov.
      replace (v <? length p) with false by (symmetry; apply Nat.ltb_ge; lia).
      replace (v - length p <=? length input) with true
        by (symmetry; apply Nat.leb_le; unfold copied in *; lia).
      assert (Efa : firstn v (p ++ x) = a) by (rewrite E, Hv; apply firstn_app_exact).
      exists (inl (firstn v (p ++ x))), (skipn (v - length p) input), (firstn (v - length p) input).
      repeat split.
      * symmetry; apply firstn_skipn.
      * rewrite firstn_app_ge by lia. f_equal. unfold x. apply firstn_firstn_le. lia.
      * rewrite Efa. destruct Va as [cs [Hs Ea]]. exists cs. repeat split; auto.
        intros ->. cbn in Ea. congruence.
    + apply Nat.ltb_ge in V0.
      assert (a = []) by (destruct a; [reflexivity|cbn in Hv; lia]). subst a.
      cbn [app length] in *. subst r. subst v.
      destruct e as [k|]; cbn [err_step] in S.
      * (* malformed: the invalid sequence contains the carried bytes *)
        right.
        pose proof (step1_bridge (p ++ x)) as B. rewrite S in B. destruct B as [_ [_ [K1 K2]]].
        rewrite app_length in K2.
        destruct Ip as [Hne Sp].
        pose proof (step1_inc_ext p x Hne Sp) as X. rewrite S in X.
        replace (k <? length p) with false by (symmetry; apply Nat.ltb_ge; lia).
        replace (k - length p <=? length input) with true
          by (symmetry; apply Nat.leb_le; unfold copied in *; lia).
        exists (inr (firstn k (p ++ x))), (skipn (k - length p) input), (firstn (k - length p) input).
        repeat split.
        -- symmetry; apply firstn_skipn.
        -- rewrite firstn_app_ge by lia. f_equal. unfold x. apply firstn_firstn_le. lia.
        -- intros z.
           replace (p ++ input ++ z) with ((p ++ x) ++ skipn copied input ++ z)
             by (rewrite <- !app_assoc; f_equal; rewrite app_assoc, <- Ex; reflexivity).
           rewrite (lossy_items_bad (p ++ x) k _ S). f_equal. f_equal.
           rewrite skipn_app_ge by lia. rewrite app_assoc. f_equal.
           rewrite Ex at 2. rewrite skipn_app.
           replace (k - length p - length x)%nat with 0%nat by lia. reflexivity.
      * (* still incomplete: everything was copied *)
        left.
        assert (Ipx : incp (p ++ x)) by (split; assumption).
        pose proof (incp_len _ Ipx) as L3. rewrite app_length in L3.
        assert (copied = length input) by (unfold copied in *; lia).
        assert (x = input) by (unfold x; rewrite H; apply firstn_all).
        rewrite H0 in *. split; [reflexivity|assumption].
Qed.

(* ------------------------------------------------------------------------ *)
(* process, finish, the whole run                                             *)

Lemma process_spec st c : inv st ->
  exists st' evs is y,
    process st c = Done (st', evs) /\ inv st' /\ denotes true evs is /\
    pend st ++ c = y ++ pend st' /\
    forall z, lossy_items (pend st ++ c ++ z) = is ++ lossy_items (pend st' ++ z).
Proof.
  intros I. destruct st as [p|]; cbn [inv pend] in *.
  - unfold process.
    destruct (try_to_complete_spec p c I) as [[R Ip]|[r [rest [u [R [Ec Hr]]]]]]; rewrite R.
    + exists (Some (p ++ c)), [], [], []. repeat split; auto; try apply Ip.
      * constructor.
      * intros z. cbn [pend app]. rewrite app_assoc. reflexivity.
    + assert (Eres : skipn (length c - length rest) c = rest).
      { rewrite Ec at 2. rewrite Ec at 1. rewrite app_length.
        replace (length u + length rest - length rest)%nat with (length u) by lia.
        apply skipn_app_exact. }
      cbv zeta. rewrite Eres.
      destruct (decode_loop_spec true (S (length rest)) rest ltac:(lia))
        as [st' [evs [is [y [RL [I' [Dn [Ey Hz]]]]]]]].
      rewrite RL.
      destruct r as [s|s].
      * destruct Hr as [Es [cs [Hs [Hcs Ecs]]]].
        exists st', ([Str s] ++ evs), (map Ch cs ++ is), (s ++ y). repeat split; auto.
        -- cbn [app]. rewrite Ecs. apply den_str; auto.
        -- rewrite Ec, Es, <- app_assoc, app_assoc. f_equal. exact Ey.
        -- intros z. rewrite Ec. rewrite <- app_assoc, app_assoc, <- Es, Ecs.
           rewrite lossy_items_valid by assumption. rewrite <- app_assoc. f_equal. apply Hz.
      * destruct Hr as [Es Hl].
        exists st', ([Error false; Replacement] ++ evs), (Repl :: is), (s ++ y). repeat split; auto.
        -- cbn [app]. apply den_bad_r; auto.
        -- rewrite <- app_assoc, <- Ey, Es, <- app_assoc, <- Ec. reflexivity.
        -- intros z. rewrite Hl. cbn [app]. f_equal. apply Hz.
  - cbn [process app].
    destruct (decode_loop_spec true (S (length c)) c ltac:(lia))
      as [st' [evs [is [y [RL [I' [Dn [Ey Hz]]]]]]]].
    exists st', evs, is, y. repeat split; auto.
Qed.

Lemma run_from_spec chunks : forall st, inv st ->
  exists evs, run_from st chunks = Done evs /\
              denotes true evs (lossy_items (pend st ++ concat chunks)).
Proof.
  induction chunks as [|c cs IH]; intros st I.
  - cbn [run_from concat]. rewrite app_nil_r. exists (finish st). split; [reflexivity|].
    destruct st as [p|]; cbn [finish pend].
    + destruct I as [Hne S]. rewrite (lossy_items_inc p Hne S).
      apply den_bad_r; [reflexivity|constructor].
    + constructor.
  - cbn [run_from concat].
    destruct (process_spec st c I) as [st' [evs [is [y [R [I' [Dn [_ Hz]]]]]]]].
    rewrite R. destruct (IH st' I') as [evs' [R' Dn']]. rewrite R'.
    exists (evs ++ evs'). split; [reflexivity|].
    rewrite Hz. apply denotes_app; assumption.
Qed.

(* ------------------------------------------------------------------------ *)
(* the property                                                               *)

Theorem utf8_stream_denotes chunks :
  exists evs, run chunks = Done evs /\ denotes true evs (lossy_items (concat chunks)).
Proof. apply (run_from_spec chunks None). exact I. Qed.

Theorem utf8_stream chunks :
  exists evs, run chunks = Done evs /\
    text evs = lossy (concat chunks) /\
    n_repl evs = lossy_replacements (concat chunks) /\
    n_err evs = n_repl evs /\
    well_formed_events evs.
Proof.
  destruct (utf8_stream_denotes chunks) as [evs [R D]]. exists evs.
  split; [exact R|]. split; [|split; [|split]].
  - apply (denotes_text _ _ _ D).
  - apply (denotes_repl _ _ _ D).
  - rewrite (denotes_err _ _ D), (denotes_repl _ _ _ D). reflexivity.
  - apply (denotes_wf _ _ D).
Qed.

Theorem utf8_stream_no_panic chunks : run chunks <> Panic.
Proof. destruct (utf8_stream chunks) as [evs [R _]]. rewrite R. discriminate. Qed.

(* the state invariant, for every prefix of the chunk list: the carried buffer
   is a non-empty proper prefix of a well-formed sequence, it is a suffix of
   the bytes consumed so far, and the bytes before it are decoded for good
   (their part of the output does not depend on the rest of the input) *)
Fixpoint state_after (st : option incomplete) (chunks : list (list N)) : res (option incomplete) :=
  match chunks with
  | [] => Done st
  | c :: cs => match process st c with
               | Done (st', _) => state_after st' cs
               | Panic => Panic
               end
  end.

Theorem utf8_state_invariant chunks : forall st, inv st ->
  exists st' y is,
    state_after st chunks = Done st' /\ inv st' /\
    pend st ++ concat chunks = y ++ pend st' /\
    forall z, lossy_items (pend st ++ concat chunks ++ z) = is ++ lossy_items (pend st' ++ z).
Proof.
  induction chunks as [|c cs IH]; intros st I.
  - exists st, [], []. cbn. repeat split; auto. rewrite app_nil_r. reflexivity.
  - cbn [state_after concat].
    destruct (process_spec st c I) as [st1 [evs [is [y [R [I1 [_ [Ey Hz]]]]]]]]. rewrite R.
    destruct (IH st1 I1) as [st' [y' [is' [R' [I' [Ey' Hz']]]]]].
    exists st', (y ++ y'), (is ++ is'). repeat split; auto.
    + rewrite app_assoc, Ey, <- !app_assoc. f_equal. exact Ey'.
    + intros z. rewrite <- app_assoc, Hz, <- app_assoc. f_equal. apply Hz'.
Qed.

(* the carried buffer is the LONGEST suffix of the consumed bytes that is an
   incomplete sequence: a longer one would have a lead byte in a continuation
   position *)
Lemma incp_tail_conts b0 t : incp (b0 :: t) -> Forall (fun b => is_cont b = true) t.
Proof.
  intros Ip. pose proof (incp_wf_prefix _ Ip) as W. clear Ip. unfold wf_prefix in W.
  destruct (b0 <? 128)%N, (b0 <? 194)%N, (b0 <? 224)%N, (b0 <? 240)%N, (b0 <? 245)%N;
    destruct t as [|b1 [|b2 [|b3 [|b4 t]]]]; try discriminate; repeat constructor;
    repeat match goal with H : _ && _ = true |- _ => apply andb_prop in H; destruct H end;
    auto.
Qed.

Lemma incp_head_not_cont b0 t : incp (b0 :: t) -> is_cont b0 = false.
Proof.
  intros [_ S]. unfold step1 in S.
  destruct (width_cases b0) as [[R W]|[[R W]|[[R W]|[[R W]|[R W]]]]]; rewrite W in S;
    try discriminate; unfold is_cont; lia.
Qed.

Theorem carried_buffer_maximal q p : incp p -> incp (q ++ p) -> q = [].
Proof.
  intros Ip Iq. destruct q as [|q0 q]; [reflexivity|exfalso].
  destruct p as [|p0 p]; [destruct Ip; congruence|].
  pose proof (incp_head_not_cont _ _ Ip) as Hp.
  cbn [app] in Iq. pose proof (incp_tail_conts _ _ Iq) as T.
  apply Forall_app in T. destruct T as [_ T]. inversion T; subst. congruence.
Qed.

(* ------------------------------------------------------------------------ *)
(* the other public streaming API: Tendril::decode_utf8_lossy +
   IncompleteUtf8::try_complete (no error() calls)                            *)

Lemma api_step_spec st c : inv st ->
  exists st' evs is,
    match st with
    | None => decode_utf8_lossy c
    | Some inc =>
      match try_complete inc c with
      | Panic => Panic
      | Done (inc', None) => Done (Some inc', [])
      | Done (_, Some (evs, rest)) =>
        match decode_utf8_lossy rest with
        | Done (i, evs') => Done (i, evs ++ evs')
        | Panic => Panic
        end
      end
    end = Done (st', evs) /\ inv st' /\ denotes false evs is /\
    forall z, lossy_items (pend st ++ c ++ z) = is ++ lossy_items (pend st' ++ z).
Proof.
  intros I. destruct st as [p|]; cbn [inv pend] in *.
  - unfold try_complete.
    destruct (try_to_complete_spec p c I) as [[R Ip]|[r [rest [u [R [Ec Hr]]]]]]; rewrite R.
    + exists (Some (p ++ c)), [], []. repeat split; auto; try apply Ip.
      * constructor.
      * intros z. cbn [pend app]. rewrite app_assoc. reflexivity.
    + assert (Eres : skipn (length c - length rest) c = rest).
      { rewrite Ec at 2. rewrite Ec at 1. rewrite app_length.
        replace (length u + length rest - length rest)%nat with (length u) by lia.
        apply skipn_app_exact. }
      rewrite Eres. unfold decode_utf8_lossy.
      destruct (decode_loop_spec false (S (length rest)) rest ltac:(lia))
        as [st' [evs [is [y [RL [I' [Dn [Ey Hz]]]]]]]].
      rewrite RL.
      destruct r as [s|s].
      * destruct Hr as [Es [cs [Hs [Hcs Ecs]]]].
        exists st', ([Str s] ++ evs), (map Ch cs ++ is). repeat split; auto.
        -- cbn [app]. rewrite Ecs. apply den_str; auto.
        -- intros z. rewrite Ec. rewrite <- app_assoc, app_assoc, <- Es, Ecs.
           rewrite lossy_items_valid by assumption. rewrite <- app_assoc. f_equal. apply Hz.
      * destruct Hr as [Es Hl].
        exists st', ([Replacement] ++ evs), (Repl :: is). repeat split; auto.
        -- cbn [app]. apply den_bad_n; auto.
        -- intros z. rewrite Hl. cbn [app]. f_equal. apply Hz.
  - cbn [app]. unfold decode_utf8_lossy.
    destruct (decode_loop_spec false (S (length c)) c ltac:(lia))
      as [st' [evs [is [y [RL [I' [Dn [Ey Hz]]]]]]]].
    exists st', evs, is. repeat split; auto.
Qed.

Lemma api_run_from_spec chunks : forall st, inv st ->
  exists evs, api_run_from st chunks = Done evs /\
              denotes false evs (lossy_items (pend st ++ concat chunks)).
Proof.
  induction chunks as [|c cs IH]; intros st I.
  - cbn [api_run_from concat]. rewrite app_nil_r.
    destruct st as [p|]; cbn [pend].
    + exists [Replacement]. split; [reflexivity|].
      destruct I as [Hne S]. rewrite (lossy_items_inc p Hne S).
      apply den_bad_n; [reflexivity|constructor].
    + exists []. split; [reflexivity|constructor].
  - cbn [api_run_from concat]. cbv zeta.
    destruct (api_step_spec st c I) as [st' [evs [is [R [I' [Dn Hz]]]]]].
    rewrite R. destruct (IH st' I') as [evs' [R' Dn']]. rewrite R'.
    exists (evs ++ evs'). split; [reflexivity|].
    rewrite Hz. apply denotes_app; assumption.
Qed.

Theorem utf8_api_stream chunks :
  exists evs, api_run chunks = Done evs /\
    text evs = lossy (concat chunks) /\
    n_repl evs = lossy_replacements (concat chunks) /\
    n_err evs = 0%nat.
Proof.
  destruct (api_run_from_spec chunks None I) as [evs [R D]]. exists evs.
  split; [exact R|]. split; [|split].
  - apply (denotes_text _ _ _ D).
  - apply (denotes_repl _ _ _ D).
  - apply (denotes_noerr _ _ D).
Qed.

(* ------------------------------------------------------------------------ *)
(* sanity of the specification itself                                         *)

(* lossy decoding is the identity on valid UTF-8 and inserts nothing *)
Theorem lossy_valid_id cs : scalars cs ->
  lossy (encs cs) = encs cs /\ lossy_replacements (encs cs) = 0%nat.
Proof.
  intros Hs.
  assert (E : lossy_items (encs cs) = map Ch cs).
  { pose proof (lossy_items_valid cs [] Hs) as H. rewrite !app_nil_r in H. exact H. }
  unfold lossy, lossy_chars, lossy_replacements. rewrite E, map_map. cbn [item_char].
  rewrite map_id. split; [reflexivity|].
  rewrite <- (app_nil_r (map Ch cs)). apply n_bad_chars.
Qed.

(* the result is always a sequence of scalar values, i.e. lossy bs is valid UTF-8 *)
Lemma lossy_fuel_scalars f : forall bs, scalars (map item_char (lossy_fuel f bs)).
Proof.
  induction f as [|f IH]; intros bs; destruct bs as [|b t]; try constructor.
  cbn [lossy_fuel]. unfold lossy_step. destruct (dec1 (b :: t)) as [[c r]|] eqn:D.
  - cbn [map item_char]. constructor; [|apply IH].
    destruct (dec1_inv _ _ _ D) as [Hc _]. exact Hc.
  - cbn [map item_char]. constructor; [reflexivity|apply IH].
Qed.

Theorem lossy_is_valid bs : valid_utf8 (lossy bs).
Proof. exists (lossy_chars bs). split; [apply lossy_fuel_scalars|reflexivity]. Qed.

(* the model of from_utf8 accepts exactly the encodings of scalar sequences *)
Lemma check_fuel_valid cs : scalars cs -> forall fuel pos, (length (encs cs) <= fuel)%nat ->
  check_fuel fuel pos (encs cs) = COk.
Proof.
  induction 1 as [|c cs Hc Hs IH]; intros fuel pos L.
  - destruct fuel; reflexivity.
  - rewrite encs_cons in *. destruct fuel as [|f].
    { rewrite app_length in L. pose proof (enc_length_pos c). lia. }
    destruct (enc c ++ encs cs) as [|b0 t] eqn:E.
    { apply app_eq_nil in E. destruct E as [E _]. now apply enc_nonempty in E. }
    cbn [check_fuel]. rewrite <- E. rewrite (step1_enc c (encs cs) Hc).
    rewrite skipn_app_exact. apply IH.
    rewrite <- E, app_length in L. pose proof (enc_length_pos c). lia.
Qed.

Theorem check_ok_iff_valid bs : check bs = COk <-> valid_utf8 bs.
Proof.
  split.
  - intros H. pose proof (check_spec bs) as C. rewrite H in C. exact C.
  - intros [cs [Hs ->]]. apply check_fuel_valid; [assumption|lia].
Qed.

(* ------------------------------------------------------------------------ *)
(* Parser::from_utf8() = Utf8LossyDecoder::new(parser): the inner sink is the
   parser.  IF feeding the parser text in pieces is the same as feeding it the
   concatenation (that is property C03, a Section hypothesis here, not proved
   here), the parser ends in the state it reaches on the lossy string.        *)
Section FromUtf8.
  Variable pstate : Type.
  Variable feed : pstate -> list N -> pstate.        (* TendrilSink::process(StrTendril) *)
  Variable report : pstate -> bool -> pstate.        (* TendrilSink::error *)
  Hypothesis feed_nil : forall s, feed s [] = s.
  Hypothesis feed_app : forall s a b, feed (feed s a) b = feed s (a ++ b).
  (* errors are recorded on the side *)
  Variable observe : pstate -> list N.               (* e.g. the serialized tree *)
  Hypothesis report_obs : forall s e, observe (report s e) = observe s.
  Hypothesis feed_obs : forall s s' a, observe s = observe s' ->
                                       observe (feed s a) = observe (feed s' a).

  Definition deliver1 (s : pstate) (e : event) : pstate :=
    match e with
    | Str bs => feed s bs
    | Replacement => feed s repl_bytes
    | Error eof => report s eof
    end.

  Lemma deliver_text : forall evs s s', observe s = observe s' ->
    observe (fold_left deliver1 evs s) = observe (feed s' (text evs)).
  Proof.
    induction evs as [|e evs IH]; intros s s' H.
    - cbn. rewrite feed_nil. exact H.
    - cbn [fold_left]. unfold text. cbn [flat_map]. fold (text evs).
      rewrite <- feed_app. apply IH.
      destruct e; cbn [deliver1 ev_text].
      + apply feed_obs; exact H.
      + apply feed_obs; exact H.
      + rewrite feed_nil, report_obs. exact H.
  Qed.

  Theorem from_utf8_modulo_chunking chunks s0 :
    exists evs, run chunks = Done evs /\
      observe (fold_left deliver1 evs s0) = observe (feed s0 (lossy (concat chunks))).
  Proof.
    destruct (utf8_stream chunks) as [evs [R [T _]]]. exists evs. split; [exact R|].
    rewrite <- T. apply deliver_text. reflexivity.
  Qed.
End FromUtf8.
