(* Executable model of tendril/src/utf8_decode.rs and of
   tendril/src/stream.rs Utf8LossyDecoder::{process, finish} as they are,
   over the model [check] of std::str::from_utf8 (Utf8Check.v).

   What the inner sink sees is recorded as a list of events:
     Str bs        inner_sink.process(<tendril holding the bytes bs>)
     Replacement   inner_sink.process(Tendril::from_slice("\u{FFFD}"))
     Error eof     inner_sink.error("invalid byte sequence")            (eof = false)
                   inner_sink.error("incomplete byte sequence at end of stream") (true)
   Every place where the Rust can panic (slice indexing, copy_from_slice,
   checked_sub(..).unwrap(), Tendril::pop_front past the end) is an explicit
   [Panic].  No proofs here. *)
From Coq Require Import List NArith Bool Arith.
From HV Require Import Base.Utf8 Decode.Utf8Check.
Import ListNotations.

Inductive event := Str (bs : list N) | Replacement | Error (eof : bool).

Inductive res (A : Type) := Done (a : A) | Panic.
Arguments Done {A} a.
Arguments Panic {A}.

(* IncompleteUtf8 { buffer: [u8; 4], buffer_len: u8 }.  Only
   buffer[..buffer_len] is ever read (the rest is overwritten before it is
   looked at), so the model keeps exactly those bytes. *)
Definition incomplete := list N.

(* IncompleteUtf8::new: buffer[..len].copy_from_slice(bytes) *)
Definition incomplete_new (bytes : list N) : option incomplete :=
  if length bytes <=? 4 then Some bytes else None.

Inductive completion := NotEnoughInput | MalformedUtf8Buffer | Valid.

(* try_complete_offsets: Some (self.buffer[..self.buffer_len] afterwards,
   consumed, result), None = panic *)
Definition try_complete_offsets (buf : incomplete) (input : list N)
  : option (incomplete * nat * completion) :=
  let n := length buf in
  if 4 <? n then None                       (* &mut self.buffer[initial_buffer_len..] *)
  else
    let copied := Nat.min (4 - n) (length input) in
    let spliced := buf ++ firstn copied input in
    match check spliced with
    | COk => Some (spliced, copied, Valid)
    | CErr v e =>
      if 0 <? v then
        if v <? n then None                 (* valid_up_to.checked_sub(initial_buffer_len).unwrap() *)
        else Some (firstn v spliced, v - n, Valid)
      else
        match e with
        | Some k =>
          if k <? n then None               (* invalid_sequence_length.checked_sub(..).unwrap() *)
          else Some (firstn k spliced, k - n, MalformedUtf8Buffer)
        | None => Some (spliced, copied, NotEnoughInput)
        end
    end.

(* try_to_complete_codepoint: (self afterwards,
     None                                   more input needed
   | Some (inl str | inr malformed, remaining_input)) *)
Definition try_to_complete_codepoint (buf : incomplete) (input : list N)
  : res (incomplete * option ((list N + list N) * list N)) :=
  match try_complete_offsets buf input with
  | None => Panic
  | Some (buf', consumed, NotEnoughInput) => Done (buf', None)
  | Some (buf', consumed, r) =>
    if consumed <=? length input then      (* &input[consumed..] *)
      Done ([], Some (match r with MalformedUtf8Buffer => inr buf' | _ => inl buf' end,
                      skipn consumed input))
    else Panic
  end.

(* decode_utf8 *)
Inductive decode_res :=
| DOk
| DInvalid (valid_len invalid_len : nat)
| DIncomplete (valid_len : nat) (suffix : incomplete)
| DPanic.

Definition decode_utf8 (input : list N) : decode_res :=
  match check input with
  | COk => DOk
  | CErr v e =>
    if length input <? v then DPanic        (* input.split_at(valid_up_to) *)
    else
      let after := skipn v input in
      match e with
      | Some k => if k <=? length after then DInvalid v k else DPanic  (* &after_valid[..k] *)
      | None =>
        match incomplete_new after with
        | Some i => DIncomplete v i
        | None => DPanic
        end
      end
  end.

(* the loop shared (textually duplicated in the Rust) by
   Utf8LossyDecoder::process (report = true: error() before each U+FFFD) and
   Tendril::decode_utf8_lossy (report = false).  Fuel = number of bytes + 1;
   running out of fuel would be a hang. *)
Definition bad_events (report : bool) : list event :=
  if report then [Error false; Replacement] else [Replacement].

Fixpoint decode_loop (report : bool) (fuel : nat) (bytes : list N)
  : res (option incomplete * list event) :=
  match bytes with
  | [] => Done (None, [])
  | _ =>
    match fuel with
    | O => Panic
    | S f =>
      match decode_utf8 bytes with
      | DOk => Done (None, [Str bytes])
      | DInvalid v k =>
        let pre := (if 0 <? v then [Str (firstn v bytes)] else []) ++ bad_events report in
        if v + k <=? length bytes then      (* pop_front(offset) *)
          match decode_loop report f (skipn (v + k) bytes) with
          | Done (i, evs) => Done (i, pre ++ evs)
          | Panic => Panic
          end
        else Panic
      | DIncomplete v i =>
        Done (Some i, if 0 <? v then [Str (firstn v bytes)] else [])
      | DPanic => Panic
      end
    end
  end.

(* Utf8LossyDecoder::process; state = self.incomplete *)
Definition process (st : option incomplete) (bytes : list N)
  : res (option incomplete * list event) :=
  match st with
  | Some inc =>
    match try_to_complete_codepoint inc bytes with
    | Panic => Panic
    | Done (inc', None) => Done (Some inc', [])
    | Done (_, Some (r, rest)) =>
      let pre := match r with
                 | inl s => [Str s]
                 | inr _ => [Error false; Replacement]
                 end in
      let resume_at := length bytes - length rest in
      let bytes' := skipn resume_at bytes in
      match decode_loop true (S (length bytes')) bytes' with
      | Done (i, evs) => Done (i, pre ++ evs)
      | Panic => Panic
      end
    end
  | None => decode_loop true (S (length bytes)) bytes
  end.

(* Utf8LossyDecoder::finish (what it sends before inner_sink.finish()) *)
Definition finish (st : option incomplete) : list event :=
  match st with
  | Some _ => [Error true; Replacement]
  | None => []
  end.

(* new(); process(c) for every chunk; finish() *)
Fixpoint run_from (st : option incomplete) (chunks : list (list N)) : res (list event) :=
  match chunks with
  | [] => Done (finish st)
  | c :: cs =>
    match process st c with
    | Panic => Panic
    | Done (st', evs) =>
      match run_from st' cs with
      | Done evs' => Done (evs ++ evs')
      | Panic => Panic
      end
    end
  end.

Definition run (chunks : list (list N)) : res (list event) := run_from None chunks.

(* ---- the other public streaming API of utf8_decode.rs --------------------
   IncompleteUtf8::try_complete(input, push) and
   Tendril::<Bytes>::decode_utf8_lossy(push): no error() calls. *)

(* Err(()) = None (input not consumed, self updated); Ok(rest) *)
Definition try_complete (buf : incomplete) (input : list N)
  : res (incomplete * option (list event * list N)) :=
  match try_to_complete_codepoint buf input with
  | Panic => Panic
  | Done (buf', None) => Done (buf', None)
  | Done (buf', Some (r, rest)) =>
    let ev := match r with inl s => Str s | inr _ => Replacement end in
    Done (buf', Some ([ev], skipn (length input - length rest) input))
  end.

Definition decode_utf8_lossy (bytes : list N) : res (option incomplete * list event) :=
  decode_loop false (S (length bytes)) bytes.

(* a caller that streams with these two (as the doc comments prescribe) and
   substitutes U+FFFD for a dangling sequence at the end *)
Fixpoint api_run_from (st : option incomplete) (chunks : list (list N)) : res (list event) :=
  match chunks with
  | [] => Done (match st with Some _ => [Replacement] | None => [] end)
  | c :: cs =>
    let step :=
      match st with
      | None => decode_utf8_lossy c
      | Some inc =>
        match try_complete inc c with
        | Panic => Panic
        | Done (inc', None) => Done (Some inc', [])
        | Done (_, Some (evs, rest)) =>
          match decode_utf8_lossy rest with
          | Done (i, evs') => Done (i, evs ++ evs')
          | Panic => Panic
          end
        end
      end in
    match step with
    | Panic => Panic
    | Done (st', evs) =>
      match api_run_from st' cs with
      | Done evs' => Done (evs ++ evs')
      | Panic => Panic
      end
    end
  end.

Definition api_run (chunks : list (list N)) : res (list event) := api_run_from None chunks.

(* what the inner sink has received as text, and how many of each call *)
Definition repl_bytes : list N := [0xEF; 0xBF; 0xBD]%N.

Definition ev_text (e : event) : list N :=
  match e with Str bs => bs | Replacement => repl_bytes | Error _ => [] end.
Definition text (evs : list event) : list N := flat_map ev_text evs.

Definition n_repl (evs : list event) : nat :=
  length (filter (fun e => match e with Replacement => true | _ => false end) evs).
Definition n_err (evs : list event) : nat :=
  length (filter (fun e => match e with Error _ => true | _ => false end) evs).
