(* Specification of a whole-input lossy UTF-8 decode (what
   String::from_utf8_lossy computes), written WITHOUT the validation automaton
   of Utf8Check.v: it uses only the strict one-scalar decoder [dec1] of
   Base/Utf8.v and the notion "prefix of a well-formed sequence".

   Unicode 3.9 / WHATWG "maximal subpart" practice, which std implements: at an
   offset where no well-formed sequence starts, replace by ONE U+FFFD the
   longest code unit subsequence that is either the initial subsequence of a
   well-formed sequence or, failing that, a single byte. *)
From Coq Require Import List NArith Bool.
From HV Require Import Base.Utf8.
Import ListNotations.
Local Open Scope N_scope.

(* [p] is a non-empty initial subsequence (proper or not) of some well-formed
   UTF-8 sequence, by table 3-7.  Utf8DecProofs.wf_prefix_iff ties it to
   [enc]: wf_prefix p = true <-> p <> [] /\ exists scalar c, p prefix of enc c *)
Definition wf_prefix (p : list N) : bool :=
  match p with
  | [] => false
  | b0 :: t =>
    if b0 <? 0x80 then match t with [] => true | _ => false end
    else if b0 <? 0xC2 then false
    else if b0 <? 0xE0 then
      match t with
      | [] => true
      | [b1] => is_cont b1
      | _ => false
      end
    else if b0 <? 0xF0 then
      let ok1 b1 := is_cont b1 && (negb (b0 =? 0xE0) || (0xA0 <=? b1))
                               && (negb (b0 =? 0xED) || (b1 <? 0xA0)) in
      match t with
      | [] => true
      | [b1] => ok1 b1
      | [b1; b2] => ok1 b1 && is_cont b2
      | _ => false
      end
    else if b0 <? 0xF5 then
      let ok1 b1 := is_cont b1 && (negb (b0 =? 0xF0) || (0x90 <=? b1))
                               && (negb (b0 =? 0xF4) || (b1 <? 0x90)) in
      match t with
      | [] => true
      | [b1] => ok1 b1
      | [b1; b2] => ok1 b1 && is_cont b2
      | [b1; b2; b3] => ok1 b1 && is_cont b2 && is_cont b3
      | _ => false
      end
    else false
  end.

(* length of the maximal ill-formed subpart at the head of [bs] (used only
   where no well-formed sequence starts, so 3 is the longest possible) *)
Definition bad_len (bs : list N) : nat :=
  if Nat.leb 3 (length bs) && wf_prefix (firstn 3 bs) then 3%nat
  else if Nat.leb 2 (length bs) && wf_prefix (firstn 2 bs) then 2%nat
  else 1%nat.

(* the decoded stream: scalar values and replacement marks *)
Inductive item := Ch (c : N) | Repl.

Definition lossy_step (bs : list N) : item * list N :=
  match dec1 bs with
  | Some (c, r) => (Ch c, r)
  | None => (Repl, skipn (bad_len bs) bs)
  end.

Fixpoint lossy_fuel (fuel : nat) (bs : list N) : list item :=
  match bs with
  | [] => []
  | _ =>
    match fuel with
    | O => []
    | S f => let '(it, r) := lossy_step bs in it :: lossy_fuel f r
    end
  end.

(* fuel: every step consumes at least one byte *)
Definition lossy_items (bs : list N) : list item := lossy_fuel (length bs) bs.

Definition item_char (i : item) : N := match i with Ch c => c | Repl => 0xFFFD end.

(* String::from_utf8_lossy as scalar values, and as UTF-8 bytes *)
Definition lossy_chars (bs : list N) : list N := map item_char (lossy_items bs).
Definition lossy (bs : list N) : list N := encs (lossy_chars bs).

(* number of U+FFFD that were INSERTED (a literal EF BF BD in the input is a Ch) *)
Definition n_bad (is : list item) : nat :=
  length (filter (fun i => match i with Repl => true | Ch _ => false end) is).
Definition lossy_replacements (bs : list N) : nat := n_bad (lossy_items bs).

(* valid UTF-8 = the encoding of a sequence of scalar values *)
Definition valid_utf8 (bs : list N) : Prop := exists cs, scalars cs /\ bs = encs cs.
