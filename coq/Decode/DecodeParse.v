(* Parser::from_utf8() down to the TOKENIZER, with the chunk-independence of the
   tokenizer no longer assumed (as in C10_parser_from_utf8_modulo_C03) but taken
   from the C03 theorems about the TokIR interpreter on the table regenerated
   from html5ever/src/tokenizer/mod.rs.

   Utf8LossyDecoder hands its inner sink (the Parser) one StrTendril per
   Str / Replacement event; Parser::process pushes it on the BufferQueue and
   feeds the tokenizer.  One process(bytes) call of the decoder may deliver
   several such pieces, or none (an empty byte chunk, or bytes that are all
   carried over): the decoder never calls the parser with an empty piece
   (C10_utf8_stream: well_formed_events), so "no text" means "no call", and the
   chunk list the tokenizer sees has no empty entry.  error() goes to
   TreeSink::parse_error, not to the tokenizer.

   The tokenizer model works on code points, the decoder model on UTF-8 bytes:
   [delivered_chunks] decodes every delivered piece with Base.Utf8.decs (total
   here: every piece is the encoding of a non-empty list of scalar values), and
   [delivered_chunks_are_the_pieces] says that re-encoding gives back exactly
   the delivered byte pieces.

   Composition: concat (delivered_chunks) = lossy_chars (concat bytes)
   (Utf8DecProofs) + two chunkings of one character stream reach the same final
   machine (C03) => the tokenizer fed through from_utf8() in any byte chunking
   ends exactly like the tokenizer fed the one string from_utf8_lossy(bytes).

   OUTSIDE: the tree builder (the statement is about the final tokenizer machine
   = token stream with parse errors and line numbers, configuration, unread
   input); the tie interpreter <-> Rust tokenizer (differential, ./check C03);
   discard_bom = false (the C03 _total theorems start from init_cfg _ _ false). *)
From Coq Require Import List NArith Bool Lia.
From HV Require Import TokIR.IR TokIR.Interp TokIR.Chunk TokIR.ChunkExec TokIR.BulkSim Gen.GenHtmlTok.
From HV Require Inst.InstNoPanic Inst.InstTermination Inst.InstBulk Inst.InstBulkTerm.
From HV Require Import Base.Utf8 Decode.Utf8Check Decode.Utf8CheckProofs
  Decode.Utf8DecModel Decode.Utf8DecSpec Decode.Utf8DecProofs.
Import ListNotations.

(* ---- from delivered byte pieces to the tokenizer's character chunks ------ *)
Definition ev_chars (e : event) : list (list N) :=
  match e with
  | Str bs => match decs bs with Some cs => [cs] | None => [] end
  | Replacement => [[0xFFFD%N]]
  | Error _ => []
  end.
Definition delivered_chunks (evs : list event) : list (list N) := flat_map ev_chars evs.

(* the byte pieces themselves, one per TendrilSink::process call on the parser *)
Definition ev_piece (e : event) : list (list N) :=
  match e with Str bs => [bs] | Replacement => [repl_bytes] | Error _ => [] end.
Definition pieces (evs : list event) : list (list N) := flat_map ev_piece evs.

(* what the parser gets when the whole input is decoded first *)
Definition whole_chunks (bytes : list N) : list (list N) :=
  match lossy_chars bytes with [] => [] | cs => [cs] end.

Lemma delivered_spec evs is : denotes true evs is ->
  all_nonempty (delivered_chunks evs) /\
  concat (delivered_chunks evs) = map item_char is /\
  map encs (delivered_chunks evs) = pieces evs.
Proof.
  induction 1 as [|cs evs is Hs Hne _ IH|eof evs is _ _ IH|evs is Hf _ _]; [|
    destruct IH as [A [C P]]..|discriminate Hf].
  - repeat split; constructor.
  - unfold delivered_chunks, pieces. cbn [flat_map ev_chars ev_piece].
    rewrite (decs_encs cs Hs). cbn [app concat map all_nonempty].
    repeat split; auto.
    + fold (delivered_chunks evs). rewrite C, map_app, map_map. cbn [item_char].
      rewrite map_id. reflexivity.
    + f_equal. exact P.
  - unfold delivered_chunks, pieces. cbn [flat_map ev_chars ev_piece app concat map all_nonempty item_char].
    repeat split; auto.
    + discriminate.
    + fold (delivered_chunks evs). rewrite C. reflexivity.
    + f_equal. exact P.
Qed.

Lemma lossy_chars_nonnil bs : bs <> [] -> lossy_chars bs <> [].
Proof.
  intros H. unfold lossy_chars. rewrite (lossy_items_step bs H). discriminate.
Qed.

Lemma denotes_nil_inv r evs : denotes r evs [] -> evs = [].
Proof.
  intros D. inversion D as [|cs evs0 is Hs Hne D0 E1 E2| |]; [reflexivity|].
  destruct cs; [congruence|discriminate E2].
Qed.

(* the decoder's side of the composition, for every byte chunking *)
Theorem delivered_chunks_spec chunks :
  exists evs, Utf8DecModel.run chunks = Utf8DecModel.Done evs /\
    all_nonempty (delivered_chunks evs) /\
    map encs (delivered_chunks evs) = pieces evs /\
    concat (delivered_chunks evs) = lossy_chars (concat chunks) /\
    concat (whole_chunks (concat chunks)) = lossy_chars (concat chunks) /\
    all_nonempty (whole_chunks (concat chunks)) /\
    (concat chunks = [] -> evs = [] /\ whole_chunks (concat chunks) = []) /\
    (concat chunks <> [] -> delivered_chunks evs <> [] /\ whole_chunks (concat chunks) <> []).
Proof.
  destruct (utf8_stream_denotes chunks) as [evs [R D]]. exists evs.
  destruct (delivered_spec _ _ D) as [A [C P]]. fold (lossy_chars (concat chunks)) in C.
  split; [exact R|]. split; [exact A|]. split; [exact P|]. split; [exact C|].
  unfold whole_chunks.
  destruct (lossy_chars (concat chunks)) as [|c0 cs] eqn:L.
  - assert (E0 : concat chunks = []).
    { destruct (concat chunks) as [|b t] eqn:E; [reflexivity|].
      exfalso. apply (lossy_chars_nonnil (b :: t)); [discriminate|exact L]. }
    split; [reflexivity|]. split; [exact I|]. split.
    + intros _. split; [|reflexivity]. rewrite E0 in D. exact (denotes_nil_inv _ _ D).
    + intros Hne. contradiction.
  - cbn [concat all_nonempty]. rewrite app_nil_r.
    split; [reflexivity|]. split; [split; [discriminate|exact I]|]. split.
    + intros E. rewrite E in L. discriminate L.
    + intros _. split; [|discriminate]. intros E. rewrite E in C. discriminate C.
Qed.

(* ---- composition with the C03 driver theorems ----------------------------- *)
Definition fresh_flat (s0 : hstate) (last : option str) : mach hstate (list N) :=
  mkmach (init_cfg s0 last false) [] [] 0%N.

(* reference semantics (flat queue, exact_errors = true), a sink that never
   answers Script / EncodingIndicator: nothing but the explicit fuel bound left.
   Same final machine = same tokens, parse errors, line numbers, configuration,
   unread input; same answer of end(). *)
Theorem tokenizer_from_utf8_no_pauses simd ent c1 sk :
  InstNoPanic.html_sink_ok sk = true -> InstNoPanic.html_sink_never_pauses sk = true ->
  forall fuel inj s0 last chunks,
  InstNoPanic.html_kind_ok s0 = true ->
  (InstTermination.html_fuel (length (lossy_chars (concat chunks))) <= fuel)%nat -> (4 <= fuel)%nat ->
  exists evs, Utf8DecModel.run chunks = Utf8DecModel.Done evs /\
    all_nonempty (delivered_chunks evs) /\ map encs (delivered_chunks evs) = pieces evs /\
    let d1 := drive_flat html_flavour true html_table simd ent c1 sk fuel inj
                         (delivered_chunks evs) (fresh_flat s0 last) [] in
    let d2 := drive_flat html_flavour true html_table simd ent c1 sk fuel inj
                         (whole_chunks (concat chunks)) (fresh_flat s0 last) [] in
    fst d1 = fst d2 /\ hd SSuspend (snd d1) = hd SSuspend (snd d2).
Proof.
  intros Hsk Hq fuel inj s0 last chunks Hk HF H4.
  destruct (delivered_chunks_spec chunks) as [evs [R [A [P [C [Cw [Aw [Hnil Hnn]]]]]]]].
  exists evs. split; [exact R|]. split; [exact A|]. split; [exact P|]. cbv zeta.
  destruct (concat chunks) as [|b t] eqn:E.
  - destruct (Hnil eq_refl) as [-> ->]. split; reflexivity.
  - destruct (Hnn ltac:(discriminate)) as [N1 N2].
    apply (InstNoPanic.html_drive_chunking_independent_quiet simd ent c1 sk Hsk fuel inj
             (delivered_chunks evs) (whole_chunks (b :: t)) s0 last Hq Hk A Aw N1 N2).
    + rewrite C, Cw. reflexivity.
    + rewrite C. exact HF.
    + exact H4.
Qed.

(* with script pauses (injected text) and encoding-indicator suspensions: the
   driver model's limit of 50 pauses per chunk remains as a hypothesis *)
Theorem tokenizer_from_utf8_total simd ent c1 sk :
  InstNoPanic.html_sink_ok sk = true ->
  forall fuel inj s0 last chunks,
  InstNoPanic.html_kind_ok s0 = true ->
  exists evs, Utf8DecModel.run chunks = Utf8DecModel.Done evs /\
    all_nonempty (delivered_chunks evs) /\ map encs (delivered_chunks evs) = pieces evs /\
    let cs1 := delivered_chunks evs in
    let cs2 := whole_chunks (concat chunks) in
    (InstTermination.html_fuel (length (lossy_chars (concat chunks)) + length cs1 * (50 * length inj)) <= fuel)%nat ->
    (InstTermination.html_fuel (length (lossy_chars (concat chunks)) + length cs2 * (50 * length inj)) <= fuel)%nat ->
    (4 <= fuel)%nat ->
    let d1 := drive_flat html_flavour true html_table simd ent c1 sk fuel inj cs1 (fresh_flat s0 last) [] in
    let d2 := drive_flat html_flavour true html_table simd ent c1 sk fuel inj cs2 (fresh_flat s0 last) [] in
    ~ In (SPanic 96) (snd d1) -> ~ In (SPanic 96) (snd d2) ->
    fst d1 = fst d2 /\ hd SSuspend (snd d1) = hd SSuspend (snd d2).
Proof.
  intros Hsk fuel inj s0 last chunks Hk.
  destruct (delivered_chunks_spec chunks) as [evs [R [A [P [C [Cw [Aw [Hnil Hnn]]]]]]]].
  exists evs. split; [exact R|]. split; [exact A|]. split; [exact P|]. cbv zeta.
  intros F1 F2 H4 P1 P2.
  destruct (concat chunks) as [|b t] eqn:E.
  - destruct (Hnil eq_refl) as [-> ->]. split; reflexivity.
  - destruct (Hnn ltac:(discriminate)) as [N1 N2].
    apply (InstNoPanic.html_drive_chunking_independent_total simd ent c1 sk Hsk fuel inj
             (delivered_chunks evs) (whole_chunks (b :: t)) s0 last Hk A Aw N1 N2); auto.
    + rewrite C, Cw. reflexivity.
    + rewrite C. exact F1.
    + rewrite Cw. exact F2.
Qed.

(* the tokenizer's DEFAULT mode (chunked queue, bulk reads, exact_errors =
   false), up to [obs] (parse errors dropped, adjacent character tokens merged):
   the all_done hypotheses of the C03 theorem (no genuine panic value, no pause
   limit in the default-mode logs) remain *)
Definition fresh_chunked (s0 : hstate) (last : option str) : mach hstate queue :=
  mkmach (init_cfg s0 last false) ([] : queue) [] 0%N.

Theorem tokenizer_from_utf8_default_mode_obs ent c1 sk fuel inj s0 last chunks :
  exists evs, Utf8DecModel.run chunks = Utf8DecModel.Done evs /\
    all_nonempty (delivered_chunks evs) /\ map encs (delivered_chunks evs) = pieces evs /\
    let cs1 := delivered_chunks evs in
    let cs2 := whole_chunks (concat chunks) in
    (InstTermination.html_fuel (length (lossy_chars (concat chunks)) + length cs1 * (50 * length inj)) <= fuel)%nat ->
    (InstTermination.html_fuel (length (lossy_chars (concat chunks)) + length cs2 * (50 * length inj)) <= fuel)%nat ->
    (4 <= fuel)%nat ->
    let f1 := drive_chunked html_flavour false html_table InstBulk.html_simd ent c1 sk fuel inj cs1 (fresh_chunked s0 last) [] in
    let f2 := drive_chunked html_flavour false html_table InstBulk.html_simd ent c1 sk fuel inj cs2 (fresh_chunked s0 last) [] in
    all_done (tl (snd f1)) -> all_done (tl (snd f2)) ->
    obs (mout (fst f1)) = obs (mout (fst f2)) /\ hd SSuspend (snd f1) = hd SSuspend (snd f2).
Proof.
  destruct (delivered_chunks_spec chunks) as [evs [R [A [P [C [Cw [Aw [Hnil Hnn]]]]]]]].
  exists evs. split; [exact R|]. split; [exact A|]. split; [exact P|]. cbv zeta.
  intros F1 F2 H4 D1 D2.
  destruct (concat chunks) as [|b t] eqn:E.
  - destruct (Hnil eq_refl) as [-> ->]. split; reflexivity.
  - destruct (Hnn ltac:(discriminate)) as [N1 N2].
    apply (InstBulkTerm.html_default_mode_chunking_independent_obs_total ent c1 sk fuel fuel inj
             (delivered_chunks evs) (whole_chunks (b :: t)) s0 last A Aw N1 N2); auto.
    + rewrite C, Cw. reflexivity.
    + rewrite C. exact F1.
    + rewrite Cw. exact F2.
Qed.
