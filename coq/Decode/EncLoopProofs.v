(* What `decode_to_sink` / LossyDecoder deliver over a decoder that satisfies
   the contract of encoding_rs' decode_to_utf8_without_replacement.

   PARTIAL by construction: the decoders themselves are runtime behaviour of an
   external crate; the contract is a Section hypothesis and is tested against
   the real crate by lib/checks/c10.py (every exported encoding).

   Result: the loop is correct under the contract EXCEPT that after a Malformed
   result it returns as soon as the input is empty, also when last = true and
   the decoder still has output pending ([enc_loop_refuted], witness: a decoder
   with ISO-2022-JP's escape handling on the bytes 1B 28).  Outside that class
   ([no_pending_after_final_malformed]) it delivers exactly the one-shot
   decode of the concatenation ([enc_loop_outside_finding]). *)
From Coq Require Import List NArith Bool Arith Lia.
From HV Require Import Base.Utf8 Decode.Utf8DecModel Decode.EncLoop.
Import ListNotations.

(* two event lists are the same for the sink: same text, same numbers of
   error() calls and of U+FFFD *)
Definition equiv (a b : list event) : Prop :=
  text a = text b /\ n_err a = n_err b /\ n_repl a = n_repl b.

Lemma text_app a b : text (a ++ b) = text a ++ text b.
Proof. unfold text. apply flat_map_app. Qed.
Lemma n_err_app a b : n_err (a ++ b) = (n_err a + n_err b)%nat.
Proof. unfold n_err. rewrite filter_app, app_length. reflexivity. Qed.
Lemma n_repl_app a b : n_repl (a ++ b) = (n_repl a + n_repl b)%nat.
Proof. unfold n_repl. rewrite filter_app, app_length. reflexivity. Qed.

Lemma equiv_refl a : equiv a a.
Proof. repeat split. Qed.
Lemma equiv_sym a b : equiv a b -> equiv b a.
Proof. intros [H1 [H2 H3]]. repeat split; congruence. Qed.
Lemma equiv_trans a b c : equiv a b -> equiv b c -> equiv a c.
Proof. intros [H1 [H2 H3]] [K1 [K2 K3]]. repeat split; congruence. Qed.
Lemma equiv_app a a' b b' : equiv a a' -> equiv b b' -> equiv (a ++ b) (a' ++ b').
Proof.
  intros [H1 [H2 H3]] [K1 [K2 K3]].
  repeat split; rewrite ?text_app, ?n_err_app, ?n_repl_app; congruence.
Qed.

(* what one decoder call makes the loop send to the sink *)
Definition call_events (r : dresult) (w : list N) : list event :=
  out_events w ++ match r with Malformed => [Error false; Replacement] | _ => [] end.

Section Contract.
  Variable dstate : Type.
  Variable dec : dstate -> list N -> N -> bool -> dresult * nat * list N * dstate.
  Variable maxlen : dstate -> nat -> option N.
  (* the one-shot meaning of the decoder: everything it produces, from state
     s, for the complete input x followed by end of stream *)
  Variable sem : dstate -> list N -> list event.
  (* a progress measure *)
  Variable mu : dstate -> list N -> nat.

  Record contract : Prop := {
    (* never reads past the input; InputEmpty means all of it was read *)
    c_read : forall s src cap last r read w s',
      dec s src cap last = (r, read, w, s') ->
      (read <= length src)%nat /\ (r = InputEmpty -> read = length src);
    (* streaming = one-shot on the concatenation: a call with last = false is
       a prefix of the work on any longer input *)
    c_stream : forall s src cap r read w s',
      dec s src cap false = (r, read, w, s') -> forall y,
      equiv (sem s (src ++ y)) (call_events r w ++ sem s' (skipn read src ++ y));
    (* last = true: InputEmpty means the decoding process has completed
       (everything pending was flushed) ... *)
    c_last_done : forall s src cap read w s',
      dec s src cap true = (InputEmpty, read, w, s') ->
      equiv (sem s src) (out_events w);
    (* ... any other result means: re-push the remaining input, even if empty *)
    c_last_more : forall s src cap r read w s',
      dec s src cap true = (r, read, w, s') -> r <> InputEmpty ->
      equiv (sem s src) (call_events r w ++ sem s' (skipn read src));
    (* OutputFull leaves input unread *)
    c_full : forall s src cap last read w s',
      dec s src cap last = (OutputFull, read, w, s') -> (read < length src)%nat;
    (* every call that does not end with InputEmpty makes progress *)
    c_progress : forall s src cap last r read w s',
      dec s src cap last = (r, read, w, s') -> r <> InputEmpty ->
      (mu s' (skipn read src) < mu s src)%nat
  }.

  (* the class of the finding: a decoder that, called with last = true,
     answers Malformed having read all input while still holding output *)
  Definition no_pending_after_final_malformed : Prop :=
    forall s src cap read w s',
      dec s src cap true = (Malformed, read, w, s') -> read = length src ->
      equiv (sem s' []) [].

  Variable fuel_of : dstate -> list N -> nat.
  Hypothesis fuel_ok : forall s i, (mu s i < fuel_of s i)%nat.
  Hypothesis C : contract.

  Notation loop := (decode_to_sink dstate dec maxlen).

  Lemma loop_unfold f s input last :
    loop (S f) s input last =
      let cap := N.min (match maxlen s (length input) with Some m => m | None => 8192%N end)
                       8192%N in
      match dec s input cap last with
      | (r, read, w, s') =>
        match r with
        | InputEmpty => Done (s', out_events w)
        | _ =>
          if length input <? read then Panic
          else
            match skipn read input with
            | [] => Done (s', call_events r w)
            | input' =>
              match loop f s' input' last with
              | Done (s'', evs) => Done (s'', call_events r w ++ evs)
              | Panic => Panic
              end
            end
        end
      end.
  Proof.
    cbn [decode_to_sink]. cbv zeta.
    destruct (dec s input _ last) as [[[r read] w] s']. unfold call_events.
    destruct r; reflexivity.
  Qed.

  Lemma skipn_nil_len {A} n (l : list A) : skipn n l = [] -> (length l <= n)%nat.
  Proof. intros H. apply (f_equal (@length A)) in H. rewrite skipn_length in H. cbn in H. lia. Qed.

  (* a chunk in the middle of the stream *)
  Lemma loop_stream : forall fuel s input, (mu s input < fuel)%nat ->
    exists s' evs, loop fuel s input false = Done (s', evs) /\
      forall y, equiv (sem s (input ++ y)) (evs ++ sem s' y).
  Proof.
    induction fuel as [|f IH]; intros s input L; [lia|].
    rewrite loop_unfold. cbv zeta.
    destruct (dec s input _ false) as [[[r read] w] s1] eqn:D.
    destruct (c_read C _ _ _ _ _ _ _ _ D) as [R1 R2].
    pose proof (c_stream C _ _ _ _ _ _ _ D) as St.
    assert (HIE : r = InputEmpty -> exists s' evs, Done (s1, out_events w) = Done (s', evs) /\
              forall y, equiv (sem s (input ++ y)) (evs ++ sem s' y)).
    { intros ->. exists s1, (out_events w). split; [reflexivity|]. intros y.
      specialize (St y). rewrite (R2 eq_refl), skipn_all in St.
      unfold call_events in St. rewrite app_nil_r in St. exact St. }
    assert (HNE : r <> InputEmpty -> exists s' evs,
              (if length input <? read then Panic
               else match skipn read input with
                    | [] => Done (s1, call_events r w)
                    | input' => match loop f s1 input' false with
                                | Done (s'', evs) => Done (s'', call_events r w ++ evs)
                                | Panic => Panic
                                end
                    end) = Done (s', evs) /\
              forall y, equiv (sem s (input ++ y)) (evs ++ sem s' y)).
    { intros Hr.
      replace (length input <? read) with false by (symmetry; apply Nat.ltb_ge; lia).
      pose proof (c_progress C _ _ _ _ _ _ _ _ D Hr) as P.
      destruct (skipn read input) as [|i0 i'] eqn:Sk.
      - exists s1, (call_events r w). split; [reflexivity|]. intros y. apply (St y).
      - destruct (IH s1 (i0 :: i') ltac:(lia)) as [s2 [evs [R E]]]. rewrite R.
        exists s2, (call_events r w ++ evs). split; [reflexivity|]. intros y.
        eapply equiv_trans; [apply (St y)|]. rewrite <- app_assoc.
        apply equiv_app; [apply equiv_refl|apply E]. }
    destruct r; [apply HIE; reflexivity|apply HNE; discriminate|apply HNE; discriminate].
  Qed.

  (* the repaired loop at end of stream: correct under the contract alone *)
  Notation rloop := (decode_to_sink_repaired dstate dec maxlen).

  Lemma rloop_last : forall fuel s input, (mu s input < fuel)%nat ->
    exists s' evs, rloop fuel s input true = Done (s', evs) /\ equiv (sem s input) evs.
  Proof.
    induction fuel as [|f IH]; intros s input L; [lia|].
    cbn [decode_to_sink_repaired]. cbv zeta.
    destruct (dec s input _ true) as [[[r read] w] s1] eqn:D.
    destruct (c_read C _ _ _ _ _ _ _ _ D) as [R1 R2].
    destruct r.
    - exists s1, (out_events w). split; [reflexivity|]. apply (c_last_done C _ _ _ _ _ _ D).
    - pose proof (c_last_more C _ _ _ _ _ _ _ D ltac:(discriminate)) as M.
      pose proof (c_progress C _ _ _ _ _ _ _ _ D ltac:(discriminate)) as P.
      replace (length input <? read) with false by (symmetry; apply Nat.ltb_ge; lia).
      rewrite andb_false_r.
      destruct (IH s1 (skipn read input) ltac:(lia)) as [s2 [evs [R E]]]. rewrite R.
      exists s2, (call_events OutputFull w ++ evs). split; [reflexivity|].
      eapply equiv_trans; [apply M|]. apply equiv_app; [apply equiv_refl|apply E].
    - pose proof (c_last_more C _ _ _ _ _ _ _ D ltac:(discriminate)) as M.
      pose proof (c_progress C _ _ _ _ _ _ _ _ D ltac:(discriminate)) as P.
      replace (length input <? read) with false by (symmetry; apply Nat.ltb_ge; lia).
      rewrite andb_false_r.
      destruct (IH s1 (skipn read input) ltac:(lia)) as [s2 [evs [R E]]]. rewrite R.
      exists s2, (call_events Malformed w ++ evs). split; [reflexivity|].
      eapply equiv_trans; [apply M|]. apply equiv_app; [apply equiv_refl|apply E].
  Qed.

  Theorem enc_run_repaired_spec : forall chunks s,
    exists evs, enc_run_repaired dstate dec maxlen fuel_of s chunks = Done evs /\
                equiv evs (sem s (concat chunks)).
  Proof.
    induction chunks as [|c cs IH]; intros s.
    - cbn [enc_run_repaired concat]. unfold enc_finish_repaired.
      destruct (rloop_last (fuel_of s []) s [] (fuel_ok s [])) as [s' [evs [R E]]].
      rewrite R. exists evs. split; [reflexivity|apply equiv_sym; exact E].
    - cbn [enc_run_repaired concat]. unfold enc_process.
      destruct c as [|c0 c'].
      + destruct (IH s) as [evs [R E]]. rewrite R. exists ([] ++ evs). split; [reflexivity|exact E].
      + destruct (loop_stream (fuel_of s (c0 :: c')) s (c0 :: c') (fuel_ok s _)) as [s' [evs [R E]]].
        rewrite R. destruct (IH s') as [evs' [R' E']]. rewrite R'.
        exists (evs ++ evs'). split; [reflexivity|].
        eapply equiv_trans; [|apply equiv_sym; apply E].
        apply equiv_app; [apply equiv_refl|exact E'].
  Qed.

  (* the final call, outside the finding *)
  Hypothesis NP : no_pending_after_final_malformed.

  Lemma loop_last : forall fuel s input, (mu s input < fuel)%nat ->
    exists s' evs, loop fuel s input true = Done (s', evs) /\ equiv (sem s input) evs.
  Proof.
    induction fuel as [|f IH]; intros s input L; [lia|].
    rewrite loop_unfold. cbv zeta.
    destruct (dec s input _ true) as [[[r read] w] s1] eqn:D.
    destruct (c_read C _ _ _ _ _ _ _ _ D) as [R1 R2].
    destruct r.
    - exists s1, (out_events w). split; [reflexivity|]. apply (c_last_done C _ _ _ _ _ _ D).
    - pose proof (c_full C _ _ _ _ _ _ _ D) as F.
      pose proof (c_last_more C _ _ _ _ _ _ _ D ltac:(discriminate)) as M.
      pose proof (c_progress C _ _ _ _ _ _ _ _ D ltac:(discriminate)) as P.
      replace (length input <? read) with false by (symmetry; apply Nat.ltb_ge; lia).
      destruct (skipn read input) as [|i0 i'] eqn:Sk.
      + apply skipn_nil_len in Sk. lia.
      + destruct (IH s1 (i0 :: i') ltac:(lia)) as [s2 [evs [R E]]]. rewrite R.
        exists s2, (call_events OutputFull w ++ evs). split; [reflexivity|].
        eapply equiv_trans; [apply M|]. apply equiv_app; [apply equiv_refl|apply E].
    - pose proof (c_last_more C _ _ _ _ _ _ _ D ltac:(discriminate)) as M.
      pose proof (c_progress C _ _ _ _ _ _ _ _ D ltac:(discriminate)) as P.
      replace (length input <? read) with false by (symmetry; apply Nat.ltb_ge; lia).
      destruct (skipn read input) as [|i0 i'] eqn:Sk.
      + exists s1, (call_events Malformed w). split; [reflexivity|].
        apply skipn_nil_len in Sk.
        pose proof (NP _ _ _ _ _ _ D ltac:(lia)) as N0.
        eapply equiv_trans; [apply M|].
        rewrite <- (app_nil_r (call_events Malformed w)) at 2.
        apply equiv_app; [apply equiv_refl|exact N0].
      + destruct (IH s1 (i0 :: i') ltac:(lia)) as [s2 [evs [R E]]]. rewrite R.
        exists s2, (call_events Malformed w ++ evs). split; [reflexivity|].
        eapply equiv_trans; [apply M|]. apply equiv_app; [apply equiv_refl|apply E].
  Qed.

  Theorem enc_run_spec : forall chunks s,
    exists evs, enc_run dstate dec maxlen fuel_of s chunks = Done evs /\
                equiv evs (sem s (concat chunks)).
  Proof.
    induction chunks as [|c cs IH]; intros s.
    - cbn [enc_run concat]. unfold enc_finish.
      destruct (loop_last (fuel_of s []) s [] (fuel_ok s [])) as [s' [evs [R E]]].
      rewrite R. exists evs. split; [reflexivity|apply equiv_sym; exact E].
    - cbn [enc_run concat]. unfold enc_process.
      destruct c as [|c0 c'].
      + destruct (IH s) as [evs [R E]]. rewrite R. exists ([] ++ evs). split; [reflexivity|exact E].
      + destruct (loop_stream (fuel_of s (c0 :: c')) s (c0 :: c') (fuel_ok s _)) as [s' [evs [R E]]].
        rewrite R. destruct (IH s') as [evs' [R' E']]. rewrite R'.
        exists (evs ++ evs'). split; [reflexivity|].
        eapply equiv_trans; [|apply equiv_sym; apply E].
        apply equiv_app; [apply equiv_refl|exact E'].
  Qed.
End Contract.

(* ---------------------------------------------------------------------- *)
(* the finding: the toy decoder satisfies the contract, the loop loses its
   pending output                                                           *)

Lemma toy_sem_TP y : toy_sem TP y = Str [LPAR] :: toy_sem TA y.
Proof.
  destruct y as [|b t]; [reflexivity|].
  cbn [toy_sem eat]. destruct (eatA b) as [o s]. reflexivity.
Qed.

Ltac toy_cases :=
  repeat match goal with
  | |- context [if ?b then _ else _] => destruct b eqn:?
  | H : context [if ?b then _ else _] |- _ => destruct b eqn:?
  end.

Lemma toy_step st src cap last r read w s' :
  toy_dec st src cap last = (r, read, w, s') ->
  forall y, (last = true -> y = []) ->
  toy_sem st (src ++ y) =
    call_events r w ++
    (if last then match r with InputEmpty => [] | _ => toy_sem s' (skipn read src ++ y) end
     else toy_sem s' (skipn read src ++ y)).
Proof.
  intros D y Hy.
  destruct last.
  - rewrite (Hy eq_refl) in *. rewrite !app_nil_r.
    destruct src as [|b [|b' t]]; destruct st; cbn in D; toy_cases;
      inversion D; subst; clear D;
      cbn [toy_sem eat eof skipn app call_events out_events length Nat.ltb Nat.leb];
      unfold eatA; rewrite ?toy_sem_TP;
      repeat match goal with H : _ = true |- _ => rewrite H | H : _ = false |- _ => rewrite H end;
      cbn [toy_sem eat eof app mal]; unfold eatA, mal;
      repeat match goal with H : _ = true |- _ => rewrite H | H : _ = false |- _ => rewrite H end;
      try reflexivity.
    all: toy_cases; rewrite ?app_nil_r; reflexivity.
  - clear Hy.
    destruct src as [|b [|b' t]]; destruct st; cbn in D; toy_cases;
      inversion D; subst; clear D;
      cbn [toy_sem eat eof skipn app call_events out_events length Nat.ltb Nat.leb];
      unfold eatA; rewrite ?toy_sem_TP;
      repeat match goal with H : _ = true |- _ => rewrite H | H : _ = false |- _ => rewrite H end;
      cbn [toy_sem eat eof app mal]; unfold eatA, mal;
      repeat match goal with H : _ = true |- _ => rewrite H | H : _ = false |- _ => rewrite H end;
      try reflexivity.
    all: toy_cases; rewrite ?app_nil_r; reflexivity.
Qed.

Ltac toy_inv D :=
  cbn in D; toy_cases; inversion D; subst; clear D.

Lemma toy_read st src cap last r read w s' :
  toy_dec st src cap last = (r, read, w, s') ->
  (read <= length src)%nat /\ (r = InputEmpty -> read = length src).
Proof.
  intros D. destruct src as [|b [|b' t]]; destruct st; destruct last; toy_inv D;
    cbn [length]; split; try lia; try discriminate; auto.
Qed.

Lemma toy_full st src cap last read w s' :
  toy_dec st src cap last = (OutputFull, read, w, s') -> (read < length src)%nat.
Proof.
  intros D. destruct src as [|b [|b' t]]; destruct st; destruct last; toy_inv D;
    cbn [length]; lia.
Qed.

Lemma toy_progress st src cap last r read w s' :
  toy_dec st src cap last = (r, read, w, s') -> r <> InputEmpty ->
  (toy_mu s' (skipn read src) < toy_mu st src)%nat.
Proof.
  intros D Hr. unfold toy_mu.
  destruct src as [|b [|b' t]]; destruct st; destruct last; toy_inv D;
    try congruence; cbn [length skipn toy_rank]; lia.
Qed.

Theorem toy_contract : contract tstate toy_dec toy_sem toy_mu.
Proof.
  constructor.
  - intros. eapply toy_read; eassumption.
  - intros s src cap r read w s' D y.
    rewrite (toy_step _ _ _ _ _ _ _ _ D y ltac:(discriminate)). apply equiv_refl.
  - intros s src cap read w s' D.
    pose proof (toy_step _ _ _ _ _ _ _ _ D [] ltac:(reflexivity)) as E.
    rewrite !app_nil_r in E. rewrite E. unfold call_events. rewrite app_nil_r. apply equiv_refl.
  - intros s src cap r read w s' D Hr.
    pose proof (toy_step _ _ _ _ _ _ _ _ D [] ltac:(reflexivity)) as E.
    rewrite !app_nil_r in E. rewrite E. destruct r; [congruence| |]; apply equiv_refl.
  - intros. eapply toy_full; eassumption.
  - intros. eapply toy_progress; eassumption.
Qed.

(* the defect: ESC ( at the end of the stream.  One-shot: U+FFFD then "(";
   through decode_to_sink: U+FFFD only, the pending "(" is never asked for *)
Definition refuting_chunks : list (list N) := [[ESC; LPAR]].

Theorem enc_loop_refuted :
  contract tstate toy_dec toy_sem toy_mu /\
  exists evs, toy_run refuting_chunks = Done evs /\
              text evs = repl_bytes /\
              text (toy_sem TA (concat refuting_chunks)) = repl_bytes ++ [LPAR] /\
              ~ equiv evs (toy_sem TA (concat refuting_chunks)).
Proof.
  split; [exact toy_contract|].
  exists [Error false; Replacement]. split; [vm_compute; reflexivity|].
  split; [reflexivity|]. split; [reflexivity|].
  intros [T _]. vm_compute in T. discriminate.
Qed.

(* and it is exactly the excluded class: the toy decoder holds output after a
   final Malformed *)
Theorem toy_is_in_finding_class : ~ no_pending_after_final_malformed tstate toy_dec toy_sem.
Proof.
  intros NP. specialize (NP TE2 [] 0%N 0%nat [] TP eq_refl eq_refl).
  destruct NP as [T _]. vm_compute in T. discriminate.
Qed.

(* the theorem for every decoder under the contract, stated for export *)
Theorem enc_loop_outside_finding :
  forall (dstate : Type) dec maxlen sem mu fuel_of,
    (forall s i, (mu s i < fuel_of s i)%nat) ->
    contract dstate dec sem mu ->
    no_pending_after_final_malformed dstate dec sem ->
    forall chunks s,
    exists evs, enc_run dstate dec maxlen fuel_of s chunks = Done evs /\
                text evs = text (sem s (concat chunks)) /\
                n_err evs = n_err (sem s (concat chunks)) /\
                n_repl evs = n_repl (sem s (concat chunks)).
Proof.
  intros dstate dec maxlen sem mu fuel_of Hf C NP chunks s.
  destruct (enc_run_spec dstate dec maxlen sem mu fuel_of Hf C NP chunks s) as [evs [R E]].
  exists evs. split; [exact R|exact E].
Qed.

(* mid-stream chunks are always handled correctly (no extra hypothesis): the
   defect can only bite in finish() *)
Theorem enc_loop_stream_chunk :
  forall (dstate : Type) dec maxlen sem mu,
    contract dstate dec sem mu ->
    forall fuel s input, (mu s input < fuel)%nat ->
    exists s' evs, decode_to_sink dstate dec maxlen fuel s input false = Done (s', evs) /\
      forall y, equiv (sem s (input ++ y)) (evs ++ sem s' y).
Proof.
  intros dstate dec maxlen sem mu C fuel s input L.
  apply (loop_stream dstate dec maxlen sem mu (fun s i => S (mu s i))); auto.
Qed.

(* the minimal repair (keep calling at end of stream until InputEmpty) is
   correct for every decoder under the contract, no exclusion needed *)
Theorem enc_loop_repaired_correct :
  forall (dstate : Type) dec maxlen sem mu fuel_of,
    (forall s i, (mu s i < fuel_of s i)%nat) ->
    contract dstate dec sem mu ->
    forall chunks s,
    exists evs, enc_run_repaired dstate dec maxlen fuel_of s chunks = Done evs /\
                text evs = text (sem s (concat chunks)) /\
                n_err evs = n_err (sem s (concat chunks)) /\
                n_repl evs = n_repl (sem s (concat chunks)).
Proof.
  intros dstate dec maxlen sem mu fuel_of Hf C chunks s.
  destruct (enc_run_repaired_spec dstate dec maxlen sem mu fuel_of Hf C chunks s) as [evs [R E]].
  exists evs. split; [exact R|exact E].
Qed.
